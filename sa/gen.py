"""Instantiation-driver generator.  A driver is a tiny TU that explicitly instantiates the
templates of sa/drivers/drv_*.hpp for one matrix point; it is parsed, never linked or run."""
from .lib.core import Unit

ELEMS = {
    'TC': 'arch::TC', 'TRnc': 'arch::TRnc', 'NTR': 'arch::NTR', 'NTRtm': 'arch::NTRtm', 'OptOut': 'arch::OptOut',
    'MoveOnly': 'arch::MoveOnly', 'int': 'int', 'char': 'char', 'double': 'double',
}
COPYABLE = {'TC', 'TRnc', 'NTR', 'NTRtm', 'OptOut', 'int', 'char', 'double'}
RELOC = {'TC', 'TRnc', 'MoveOnly', 'int', 'char', 'double'}          # oracle: trivially relocatable archetypes
TRIV_COPY = {'TC', 'OptOut', 'int', 'char', 'double'}
SIZETYPES = {'u8': 'std::uint8_t', 'u16': 'std::uint16_t', 'u32': 'std::uint32_t', 'u64': 'std::uint64_t',
             'i8': 'std::int8_t', 'i32': 'std::int32_t'}
ALLOCS = {'amc': 'amc::allocator<%s >', 'std': 'std::allocator<%s >', 'realloc': 'arch::ReallocAlloc<%s >',
          'arena': 'arch::ArenaAlloc<%s >'}
ITERS = {'ptr': 'const %s *', 'input': 'arch::InputIt<%s >', 'fwd': 'arch::FwdIt<%s >', 'bidir': 'arch::BidirIt<%s >',
         'list': 'typename std::list<%s >::iterator', 'moveit': 'std::move_iterator<%s *>'}


def vec_type(elem, flavour, n=0, st='u32', alloc='amc', policy='ExceptionGrowingPolicy'):
    E = ELEMS[elem]
    S = SIZETYPES[st] if st else None
    if flavour == 'vector':
        return 'amc::vector<%s, %s, %s>' % (E, ALLOCS[alloc] % E, S)
    if flavour == 'small':
        return 'amc::SmallVector<%s, %d, %s, %s>' % (E, n, ALLOCS[alloc] % E, S)
    if flavour == 'fcv':
        if st is None:
            return 'amc::FixedCapacityVector<%s, %d, amc::vec::%s>' % (E, n, policy)
        return 'amc::FixedCapacityVector<%s, %d, amc::vec::%s, %s>' % (E, n, policy, S)
    raise ValueError(flavour)


def vec_unit(elem, flavour, n=0, st='u32', alloc='amc', iters=('ptr', 'input'), std=17, nonstd=True, ndebug=False,
             policy='ExceptionGrowingPolicy'):
    E = ELEMS[elem]
    V = vec_type(elem, flavour, n, st, alloc, policy)
    name = 'vec-%s-%s%d-%s-%s%s' % (elem, flavour, n, st, alloc, '' if policy.startswith('Exc') else '-unchk')
    lines = ['#include "drv_vector.hpp"', 'using E = %s;' % E, 'using V = %s;' % V,
             'template void drv::use_vector_movable<V>(V&, V&, const V&);']
    if elem in COPYABLE:
        lines.append('template void drv::use_vector_copyable<V>(V&, V&, const V&);')
        for it in iters:
            I = ITERS[it] % E
            if it == 'list':
                I = 'std::list<%s >::iterator' % E
            lines.append('template void drv::use_vector_ranges<V, %s >(V&, %s, %s);' % (I, I, I))
    if std >= 20:
        lines.append('template void drv::use_vector_cxx20<V>(V&, const V&);')
    return Unit(name, '\n'.join(lines) + '\n', std=std, nonstd=nonstd, ndebug=ndebug)


def swap2_unit(elem, specs, std=17, steal=True):
    """specs: list of (flavour, n, st, alloc).  All ordered pairs get a swap2 instantiation."""
    E = ELEMS[elem]
    lines = ['#include "drv_vector.hpp"', 'using E = %s;' % E]
    types = []
    for i, (fl, n, st, al) in enumerate(specs):
        lines.append('using V%d = %s;' % (i, vec_type(elem, fl, n, st, al)))
        types.append('V%d' % i)
    for a in types:
        for b in types:
            lines.append('template void drv::use_swap2<%s, %s>(%s&, %s&);' % (a, b, a, b))
    if steal:
        for i, (fl, n, st, al) in enumerate(specs):
            if fl == 'small' and n > 0:
                pv = vec_type(elem, 'vector', 0, st, al)
                lines.append('template void drv::use_steal<V%d, %s >(%s &);' % (i, pv, pv))
    name = 'swap2-%s-%s' % (elem, '_'.join('%s%d%s%s' % s for s in specs))
    return Unit(name[:120], '\n'.join(lines) + '\n', std=std)


def adl_swap_unit(elem, pairs, std=17):
    """pairs: list of ((flavour, n, st, alloc), (flavour, n', st, alloc)) sharing one VectorImpl base: `swap(a, b)` found by ADL is the
    free function template over VectorImpl, which forwards to swap2."""
    E = ELEMS[elem]
    lines = ['#include "drv_vector.hpp"', 'using E = %s;' % E]
    for i, (a, b) in enumerate(pairs):
        lines.append('using A%d = %s;' % (i, vec_type(elem, *a)))
        lines.append('using B%d = %s;' % (i, vec_type(elem, *b)))
        lines.append('template void drv::use_adl_swap<A%d, B%d>(A%d&, B%d&);' % (i, i, i, i))
        lines.append('template void drv::use_adl_swap<B%d, A%d>(B%d&, A%d&);' % (i, i, i, i))
    return Unit('adlswap-%s' % elem, '\n'.join(lines) + '\n', std=std)


CMPS = {'less': 'std::less<%s >', 'greater': 'std::greater<%s >', 'coarse': 'arch::Coarse<%s >',
        'stateful': 'arch::Stateful<%s >', 'transparent': 'arch::Transparent<%s >'}


def flatset_type(elem, cmp_='less', vec='vector', n=4):
    E = ELEMS[elem]
    C = CMPS[cmp_] % E
    if vec == 'vector':
        return 'amc::FlatSet<%s, %s >' % (E, C)
    if vec == 'small':
        return 'amc::FlatSet<%s, %s, amc::allocator<%s >, amc::SmallVector<%s, %d> >' % (E, C, E, E, n)
    if vec == 'fcv':
        return 'amc::FlatSet<%s, %s, amc::vec::EmptyAlloc, amc::FixedCapacityVector<%s, %d> >' % (E, C, E, n)
    if vec == 'stdvector':
        return 'amc::FlatSet<%s, %s, std::allocator<%s >, std::vector<%s > >' % (E, C, E, E)
    raise ValueError(vec)


def flatset_unit(elem, cmp_='less', vec='vector', n=4, iters=('ptr', 'input'), std=17, nonstd=True, ndebug=False,
                 cmp2='greater'):
    E = ELEMS[elem]
    F = flatset_type(elem, cmp_, vec, n)
    F2 = flatset_type(elem, cmp2, vec, n)
    lines = ['#include "drv_sets.hpp"', 'using E = %s;' % E, 'using F = %s;' % F, 'using F2 = %s;' % F2,
             'template void drv::use_flatset<F>(F&, F&, const F&);',
             'template void drv::use_flatset_merge<F, F2>(F&, F2&);']
    for it in iters:
        I = ITERS[it] % E
        lines.append('template void drv::use_flatset_ranges<F, %s >(F&, %s, %s);' % (I, I, I))
    if cmp_ == 'transparent':
        lines.append('template void drv::use_flatset_transparent<F>(const F&);')
    if std >= 17 and vec != 'stdvector':
        lines.append('template void drv::use_flatset_extract_pos<F>(F&);')
    if nonstd and vec != 'stdvector':
        lines.append('template void drv::use_flatset_nonstd<F>(F&);')
    if nonstd and vec == 'stdvector':
        lines.append('template void drv::use_flatset_nonstd_min<F>(F&);')
    name = 'fset-%s-%s-%s%d' % (elem, cmp_, vec, n)
    return Unit(name, '\n'.join(lines) + '\n', std=std, nonstd=nonstd, ndebug=ndebug)


def smallset_type(elem, n=4, cmp_='less', backing='set'):
    E = ELEMS[elem]
    C = CMPS[cmp_] % E
    if backing == 'set':
        return 'amc::SmallSet<%s, %d, %s >' % (E, n, C)
    return 'amc::SmallSet<%s, %d, %s, amc::allocator<%s >, amc::FlatSet<%s, %s, amc::allocator<%s > > >' % (E, n, C, E, E, C, E)


def smallset_unit(elem, n=4, cmp_='less', backing='set', iters=('ptr', 'input'), std=17, nonstd=True, ndebug=False,
                  n2=2, cmp2='greater'):
    E = ELEMS[elem]
    S = smallset_type(elem, n, cmp_, backing)
    if n2 == n:
        n2 = n + 1
    S2 = smallset_type(elem, n2, cmp_, backing)
    S3 = smallset_type(elem, n, cmp2, backing)
    lines = ['#include "drv_sets.hpp"', 'using E = %s;' % E, 'using S = %s;' % S, 'using S2 = %s;' % S2, 'using S3 = %s;' % S3,
             'template void drv::use_smallset<S>(S&, S&, const S&);',
             'template void drv::use_smallset_merge<S, S>(S&, S&);',
             'template void drv::use_smallset_merge<S, S2>(S&, S2&);',
             'template void drv::use_smallset_merge<S, S3>(S&, S3&);']
    for it in iters:
        I = ITERS[it] % E
        lines.append('template void drv::use_smallset_ranges<S, %s >(S&, %s, %s);' % (I, I, I))
    if cmp_ == 'transparent':
        lines.append('template void drv::use_smallset_transparent<S>(const S&);')
    if backing == 'set':
        lines.append('template void drv::use_smallset_extract_pos<S>(S&);')
    name = 'sset-%s-%d-%s-%s' % (elem, n, cmp_, backing)
    return Unit(name, '\n'.join(lines) + '\n', std=std, nonstd=nonstd, ndebug=ndebug)


def memalg_unit(elem, std=17):
    E = ELEMS[elem]
    lines = ['#include "drv_memory.hpp"', 'using E = %s;' % E, 'template void drv::use_memory<E>(E*, E*, const E*, int);',
             'template void drv::use_allocator<E>(amc::allocator<E>&, int);']
    if elem == 'TC':
        for fr, to in (('float', 'int'), ('unsigned', 'int'), ('int', 'long'), ('char', 'signed char')):
            lines.append('template void drv::use_memory_convert<%s, %s >(const %s*, const %s*, %s*, int);' % (fr, to, fr, fr, to))
    if elem in COPYABLE:
        lines.append('template void drv::use_memory_copy<E>(E*, const E*, const E*, int);')
    for it in (('fwd', 'bidir', 'input') if elem in COPYABLE else ()):
        I = ITERS[it] % E
        lines.append('template void drv::use_memory_src<E, %s >(%s, %s, E*, int);' % (I, I, I))
    lines.append('template void drv::use_memory_src<E, std::move_iterator<E*> >(std::move_iterator<E*>, std::move_iterator<E*>, E*, int);')
    lines.append('template void drv::use_memory_dst<E, arch::MutFwdIt<E> >(E*, E*, arch::MutFwdIt<E>, int);')
    if elem in COPYABLE:
        # random access but not contiguous: a byte copy of the whole range is not a copy of the range
        lines.append('template void drv::use_memory_src<E, std::reverse_iterator<const E*> >(std::reverse_iterator<const E*>, std::reverse_iterator<const E*>, E*, int);')
        lines.append('template void drv::use_memory_rr<E>(std::reverse_iterator<const E*>, std::reverse_iterator<const E*>, std::reverse_iterator<E*>, int);')
    return Unit('mem-%s' % elem, '\n'.join(lines) + '\n', std=std)


def real_tu_units():
    """The build's own translation units (tests and benchmarks), with the build's flags."""
    import os
    from .lib.core import REPO
    out = []
    inc = ['-isystem', '/root/miniconda/include', '-I' + os.path.join(REPO, 'test')]
    for rel in ('test/vectors_test.cpp', 'test/sets_test.cpp', 'test/amc_isdetected_test.cpp',
                'benchmark/vectors_benchmark.cpp', 'benchmark/sets_benchmark.cpp'):
        p = os.path.join(REPO, rel)
        if os.path.exists(p):
            out.append(Unit('real-' + os.path.basename(rel)[:-4], '', std=17, nonstd=True, ndebug=True, path=p,
                            includes=inc, roots=[os.path.join(REPO, 'include', 'amc') + '/']))
    return out
