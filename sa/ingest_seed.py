#!/usr/bin/env python3
"""Confirms a seeded change produced in a scratch worktree and keeps it under /verif/seeded/<id>/.
usage: sa/ingest_seed.py <worktree> <id> <property> "<change>" "<needs>" [--flags "<extra g++ flags for the demo>"] [--compile-fail]
Confirmation done here (not by the sub-agent): the worktree's test suite is rebuilt with the change and both gtest
binaries must pass; the demonstration must fail with the change and pass against /repo/include."""
import json
import os
import shutil
import subprocess
import sys


def sh(cmd, **kw):
    return subprocess.run(cmd, shell=True, stdout=subprocess.PIPE, stderr=subprocess.STDOUT, universal_newlines=True, **kw)


def main():
    a = sys.argv[1:]
    flags = '-std=c++17 -DAMC_NONSTD_FEATURES'
    runenv = ''
    if '--flags' in a:
        i = a.index('--flags')
        flags = a[i + 1]
        del a[i:i + 2]
    compile_fail = '--compile-fail' in a
    a = [x for x in a if x != '--compile-fail']
    wt, sid, prop, change, needs = a[:5]
    here = os.path.dirname(os.path.dirname(os.path.abspath(__file__)))
    patch = sh('git -C %s diff -- include' % wt).stdout
    if not patch.strip():
        raise SystemExit('no change in %s/include' % wt)
    b = sh('cmake -G Ninja -S %s -B %s/_build -DCMAKE_BUILD_TYPE=Release >/dev/null && cmake --build %s/_build -j8 2>&1 | tail -1' % (wt, wt, wt))
    t1 = sh('%s/_build/test/vectors_test | tail -1' % wt).stdout.strip()
    t2 = sh('%s/_build/test/sets_test | tail -1' % wt).stdout.strip()
    print('tests:', t1, '|', t2)
    if 'PASSED  ] 67' not in t1 or 'PASSED  ] 735' not in t2:
        raise SystemExit('test suite does not pass with the change: %s %s %s' % (b.stdout[-300:], t1, t2))
    demo = os.path.join(wt, 'demo', 'demo.cc')
    res = {}
    for label, inc in (('with', os.path.join(wt, 'include')), ('without', '/repo/include')):
        exe = '/tmp/wt/_demo_%s_%s' % (sid, label)
        c = sh('g++ %s -I%s %s -o %s -pthread' % (flags, inc, demo, exe))
        if c.returncode != 0:
            res[label] = 'compile-error'
            print(label, 'compile error:', c.stdout[-400:])
        else:
            r = sh('%s >/dev/null 2>&1; echo $?' % exe)
            res[label] = 'exit ' + r.stdout.strip()
        if os.path.exists(exe):
            os.remove(exe)
    print('demo:', res)
    bad_with = res['with'] != 'exit 0'
    if res['without'] != 'exit 0' or not bad_with or (res['with'] == 'compile-error') != compile_fail:
        raise SystemExit('demonstration not confirmed')
    dst = os.path.join(here, 'seeded', sid)
    os.makedirs(dst, exist_ok=True)
    open(os.path.join(dst, 'patch.diff'), 'w').write(patch)
    shutil.copy(demo, os.path.join(dst, 'demo.cc'))
    if os.path.exists(os.path.join(wt, 'demo', 'README.txt')):
        shutil.copy(os.path.join(wt, 'demo', 'README.txt'), os.path.join(dst, 'README.txt'))
    head = sh('git -C %s rev-parse --short HEAD' % wt).stdout.strip()
    meta = {'id': sid, 'property': prop,
            'origin': 'sub-agent (%s round) given only the property text, a note not to repeat the earlier ideas, and a scratch worktree of /repo@%s' % ({'a': 'first', 'b': 'second', 'c': 'third', 'd': 'fourth'}.get(sid[-1], 'later'), head),
            'change': change, 'needs_to_manifest': needs,
            'confirmed': {'base_commit': head, 'tests_with_change': 'vectors_test 67 passed, sets_test 735 passed (rebuilt in the scratch worktree)',
                          'demo': 'g++ %s -I<include> demo.cc: %s with the change, exit 0 against /repo/include' % (flags, res['with'])},
            'files': ['patch.diff', 'demo.cc', 'README.txt']}
    json.dump(meta, open(os.path.join(dst, 'meta.json'), 'w'), indent=1)
    print('kept', dst)


if __name__ == '__main__':
    main()
