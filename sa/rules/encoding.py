"""The inline size/capacity encoding of SmallVector (DESIGN.md 3.D): ENC-W, ENC-R.

While inline, `_capa` holds the size and `_size` holds N (or kMaxSize when exactly full).  The rules
do not prove the invariant (a relation between run-time words); they check the two disciplines every
correct function obeys: the words are written only by the encoders, jointly, or on an object known
to be large; and `_size` is read as a value only where the full marker has been tested or the object
is known to be large."""
from ..lib.core import RuleResult, Finding, short, walk, rel
from ..lib import ast as A
from ..lib.flow import Engine, Client

SVB = 'amc::vec::SmallVectorBase'
ENCODERS = {SVB + '::setSize', SVB + '::incrSize', SVB + '::decrSize'}
DEFINERS = ENCODERS | {SVB + '::isSmall', SVB + '::msize', SVB + '::mcapacity'}
PRECOND_LARGE = {SVB + '::shrink', SVB + '::freeStorage', SVB + '::resetToSmall'}
WORDS = ('_capa', '_size')


def word_of(n, linit=None):
    """(object, word) if n designates a size word of a SmallVectorBase object: a field access, or the
    msize()/mcapacity() accessors (word 'dyn': which word is decided at run time)."""
    n = A.strip(n)
    if not isinstance(n, dict):
        return None
    if n.get('k') == 'mem' and n.get('field') and n.get('name') in WORDS and n.get('clsq') == SVB:
        kind, r = A.root(n.get('base'), linit)
        return ('this' if kind == 'this' else (r.get('name') or kind)), n['name']
    if n.get('k') == 'call' and A.callee(n) in (SVB + '::msize', SVB + '::mcapacity'):
        kind, r = A.root(n.get('obj'), linit) if n.get('obj') is not None else ('this', {})
        return ('this' if kind == 'this' else (r.get('name') or kind)), ('dyn:' + A.cshort(n))
    return None


def rhs_class(n, linit):
    """Coarse provenance of a value stored into a size word."""
    n = A.strip(n)
    if not isinstance(n, dict):
        return 'other'
    w = word_of(n, linit)
    if w:
        return 'word:%s:%s' % w
    if n.get('k') == 'call' and A.cshort(n) in ('exchange',) and n.get('args'):
        return rhs_class(n['args'][0], linit)
    if n.get('k') == 'lit' or n.get('cv') is not None:
        return 'const:%s' % (n.get('cv') if n.get('cv') is not None else n.get('v'))
    if n.get('k') == 'ref' and n.get('dk') == 'param':
        return 'param:%s' % n.get('name')
    if n.get('k') == 'ref' and n.get('dk') == 'local':
        ini = (linit or {}).get(n.get('did'))
        if ini and ini[0] is not None:
            i = A.strip(ini[0])
            if i.get('k') == 'call' and A.cshort(i) == 'SafeNextCapacity':
                return 'nextcapa'
            return rhs_class(i, linit)
        # assigned on all branches from SafeNextCapacity (grow)
        return 'local:%s' % n.get('name')
    if n.get('k') == 'cond':
        return 'cond(%s,%s)' % (rhs_class(n.get('a'), linit), rhs_class(n.get('b'), linit))
    if n.get('k') == 'call' and A.cshort(n) == 'SafeNextCapacity':
        return 'nextcapa'
    if n.get('k') == 'cast':
        return rhs_class(n.get('sub'), linit)
    if n.get('k') == 'ref' and n.get('name') == 'kMaxSize':
        return 'max'
    if n.get('k') == 'mem' and n.get('staticvar', '').endswith('kMaxSize'):
        return 'max'
    return 'other'


class EncClient(Client):
    def __init__(self, prog, f, linit, init_large=False):
        self.prog, self.f, self.linit = prog, f, linit
        self.stores = []       # (node, obj, word, had_large_fact, rhs_class)
        self.node_by_id = {}

    def is_event(self, n):
        return n.get('k') in ('bin', 'un', 'call')

    def pred_facts(self, c):
        """Facts implied by a true result of a predicate call: isSmall() / canSwapDynStorage(o)."""
        nm = A.cshort(c)
        if nm == 'isSmall' and A.callee(c) == SVB + '::isSmall':
            kind, r = A.root(c.get('obj'), self.linit) if c.get('obj') is not None else ('this', {})
            obj = 'this' if kind == 'this' else (r.get('name') or kind)
            return [('S', obj)], [('L', obj)]
        if nm == 'canSwapDynStorage':
            callee = self.prog.fns.get(c.get('fn'))
            tf = []
            if callee and callee.get('body'):
                rets = [x for x in walk(callee['body']) if x.get('k') == 'ret']
                if len(rets) == 1:
                    # conjunction literals of the single return expression
                    lits = []

                    def conj(e):
                        e = A.strip(e)
                        if isinstance(e, dict) and e.get('k') == 'bin' and e.get('op') == '&&':
                            conj(e['lhs'])
                            conj(e['rhs'])
                        else:
                            lits.append(e)
                    conj(rets[0].get('e'))
                    okind, orr = A.root(c['args'][0], self.linit) if c.get('args') else ('other', {})
                    oname = 'this' if okind == 'this' else (orr.get('name') or okind)
                    skind, srr = A.root(c.get('obj'), self.linit) if c.get('obj') is not None else ('this', {})
                    sname = 'this' if skind == 'this' else (srr.get('name') or skind)
                    for l in lits:
                        if isinstance(l, dict) and l.get('k') == 'un' and l.get('op') == '!':
                            inner = A.strip(l.get('sub'))
                            if isinstance(inner, dict) and inner.get('k') == 'call' and A.callee(inner) == SVB + '::isSmall':
                                ik, ir = A.root(inner.get('obj')) if inner.get('obj') is not None else ('this', {})
                                tf.append(('L', sname if ik == 'this' else oname))
            return tf, []
        return [], []

    def assume(self, cond, truth, s):
        c = A.strip(cond)
        if isinstance(c, dict) and c.get('k') == 'call':
            t, f = self.pred_facts(c)
            add = t if truth else f
            if add:
                s = frozenset(x for x in s if not (x[0] in ('S', 'L') and any(x[1] == a[1] for a in add))) | frozenset(add)
        return s

    def _store(self, node, target, rhs, s):
        w = word_of(target, self.linit)
        if not w:
            return s
        obj, word = w
        large = ('L', obj) in s
        self.stores.append((node, obj, word, large, rhs_class(rhs, self.linit) if rhs is not None else 'rmw', s))
        # a store to either word invalidates what is known about the object
        self.node_by_id[id(node)] = (node, obj, word, rhs_class(rhs, self.linit) if rhs is not None else 'rmw')
        return frozenset(x for x in s if not (x[0] in ('S', 'L') and x[1] == obj)) | {('W', obj, word, id(node), large)}

    def event(self, n, s):
        k = n.get('k')
        if k == 'bin':
            op = n.get('op', '')
            if op.endswith('=') and op not in ('==', '!=', '<=', '>='):
                s = self._store(n, n.get('lhs'), n.get('rhs') if op == '=' else None, s)
            return [('n', s)]
        if k == 'un':
            if n.get('op') in ('++', '--'):
                s = self._store(n, n.get('sub'), None, s)
            return [('n', s)]
        # calls: an argument bound to a non-const reference parameter is written by the callee
        callee = self.prog.fns.get(n.get('fn')) if n.get('fn') else None
        if callee is not None:
            ps = callee.get('params', [])
            args = n.get('args', [])
            wargs = []
            for i, a in enumerate(args):
                if i < len(ps) and ps[i]['t'].rstrip().endswith('&') and not ps[i]['t'].rstrip().endswith('&&') \
                        and not ps[i]['t'].startswith('const ') and word_of(a, self.linit):
                    wargs.append((i, a))
            for i, a in wargs:
                other = None
                if A.cshort(n) in ('swap', 'swap_sizetype') and len(args) == 2:
                    other = args[1 - i]
                elif A.cshort(n) == 'exchange' and len(args) == 2 and i == 0:
                    other = args[1]
                s = self._store(n, a, other, s)
        return [('n', s)]


def enc_w(progs):
    rr = RuleResult('ENC-W', 'the size words of a SmallVector that may be inline are written only by the encoders (setSize/incrSize/decrSize), '
                             'jointly (both words on the path, from matching sources), or on an object known to be large')
    for prog in progs:
        for f in prog.amc_functions():
            body = f.get('body')
            if body is None or f['name'] in DEFINERS:
                continue
            if not f['name'].startswith('amc::vec::') and not f['name'].startswith('amc::Vector'):
                continue
            linit = A.local_inits(body)
            # quick filter: does the function touch a size word of a SmallVectorBase at all?
            touches = any(word_of(n, linit) for n in walk(body) if n.get('k') in ('mem', 'call'))
            if not touches:
                continue
            if f.get('kind') == 'ctor':
                continue      # constructors establish the initial shape through their initialiser list
            init = frozenset({('L', 'this')}) if f['name'] in PRECOND_LARGE else frozenset()
            cl = EncClient(prog, f, linit)
            eng = Engine(cl)
            o = eng.run(body, init, f.get('inits'))
            finals = list(o.normal) + [s for s, _ in o.returns]
            # per store site verdict, path by path: on each complete path a store is fine if both words of the object are
            # written on that path (joint) or the object was known to be large when the store executed
            verdict = {}
            for st in finals:
                words = {}
                for x in st:
                    if x[0] == 'W':
                        words.setdefault(x[1], set()).add(x[2])
                for x in st:
                    if x[0] != 'W':
                        continue
                    _, obj, word, nid, large = x
                    joint = words[obj] >= {'_capa', '_size'} and not word.startswith('dyn')
                    v = verdict.setdefault(nid, {'joint': True, 'large': True, 'ok': True})
                    v['joint'] = v['joint'] and joint
                    v['large'] = v['large'] and large
                    v['ok'] = v['ok'] and (joint or large)
            for nid, v in verdict.items():
                node, obj, word, rc = cl.node_by_id[nid]
                wkey = word
                site = rel(prog.site(f, node))
                dyn = word.startswith('dyn')
                joint, known_large, ok = v['joint'], v['large'], v['ok']
                shape_ok = True
                why = ''
                if ok and not dyn and rc.startswith('word:'):
                    _, oobj, oword = rc.split(':', 2)
                    # a word is fed from the same-named word of another object (transfer) or from the other word of the
                    # same object (the role switch of grow / resetToSmall / shrink)
                    if oobj != obj and oword != word and not oword.startswith('dyn'):
                        shape_ok = False
                        why = '%s.%s receives %s.%s' % (obj, word, oobj, oword)
                rr.instance('%s|%s|%s' % (f['key'], obj, site), {'function': f['pname'][:140], 'object': obj, 'word': word, 'site': site,
                                                                'joint': joint, 'object_known_large': known_large, 'source': rc})
                if not ok:
                    rr.add(Finding('ENC-W', '%s|%s|%s' % (f['key'], obj, wkey), prog.site(f, node),
                                   'raw store to the %s word of `%s`, which may be in its inline state here (not an encoder, not a joint write of both '
                                   'words, object not known to be large): the inline size/capacity encoding (full marker) can be broken'
                                   % ('size' if 'size' in word else 'capacity' if 'capa' in word else word, obj), where=f['pname'], unit=prog.uname))
                elif not shape_ok:
                    rr.add(Finding('ENC-W', '%s|%s|%s|cross' % (f['key'], obj, wkey), prog.site(f, node),
                                   'size word written from the wrong word of the other operand (%s)' % why, where=f['pname'], unit=prog.uname))
    return rr


def _path_has(d, obj, word):
    return obj in d and (word in d[obj] or word.startswith('dyn'))


# ------------------------------------------------------------------------------ ENC-R
def enc_r(progs):
    rr = RuleResult('ENC-R', 'the `_size` word of a possibly-inline SmallVector is read as a value only where the full marker (kMaxSize) has been '
                             'tested or the object is known to be large')
    for prog in progs:
        for f in prog.amc_functions():
            body = f.get('body')
            if body is None or f['name'] in DEFINERS or f['name'] in PRECOND_LARGE:
                continue
            if f.get('clsq') != SVB and not f['name'].startswith('amc::vec::'):
                continue
            if f.get('kind') == 'ctor':
                continue
            linit = A.local_inits(body)
            P = None
            reads = []
            for n in walk(body):
                if n.get('k') == 'mem' and n.get('field') and n.get('name') == '_size' and n.get('clsq') == SVB:
                    reads.append(n)
            if not reads:
                continue
            P = A.Parents(body)
            for i, n in enumerate(reads):
                par, slot = P.parent(n)
                while par is not None and par.get('k') == 'cast':        # implicit lvalue-to-rvalue / integral conversions
                    par, slot = P.parent(par)
                # skip: stores (lhs), comparisons (== != < with max / _capa), by-reference arguments (stores)
                if par is None:
                    continue
                pk = par.get('k')
                if pk == 'bin' and par.get('op') in ('==', '!=', '<', '>', '<=', '>='):
                    continue
                if pk == 'bin' and par.get('op', '').endswith('=') and slot == 'lhs':
                    continue
                if pk == 'un' and par.get('op') in ('++', '--'):
                    continue
                if pk == 'call' and A.cshort(par) in ('swap', 'exchange', 'swap_sizetype'):
                    continue          # joint transfer (ENC-W)
                if pk == 'bin' and par.get('op') == '=' and slot == 'rhs' and _is_field(A.strip(par.get('lhs')), '_size'):
                    continue          # `_size = o._size`: the word is transferred as it is, not interpreted (joint transfer: ENC-W)
                kind, r = A.root(n.get('base'), linit)
                obj = 'this' if kind == 'this' else (r.get('name') or kind)
                ok = False
                for cond, truth in P.guards(n):
                    # large: isSmall() false
                    for c in walk(cond):
                        if c.get('k') == 'call' and A.callee(c) == SVB + '::isSmall':
                            ck, cr = A.root(c.get('obj')) if c.get('obj') is not None else ('this', {})
                            cobj = 'this' if ck == 'this' else (cr.get('name') or ck)
                            if cobj == obj:
                                neg = _negated_in(cond, c)
                                if (truth and neg) or (not truth and not neg and _is_whole(cond, c)):
                                    ok = True
                        if c.get('k') == 'bin' and c.get('op') in ('==', '!='):
                            l, r2 = A.strip(c.get('lhs')), A.strip(c.get('rhs'))
                            if any(x.get('k') == 'mem' and x.get('name') == '_size' for x in (l, r2) if isinstance(x, dict)) and \
                               any(_is_max(x) for x in (l, r2) if isinstance(x, dict)):
                                ok = True
                rr.instance('%s|%s|%d' % (f['key'], obj, i), {'function': f['pname'][:140], 'object': obj, 'site': rel(prog.site(f, n)), 'guarded': ok})
                if not ok:
                    rr.add(Finding('ENC-R', '%s|%s' % (f['key'], obj), prog.site(f, n),
                                   '`_size` of `%s` is read as a value without testing the full marker and without knowing that the object is large: '
                                   'while inline it holds N or kMaxSize, not the size' % obj, where=f['pname'], unit=prog.uname))
    return rr


def _is_max(n):
    n = A.strip(n)
    if not isinstance(n, dict):
        return False
    if n.get('k') == 'ref' and n.get('name') == 'kMaxSize':
        return True
    if n.get('k') == 'mem' and str(n.get('staticvar', '')).endswith('kMaxSize'):
        return True
    if n.get('k') == 'call' and A.callee(n).endswith('numeric_limits::max'):
        return True
    return False


def _negated_in(cond, c):
    """Is call c under an odd number of `!` inside cond?"""
    neg = [False]

    def rec(n, cur):
        if n is c:
            neg[0] = cur
            return True
        if isinstance(n, dict):
            if n.get('k') == 'un' and n.get('op') == '!':
                return rec(n.get('sub'), not cur)
            for v in n.values():
                if isinstance(v, (dict, list)) and rec(v, cur):
                    return True
        elif isinstance(n, list):
            for x in n:
                if rec(x, cur):
                    return True
        return False
    rec(cond, False)
    return neg[0]


def _is_whole(cond, c):
    return A.strip(cond) is c


# ------------------------------------------------------------------------------ ENC-SIB: the three encoders themselves
def _is_field(n, name):
    n = A.strip(n)
    return isinstance(n, dict) and n.get('k') == 'mem' and n.get('field') and n.get('name') == name and n.get('clsq') == SVB and A.root(n.get('base'))[0] == 'this'


def enc_sib(progs):
    """The encoders are the definition of the encoding, so ENC-W exempts them; what is checked here is the discipline the three of
    them share: large branch writes only `_size`; small branch moves the element count in `_capa`; `_size` is written only to set
    the full marker (kMaxSize, when the new count reaches `_size`) or to restore N (`_size = _capa`, only under `_size == kMaxSize`
    and before `_capa` changes, because only then does `_capa` hold N)."""
    rr = RuleResult('ENC-SIB', 'setSize / incrSize / decrSize agree on the inline encoding: the element count lives in `_capa`, `_size` is only set '
                               'to the full marker when the count reaches it, or restored from `_capa` under `_size == kMaxSize` before `_capa` changes; '
                               'the large branch writes only `_size`')
    for prog in progs:
        for f in prog.amc_functions():
            if f['name'] not in ENCODERS or f.get('body') is None:
                continue
            body = f['body']
            P = A.Parents(body)
            order = A.eval_order(body)
            probs = []
            stores = []
            for st, lhs in A.stores(body):
                w = '_capa' if _is_field(lhs, '_capa') else ('_size' if _is_field(lhs, '_size') else None)
                if w:
                    stores.append((st, w))

            def branch(n):
                """'small' / 'large' / None according to the isSmall() guard of n."""
                from .shape import unwrap_cond as _uw
                for cond, truth in P.guards(n):
                    c, neg = _uw(cond)
                    if isinstance(c, dict) and c.get('k') == 'call' and A.callee(c) == SVB + '::isSmall':
                        return 'small' if (truth != neg) else 'large'
                return None
            if not any(branch(st) for st, w in stores):
                probs.append(('shape', 'the stores are not under an isSmall() test', f))
            for st, w in stores:
                br = branch(st)
                if br == 'large' and w != '_size':
                    probs.append(('large-capa', 'the large-state branch writes `_capa`', st))
                if br == 'small' and w == '_size':
                    rhs = A.strip(st.get('rhs') or {}) if st.get('k') == 'bin' else {}
                    guards = P.guards(st)
                    if _is_max(rhs):
                        # full marker: guarded by a comparison involving `_size` (the inline capacity N) and the new count
                        ok = any(any(_is_field(x, '_size') for x in walk(c)) and A.strip(c).get('k') == 'bin' and A.strip(c).get('op') in ('==', '!=') and not any(_is_max(x) for x in walk(c)) and t == (A.strip(c).get('op') == '==')
                                 for c, t in guards)
                        if not ok:
                            probs.append(('marker-guard', 'the full marker is set without testing that the new count equals `_size` (N)', st))
                    elif _is_field(rhs, '_capa'):
                        ok = any(any(_is_max(x) for x in walk(c)) and any(_is_field(x, '_size') for x in walk(c)) and t == (A.strip(c).get('op') == '==') for c, t in guards)
                        if not ok:
                            probs.append(('restore-guard', '`_size = _capa` (restoring N) is not guarded by `_size == kMaxSize`', st))
                        later = [s2 for s2, w2 in stores if w2 == '_capa' and branch(s2) == 'small']
                        if any(order[id(s2)] < order[id(st)] for s2 in later if _same_path(P, s2, st)):
                            probs.append(('restore-order', '`_capa` is modified before N is restored from it', st))
                    else:
                        probs.append(('size-rhs', 'in the inline state `_size` receives something else than the full marker or `_capa`', st))
            # every small path changes `_capa` exactly as the operation says
            small_capa = [st for st, w in stores if w == '_capa' and branch(st) == 'small']
            want = {'incrSize': '++', 'decrSize': '--', 'setSize': '='}[short(f['name'])]
            for st in small_capa:
                op = st.get('op')
                if op != want:
                    probs.append(('capa-op', '`_capa` is changed with `%s` in %s' % (op, short(f['name'])), st))
                if want == '=' and not (A.strip(st.get('rhs') or {}).get('k') == 'ref' and A.strip(st['rhs']).get('dk') == 'param'):
                    probs.append(('capa-rhs', 'setSize does not store its argument into `_capa`', st))
            if not small_capa:
                probs.append(('capa-missing', 'the inline branch never updates `_capa`', f))
            large_size = [st for st, w in stores if w == '_size' and branch(st) == 'large']
            for st in large_size:
                if st.get('op') != want:
                    probs.append(('size-op', '`_size` is changed with `%s` in the large branch of %s' % (st.get('op'), short(f['name'])), st))
            if not large_size:
                probs.append(('size-missing', 'the large branch never updates `_size`', f))
            # the full marker must be handled in both directions where it can change
            has_set = any(w == '_size' and st.get('k') == 'bin' and _is_max(A.strip(st.get('rhs') or {})) for st, w in stores)
            has_restore = any(w == '_size' and st.get('k') == 'bin' and _is_field(A.strip(st.get('rhs') or {}), '_capa') for st, w in stores)
            sn = short(f['name'])
            if sn in ('incrSize', 'setSize') and not has_set:
                probs.append(('no-set', 'the full marker is never set although the count can reach N', f))
            if sn in ('decrSize', 'setSize') and not has_restore:
                probs.append(('no-restore', 'N is never restored although the count can leave N', f))
            rr.instance('%s' % f['key'], {'function': f['pname'][:140], 'stores': len(stores), 'problems': [p[0] for p in probs]})
            for code, msg, node in probs:
                rr.add(Finding('ENC-SIB', '%s|%s' % (f['key'], code), prog.site(f, node) if node is not f else f['loc'],
                               'encoder %s: %s' % (short(f['name']), msg), where=f['pname'], unit=prog.uname))
    return rr


def _same_path(P, a, b):
    """a and b can execute on one path (neither is in the opposite branch of a common if)."""
    ga = {id(c): t for c, t in P.guards(a)}
    for c, t in P.guards(b):
        if id(c) in ga and ga[id(c)] != t:
            return False
    return True


def shrink_inline(progs):
    rr = RuleResult('SHRINK-INLINE', 'shrink_to_fit of a heap-backed SmallVector returns to the inline storage exactly when the elements fit (size <= N)')
    from .shape import unwrap_cond
    for prog in progs:
        for f in prog.amc_functions():
            if f['name'] != SVB + '::shrink_impl' or f.get('body') is None:
                continue
            P = A.Parents(f['body'])
            calls = [c for c in A.calls(f['body']) if A.callee(c) == SVB + '::resetToSmall']
            ok = False
            extra = False
            from .config import const_value
            for c in calls:
                for cond, truth in P.guards(c):
                    cn, neg = unwrap_cond(cond)
                    t = truth != neg
                    is_size_guard = False
                    if isinstance(cn, dict) and cn.get('k') == 'bin' and cn.get('op') in ('<=', '>', '>=', '<'):
                        l_, r_ = A.strip(cn['lhs']), A.strip(cn['rhs'])
                        is_size_guard = _is_field(l_, '_size') or _is_field(r_, '_size')
                    is_state = isinstance(cn, dict) and cn.get('k') == 'call' and A.cshort(cn) == 'isSmall'     # only a heap-backed vector can shrink
                    if not is_size_guard and not is_state and const_value(cond) is None:
                        extra = True        # a further run-time condition restricts the return to the inline storage
                    if isinstance(cn, dict) and cn.get('k') == 'bin':
                        l, r, op = A.strip(cn['lhs']), A.strip(cn['rhs']), cn['op']
                        ls, rs = _is_field(l, '_size'), _is_field(r, '_size')
                        lp = l.get('k') == 'ref' and l.get('dk') == 'param'
                        rp = r.get('k') == 'ref' and r.get('dk') == 'param'
                        if (ls and rp and ((op == '<=' and t) or (op == '>' and not t))) or (lp and rs and ((op == '>=' and t) or (op == '<' and not t))):
                            ok = True
            ok = ok and not extra
            rr.instance('%s' % f['key'], {'function': f['pname'][:140], 'resetToSmall_calls': len(calls), 'guard_is_size_le_N': ok})
            if not ok:
                rr.add(Finding('SHRINK-INLINE', '%s' % f['key'], f['loc'],
                               'shrink_impl does not come back to the inline storage exactly when `_size <= inplaceCapa`', where=f['pname'], unit=prog.uname))
    return rr
