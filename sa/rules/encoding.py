"""The inline size/capacity encoding of SmallVector (DESIGN.md 3.D): ENC-W, ENC-R.

While inline, `_capa` holds the size and `_size` holds N (or kMaxSize when exactly full).  The rules
do not prove the invariant (a relation between run-time words); they check the two disciplines every
correct function obeys: the words are written only by the encoders, jointly, or on an object known
to be large; and `_size` is read as a value only where the full marker has been tested or the object
is known to be large."""
from ..lib.core import RuleResult, Finding, short, walk, rel
from ..lib import ast as A
from ..lib.flow import Engine, Client

SVB = 'amc::vec::SmallVectorBase'
ENCODERS = {SVB + '::setSize', SVB + '::incrSize', SVB + '::decrSize'}
DEFINERS = ENCODERS | {SVB + '::isSmall', SVB + '::msize', SVB + '::mcapacity'}
PRECOND_LARGE = {SVB + '::shrink', SVB + '::freeStorage', SVB + '::resetToSmall'}
WORDS = ('_capa', '_size')


def word_of(n, linit=None):
    """(object, word) if n designates a size word of a SmallVectorBase object: a field access, or the
    msize()/mcapacity() accessors (word 'dyn': which word is decided at run time)."""
    n = A.strip(n)
    if not isinstance(n, dict):
        return None
    if n.get('k') == 'mem' and n.get('field') and n.get('name') in WORDS and n.get('clsq') == SVB:
        kind, r = A.root(n.get('base'), linit)
        return ('this' if kind == 'this' else (r.get('name') or kind)), n['name']
    if n.get('k') == 'call' and A.callee(n) in (SVB + '::msize', SVB + '::mcapacity'):
        kind, r = A.root(n.get('obj'), linit) if n.get('obj') is not None else ('this', {})
        return ('this' if kind == 'this' else (r.get('name') or kind)), ('dyn:' + A.cshort(n))
    return None


def rhs_class(n, linit):
    """Coarse provenance of a value stored into a size word."""
    n = A.strip(n)
    if not isinstance(n, dict):
        return 'other'
    w = word_of(n, linit)
    if w:
        return 'word:%s:%s' % w
    if n.get('k') == 'call' and A.cshort(n) in ('exchange',) and n.get('args'):
        return rhs_class(n['args'][0], linit)
    if n.get('k') == 'lit' or n.get('cv') is not None:
        return 'const:%s' % (n.get('cv') if n.get('cv') is not None else n.get('v'))
    if n.get('k') == 'ref' and n.get('dk') == 'param':
        return 'param:%s' % n.get('name')
    if n.get('k') == 'ref' and n.get('dk') == 'local':
        ini = (linit or {}).get(n.get('did'))
        if ini and ini[0] is not None:
            i = A.strip(ini[0])
            if i.get('k') == 'call' and A.cshort(i) == 'SafeNextCapacity':
                return 'nextcapa'
            return rhs_class(i, linit)
        # assigned on all branches from SafeNextCapacity (grow)
        return 'local:%s' % n.get('name')
    if n.get('k') == 'cond':
        return 'cond(%s,%s)' % (rhs_class(n.get('a'), linit), rhs_class(n.get('b'), linit))
    if n.get('k') == 'call' and A.cshort(n) == 'SafeNextCapacity':
        return 'nextcapa'
    if n.get('k') == 'cast':
        return rhs_class(n.get('sub'), linit)
    if n.get('k') == 'ref' and n.get('name') == 'kMaxSize':
        return 'max'
    if n.get('k') == 'mem' and n.get('staticvar', '').endswith('kMaxSize'):
        return 'max'
    return 'other'


class EncClient(Client):
    def __init__(self, prog, f, linit, init_large=False):
        self.prog, self.f, self.linit = prog, f, linit
        self.stores = []       # (node, obj, word, had_large_fact, rhs_class)
        self.node_by_id = {}

    def is_event(self, n):
        return n.get('k') in ('bin', 'un', 'call')

    def pred_facts(self, c):
        """Facts implied by a true result of a predicate call: isSmall() / canSwapDynStorage(o)."""
        nm = A.cshort(c)
        if nm == 'isSmall' and A.callee(c) == SVB + '::isSmall':
            kind, r = A.root(c.get('obj'), self.linit) if c.get('obj') is not None else ('this', {})
            obj = 'this' if kind == 'this' else (r.get('name') or kind)
            return [('S', obj)], [('L', obj)]
        if nm == 'canSwapDynStorage':
            callee = self.prog.fns.get(c.get('fn'))
            tf = []
            if callee and callee.get('body'):
                rets = [x for x in walk(callee['body']) if x.get('k') == 'ret']
                if len(rets) == 1:
                    # conjunction literals of the single return expression
                    lits = []

                    def conj(e):
                        e = A.strip(e)
                        if isinstance(e, dict) and e.get('k') == 'bin' and e.get('op') == '&&':
                            conj(e['lhs'])
                            conj(e['rhs'])
                        else:
                            lits.append(e)
                    conj(rets[0].get('e'))
                    okind, orr = A.root(c['args'][0], self.linit) if c.get('args') else ('other', {})
                    oname = 'this' if okind == 'this' else (orr.get('name') or okind)
                    skind, srr = A.root(c.get('obj'), self.linit) if c.get('obj') is not None else ('this', {})
                    sname = 'this' if skind == 'this' else (srr.get('name') or skind)
                    for l in lits:
                        if isinstance(l, dict) and l.get('k') == 'un' and l.get('op') == '!':
                            inner = A.strip(l.get('sub'))
                            if isinstance(inner, dict) and inner.get('k') == 'call' and A.callee(inner) == SVB + '::isSmall':
                                ik, ir = A.root(inner.get('obj')) if inner.get('obj') is not None else ('this', {})
                                tf.append(('L', sname if ik == 'this' else oname))
            return tf, []
        return [], []

    def assume(self, cond, truth, s):
        c = A.strip(cond)
        if isinstance(c, dict) and c.get('k') == 'call':
            t, f = self.pred_facts(c)
            add = t if truth else f
            if add:
                s = frozenset(x for x in s if not (x[0] in ('S', 'L') and any(x[1] == a[1] for a in add))) | frozenset(add)
        return s

    def _store(self, node, target, rhs, s):
        w = word_of(target, self.linit)
        if not w:
            return s
        obj, word = w
        large = ('L', obj) in s
        self.stores.append((node, obj, word, large, rhs_class(rhs, self.linit) if rhs is not None else 'rmw', s))
        # a store to either word invalidates what is known about the object
        self.node_by_id[id(node)] = (node, obj, word, rhs_class(rhs, self.linit) if rhs is not None else 'rmw')
        return frozenset(x for x in s if not (x[0] in ('S', 'L') and x[1] == obj)) | {('W', obj, word, id(node), large)}

    def event(self, n, s):
        k = n.get('k')
        if k == 'bin':
            op = n.get('op', '')
            if op.endswith('=') and op not in ('==', '!=', '<=', '>='):
                s = self._store(n, n.get('lhs'), n.get('rhs') if op == '=' else None, s)
            return [('n', s)]
        if k == 'un':
            if n.get('op') in ('++', '--'):
                s = self._store(n, n.get('sub'), None, s)
            return [('n', s)]
        # calls: an argument bound to a non-const reference parameter is written by the callee
        callee = self.prog.fns.get(n.get('fn')) if n.get('fn') else None
        if callee is not None:
            ps = callee.get('params', [])
            args = n.get('args', [])
            wargs = []
            for i, a in enumerate(args):
                if i < len(ps) and ps[i]['t'].rstrip().endswith('&') and not ps[i]['t'].rstrip().endswith('&&') \
                        and not ps[i]['t'].startswith('const ') and word_of(a, self.linit):
                    wargs.append((i, a))
            for i, a in wargs:
                other = None
                if A.cshort(n) in ('swap', 'swap_sizetype') and len(args) == 2:
                    other = args[1 - i]
                elif A.cshort(n) == 'exchange' and len(args) == 2 and i == 0:
                    other = args[1]
                s = self._store(n, a, other, s)
        return [('n', s)]


def enc_w(progs):
    rr = RuleResult('ENC-W', 'the size words of a SmallVector that may be inline are written only by the encoders (setSize/incrSize/decrSize), '
                             'jointly (both words on the path, from matching sources), or on an object known to be large')
    for prog in progs:
        for f in prog.amc_functions():
            body = f.get('body')
            if body is None or f['name'] in DEFINERS:
                continue
            if not f['name'].startswith('amc::vec::') and not f['name'].startswith('amc::Vector'):
                continue
            linit = A.local_inits(body)
            # quick filter: does the function touch a size word of a SmallVectorBase at all?
            touches = any(word_of(n, linit) for n in walk(body) if n.get('k') in ('mem', 'call'))
            if not touches:
                continue
            if f.get('kind') == 'ctor':
                continue      # constructors establish the initial shape through their initialiser list
            init = frozenset({('L', 'this')}) if f['name'] in PRECOND_LARGE else frozenset()
            cl = EncClient(prog, f, linit)
            eng = Engine(cl)
            o = eng.run(body, init, f.get('inits'))
            finals = list(o.normal) + [s for s, _ in o.returns]
            # per store site verdict, path by path: on each complete path a store is fine if both words of the object are
            # written on that path (joint) or the object was known to be large when the store executed
            verdict = {}
            for st in finals:
                words = {}
                for x in st:
                    if x[0] == 'W':
                        words.setdefault(x[1], set()).add(x[2])
                for x in st:
                    if x[0] != 'W':
                        continue
                    _, obj, word, nid, large = x
                    joint = words[obj] >= {'_capa', '_size'} and not word.startswith('dyn')
                    v = verdict.setdefault(nid, {'joint': True, 'large': True, 'ok': True})
                    v['joint'] = v['joint'] and joint
                    v['large'] = v['large'] and large
                    v['ok'] = v['ok'] and (joint or large)
            for nid, v in verdict.items():
                node, obj, word, rc = cl.node_by_id[nid]
                wkey = word
                site = rel(prog.site(f, node))
                dyn = word.startswith('dyn')
                joint, known_large, ok = v['joint'], v['large'], v['ok']
                shape_ok = True
                why = ''
                if ok and not dyn and rc.startswith('word:'):
                    _, oobj, oword = rc.split(':', 2)
                    # a word is fed from the same-named word of another object (transfer) or from the other word of the
                    # same object (the role switch of grow / resetToSmall / shrink)
                    if oobj != obj and oword != word and not oword.startswith('dyn'):
                        shape_ok = False
                        why = '%s.%s receives %s.%s' % (obj, word, oobj, oword)
                rr.instance('%s|%s|%s' % (f['key'], obj, site), {'function': f['pname'][:140], 'object': obj, 'word': word, 'site': site,
                                                                'joint': joint, 'object_known_large': known_large, 'source': rc})
                if not ok:
                    rr.add(Finding('ENC-W', '%s|%s|%s' % (f['key'], obj, wkey), prog.site(f, node),
                                   'raw store to the %s word of `%s`, which may be in its inline state here (not an encoder, not a joint write of both '
                                   'words, object not known to be large): the inline size/capacity encoding (full marker) can be broken'
                                   % ('size' if 'size' in word else 'capacity' if 'capa' in word else word, obj), where=f['pname'], unit=prog.uname))
                elif not shape_ok:
                    rr.add(Finding('ENC-W', '%s|%s|%s|cross' % (f['key'], obj, wkey), prog.site(f, node),
                                   'size word written from the wrong word of the other operand (%s)' % why, where=f['pname'], unit=prog.uname))
    return rr


def _path_has(d, obj, word):
    return obj in d and (word in d[obj] or word.startswith('dyn'))


# ------------------------------------------------------------------------------ ENC-R
def enc_r(progs):
    rr = RuleResult('ENC-R', 'the `_size` word of a possibly-inline SmallVector is read as a value only where the full marker (kMaxSize) has been '
                             'tested or the object is known to be large')
    for prog in progs:
        for f in prog.amc_functions():
            body = f.get('body')
            if body is None or f['name'] in DEFINERS or f['name'] in PRECOND_LARGE:
                continue
            if f.get('clsq') != SVB and not f['name'].startswith('amc::vec::'):
                continue
            if f.get('kind') == 'ctor':
                continue
            linit = A.local_inits(body)
            P = None
            reads = []
            for n in walk(body):
                if n.get('k') == 'mem' and n.get('field') and n.get('name') == '_size' and n.get('clsq') == SVB:
                    reads.append(n)
            if not reads:
                continue
            P = A.Parents(body)
            for i, n in enumerate(reads):
                par, slot = P.parent(n)
                # skip: stores (lhs), comparisons (== != < with max / _capa), by-reference arguments (stores)
                if par is None:
                    continue
                pk = par.get('k')
                if pk == 'bin' and par.get('op') in ('==', '!=', '<', '>', '<=', '>='):
                    continue
                if pk == 'bin' and par.get('op', '').endswith('=') and slot == 'lhs':
                    continue
                if pk == 'un' and par.get('op') in ('++', '--'):
                    continue
                if pk == 'call' and A.cshort(par) in ('swap', 'exchange', 'swap_sizetype'):
                    continue          # joint transfer (ENC-W)
                kind, r = A.root(n.get('base'), linit)
                obj = 'this' if kind == 'this' else (r.get('name') or kind)
                ok = False
                for cond, truth in P.guards(n):
                    # large: isSmall() false
                    for c in walk(cond):
                        if c.get('k') == 'call' and A.callee(c) == SVB + '::isSmall':
                            ck, cr = A.root(c.get('obj')) if c.get('obj') is not None else ('this', {})
                            cobj = 'this' if ck == 'this' else (cr.get('name') or ck)
                            if cobj == obj:
                                neg = _negated_in(cond, c)
                                if (truth and neg) or (not truth and not neg and _is_whole(cond, c)):
                                    ok = True
                        if c.get('k') == 'bin' and c.get('op') in ('==', '!='):
                            l, r2 = A.strip(c.get('lhs')), A.strip(c.get('rhs'))
                            if any(x.get('k') == 'mem' and x.get('name') == '_size' for x in (l, r2) if isinstance(x, dict)) and \
                               any(_is_max(x) for x in (l, r2) if isinstance(x, dict)):
                                ok = True
                rr.instance('%s|%s|%d' % (f['key'], obj, i), {'function': f['pname'][:140], 'object': obj, 'site': rel(prog.site(f, n)), 'guarded': ok})
                if not ok:
                    rr.add(Finding('ENC-R', '%s|%s' % (f['key'], obj), prog.site(f, n),
                                   '`_size` of `%s` is read as a value without testing the full marker and without knowing that the object is large: '
                                   'while inline it holds N or kMaxSize, not the size' % obj, where=f['pname'], unit=prog.uname))
    return rr


def _is_max(n):
    n = A.strip(n)
    if not isinstance(n, dict):
        return False
    if n.get('k') == 'ref' and n.get('name') == 'kMaxSize':
        return True
    if n.get('k') == 'mem' and str(n.get('staticvar', '')).endswith('kMaxSize'):
        return True
    if n.get('k') == 'call' and A.callee(n).endswith('numeric_limits::max'):
        return True
    return False


def _negated_in(cond, c):
    """Is call c under an odd number of `!` inside cond?"""
    neg = [False]

    def rec(n, cur):
        if n is c:
            neg[0] = cur
            return True
        if isinstance(n, dict):
            if n.get('k') == 'un' and n.get('op') == '!':
                return rec(n.get('sub'), not cur)
            for v in n.values():
                if isinstance(v, (dict, list)) and rec(v, cur):
                    return True
        elif isinstance(n, list):
            for x in n:
                if rec(x, cur):
                    return True
        return False
    rec(cond, False)
    return neg[0]


def _is_whole(cond, c):
    return A.strip(cond) is c
