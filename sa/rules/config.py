"""Configuration-independence and memory-algorithm rules (DESIGN.md 3.G): RETURN, RELOC-ORDER, MEMMOVE-PTR,
ASSERT-PURE, API-DIFF, BODY-DIFF, SELF-PTR."""
import hashlib
import json
import re

from ..lib.core import RuleResult, Finding, short, walk, rel
from ..lib import ast as A
from ..lib.flow import Engine, Client
from . import roles as R


# ------------------------------------------------------------------------------ RETURN
class NoopClient(Client):
    def is_event(self, n):
        return n.get('k') in ('throw', 'call')

    def event(self, n, s):
        if n.get('k') == 'throw':
            return [('x', s)]
        if n.get('k') == 'call' and n.get('name') in ('__assert_fail', 'abort', 'std::terminate', 'std::abort', 'exit', '__builtin_unreachable'):
            return [('x', s)]
        return [('n', s)]


def returns(progs):
    rr = RuleResult('RETURN', 'every amc function with a non-void result returns a value (or throws) on every path, in every configuration')
    for prog in progs:
        for f in prog.amc_functions():
            if f.get('body') is None or f.get('ret') in ('void', '') or f.get('kind') in ('ctor', 'dtor') or f.get('defaulted'):
                continue
            if f.get('lambda') and f.get('ret') == 'void':
                continue
            o = Engine(NoopClient()).run(f['body'], frozenset())
            falls = bool(o.normal)
            rr.instance('%s|%s' % (f['key'], rel(f.get('bloc') or f['loc'])), {'function': f['pname'][:150], 'result': f['ret'][:60], 'std': prog.facts.get('std'),
                                                                              'falls_off_the_end': falls})
            if falls:
                rr.add(Finding('RETURN', '%s|%s' % (f['key'], rel(f.get('bloc') or f['loc']).split(':')[0]), f.get('bloc') or f['loc'],
                               'control can reach the end of this function, which must return %s: undefined behaviour when the result is used '
                               '(configuration c++%s)' % (f['ret'][:60], prog.facts.get('std')), where=f['pname'], unit=prog.uname))
    return rr


# ------------------------------------------------------------------------------ RELOC-ORDER / MEMMOVE-PTR (memory.hpp dispatch)
def reloc_order(progs):
    rr = RuleResult('RELOC-ORDER', 'relocate = construct the destination from the rvalue source, then destroy the source, in that order, so the '
                                   'sources stay alive when a constructor throws; bulk memcpy/memmove modes are only selected for raw pointers')
    for prog in progs:
        for f in prog.amc_functions():
            if f.get('body') is None or not f['name'].startswith('amc::memory_details::'):
                continue
            sn = short(f['name'])
            ps = f.get('params', [])
            mode = ps[-1]['t'].replace('amc::memory_details::', '') if ps else ''
            if 'relocate' in sn and mode == 'Default':
                order = A.eval_order(f['body'])
                cons = [c for c in A.calls(f['body']) if R.role(c)[0] == 'construct']
                dest = [c for c in A.calls(f['body']) if R.role(c)[0] == 'destroy']
                ok = bool(cons) and bool(dest) and max(order[id(c)] for c in cons) < min(order[id(d)] for d in dest)
                # a destroy inside a loop that also constructs interleaves them: earlier sources are gone when a later construct throws
                P = A.Parents(f['body'])
                for d in dest:
                    lp = P.in_loop(d)
                    if lp is not None and any(R.role(c)[0] == 'construct' for c in A.calls(lp)):
                        ok = False
                rr.instance('%s|%s' % (f['key'], mode), {'function': f['pname'][:150], 'constructs': len(cons), 'destroys': len(dest), 'construct_before_destroy': ok})
                if not ok:
                    rr.add(Finding('RELOC-ORDER', '%s|order' % f['key'], f['loc'],
                                   'the generic relocate must move-construct every destination before destroying any source', where=f['pname'], unit=prog.uname))
            if mode == 'MemMove' and sn.endswith('_impl'):
                INTS = ('int', 'long', 'unsigned int', 'unsigned long', 'unsigned char', 'unsigned short', 'signed char', 'short', 'long long', 'unsigned long long')
                its = [p['t'] for p in ps[:-1] if p['t'].replace('const ', '') not in INTS]
                ok = all(t.rstrip().endswith('*') for t in its)
                rr.instance('%s|MemMove|%s' % (f['key'], ','.join(its)[:80]), {'function': f['pname'][:150], 'iterators': its, 'raw_pointers': ok})
                if not ok:
                    rr.add(Finding('RELOC-ORDER', '%s|memmove-non-pointer' % f['key'], f['loc'],
                                   'a single memcpy/memmove over the whole range is selected for iterators that are not raw pointers (%s): the range need '
                                   'not be contiguous' % its, where=f['pname'], unit=prog.uname))
    return rr


# ------------------------------------------------------------------------------ ASSERT-PURE
def assert_pure(progs):
    rr = RuleResult('ASSERT-PURE', 'the argument of every assert in amc has no side effect (no assignment / increment, no non-const member call, '
                                   'no allocation): enabling or disabling assertions cannot change behaviour')
    for prog in progs:
        for f in prog.amc_functions():
            if f.get('body') is None:
                continue
            seen = set()
            for n in walk(f['body']):
                mac = n.get('mac') or []
                if 'arg:assert' not in mac:
                    continue
                # top-most node of an assert argument: its parent is not part of the argument
                key = n.get('l')
                bad = None
                if n.get('k') == 'bin' and n.get('op', '').endswith('=') and n.get('op') not in ('==', '!=', '<=', '>='):
                    bad = 'assignment'
                elif n.get('k') == 'un' and n.get('op') in ('++', '--'):
                    bad = 'increment / decrement'
                elif n.get('k') == 'call' and n.get('method') and not n.get('constm') and not n.get('staticm') and n.get('op') not in ('()',) \
                        and not (A.cshort(n) in ('begin', 'end', 'size', 'capacity', 'empty', 'cbegin', 'cend')):
                    bad = 'call of the non-const member %s' % n.get('name')
                elif n.get('k') == 'call' and n.get('op') in A.ASSIGN_OPS:
                    bad = 'assignment operator'
                elif n.get('k') in ('new', 'delete'):
                    bad = 'allocation'
                elif n.get('k') == 'call' and n.get('fn') is not None:
                    # a callee that advances a single-pass iterator handed to it (std::distance, std::find, ...) consumes the caller's
                    # range: copies of an input iterator share the underlying stream
                    for fid in prog.reachable(n['fn']):
                        fx = prog.fns.get(fid)
                        if fx and fx.get('kind') == 'method' and not fx.get('const') and not fx.get('static') and \
                                (fx.get('clsq') or '').startswith('arch::InputIt'):
                            bad = 'single-pass iterator advanced inside %s (%s): the asserted range is consumed' % (A.cshort(n), short(fx['name']))
                            break
                site = rel(prog.site(f, n)).rsplit(':', 1)[0]
                if site not in seen:
                    seen.add(site)
                    rr.instance('%s|%s' % (f['key'], site), {'function': f['pname'][:140], 'assert_at': site})
                    if any('arch::InputIt' in p_.get('t', '') for p_ in f.get('params', [])):
                        rr.single_pass_sites = getattr(rr, 'single_pass_sites', 0) + 1
                if bad:
                    rr.add(Finding('ASSERT-PURE', '%s|%s' % (f['key'], bad.split(' ')[0].split('-')[0]), prog.site(f, n),
                                   'the argument of an assert contains a side effect (%s): behaviour differs between NDEBUG and assertion builds' % bad,
                                   where=f['pname'], unit=prog.uname))
    return rr


# ------------------------------------------------------------------------------ BODY-DIFF / API-DIFF
DROP = {'l', 'mac', 'did', 'fn', 'pname', 'cv', 'lv', 'st', 'nrvo', 'dtor', 'opnew', 'opdelete'}


def _canon(n):
    if isinstance(n, dict):
        return {k: _canon(v) for k, v in sorted(n.items()) if k not in DROP}
    if isinstance(n, list):
        return [_canon(x) for x in n]
    return n


def body_hash(f):
    return hashlib.sha1(json.dumps(_canon({'b': f.get('body'), 'i': f.get('inits')}), sort_keys=True).encode()).hexdigest()[:16]


def strip_assert(n):
    """Remove the expansion of assert(...) (it differs between NDEBUG on/off by construction; ASSERT-PURE covers it)."""
    if isinstance(n, dict):
        if 'assert' in (n.get('mac') or []) or 'arg:assert' in (n.get('mac') or []):
            return None
        return {k: strip_assert(v) for k, v in n.items()}
    if isinstance(n, list):
        return [x for x in (strip_assert(y) for y in n) if x is not None]
    return n


def const_value(c):
    """Compile-time value of a condition in the instantiated program (None when it depends on run-time values)."""
    c = A.strip(c)
    if not isinstance(c, dict):
        return None
    if c.get('cv') is not None:
        return bool(c['cv'])
    if c.get('k') == 'lit' and isinstance(c.get('v'), (bool, int)):
        return bool(c['v'])
    if c.get('k') == 'call' and A.callee(c) == '__builtin_expect' and c.get('args'):
        return const_value(c['args'][0])
    if c.get('k') == 'un' and c.get('op') == '!':
        v = const_value(c.get('sub'))
        return None if v is None else not v
    if c.get('k') == 'bin' and c.get('op') in ('&&', '||'):
        l, r = const_value(c.get('lhs')), const_value(c.get('rhs'))
        if c['op'] == '&&':
            return False if (l is False or r is False) else (True if (l and r) else None)
        return True if (l is True or r is True) else (False if (l is False and r is False) else None)
    return None


def live_walk(n):
    """walk() that does not enter branches the instantiated program can never take (conditions that fold to a constant)."""
    if isinstance(n, list):
        for x in n:
            for y in live_walk(x):
                yield y
        return
    if not isinstance(n, dict):
        return
    yield n
    if n.get('k') == 'if':
        v = const_value(n.get('c'))
        for key in ('var', 'c'):
            for y in live_walk(n.get(key)):
                yield y
        if v is None or v:
            for y in live_walk(n.get('then')):
                yield y
        if v is None or not v:
            for y in live_walk(n.get('else')):
                yield y
        return
    for v in n.values():
        if isinstance(v, (dict, list)):
            for y in live_walk(v):
                yield y


def effect_signature(f):
    roles = []
    throws = []
    stores = 0
    for n in live_walk({'b': f.get('body'), 'i': f.get('inits')}):
        if n.get('k') == 'call':
            kd, det = R.role(n)
            if kd:
                roles.append('%s:%s' % (kd, det))
        if n.get('k') == 'throw' and n.get('of'):
            throws.append(n['of'])
    for st, l in A.stores(f.get('body') or {}):
        stores += 1
    return (tuple(sorted(roles)), tuple(sorted(throws)), stores)


def body_diff(pairs, what, ignore_assert=False):
    """pairs: list of (progA, progB) compiled from the same driver under two configurations."""
    rr = RuleResult('BODY-DIFF', 'the instantiated body of every amc function is identical %s' % what)
    for pa, pb in pairs:
        fa = {f['key'] + '|' + f['pname']: f for f in pa.amc_functions()}
        fb = {f['key'] + '|' + f['pname']: f for f in pb.amc_functions()}
        for k in sorted(set(fa) & set(fb)):
            a, b = fa[k], fb[k]
            if ignore_assert:
                ha = hashlib.sha1(json.dumps(_canon(strip_assert({'b': a.get('body'), 'i': a.get('inits')})), sort_keys=True).encode()).hexdigest()
                hb = hashlib.sha1(json.dumps(_canon(strip_assert({'b': b.get('body'), 'i': b.get('inits')})), sort_keys=True).encode()).hexdigest()
            else:
                ha, hb = body_hash(a), body_hash(b)
            rr.instance('%s' % a['key'], {'function': a['pname'][:140], 'same_body': ha == hb})
            if ha != hb:
                rr.add(Finding('BODY-DIFF', '%s' % a['key'], a.get('bloc') or a['loc'],
                               'the body of this function differs %s (units %s / %s)' % (what, pa.uname, pb.uname), where=a['pname'], unit=pa.uname))
    return rr


def effect_diff(pairs, what):
    rr = RuleResult('EFFECT-DIFF', 'where a function has different source for different language standards (#if alternatives), both alternatives '
                                   'have the same effect signature (helper roles called, exceptions thrown, stores) %s' % what)
    for pa, pb in pairs:
        fa = {(f['key'], f['pname']): f for f in pa.amc_functions()}
        fb = {(f['key'], f['pname']): f for f in pb.amc_functions()}
        for kk in sorted(set(fa) & set(fb)):
            a, b = fa[kk], fb[kk]
            k = kk[0]
            if body_hash(a) == body_hash(b):
                continue
            sa, sb = effect_signature(a), effect_signature(b)
            rr.instance('%s|%s' % kk, {'function': a['pname'][:140], 'differs_between': [pa.facts.get('std'), pb.facts.get('std')], 'same_effect_signature': sa == sb})
            if sa != sb:
                rr.add(Finding('EFFECT-DIFF', '%s' % k, a.get('bloc') or a['loc'],
                               'the alternatives of this function for c++%s and c++%s do not have the same effects: %s vs %s'
                               % (pa.facts.get('std'), pb.facts.get('std'), sa, sb), where=a['pname'], unit=pa.uname))
    return rr


API_CLASSES = ('amc::Vector', 'amc::vec::VectorImpl', 'amc::vec::DynamicVector', 'amc::vec::StaticVector', 'amc::FlatSet', 'amc::SmallSet',
               'amc::vec::SmallVectorBase', 'amc::vec::StdVectorBase', 'amc::vec::StaticVectorBase')


def api_of(prog):
    """{(class qname, method name): set of (access, const, nparams/type)} over all instantiated records of the API classes."""
    out = {}
    for r in prog.records:
        if r.get('qname') not in API_CLASSES:
            continue
        for m in r.get('methods', []):
            out.setdefault((r['qname'], m['name']), set()).add(m['access'])
    return out


NONSTD_EXTRAS = {'append', 'pop_back_val', 'swap2', 'data', 'operator[]', 'at', 'capacity', 'reserve', 'shrink_to_fit', 'steal_vector', 'FlatSet', 'operator='}
STD_DEPENDENT = {
    # name: minimal standard that offers it (None: replaced in C++20)
    'extract': 17, 'operator<=>': 20, 'operator<': -20, 'operator<=': -20, 'operator>': -20, 'operator>=': -20, 'operator!=': -20,
}


def api_diff_nonstd(pairs):
    rr = RuleResult('API-DIFF', 'AMC_NONSTD_FEATURES only changes the visibility / presence of the documented extras: every other member has the '
                                'same name and access with and without it')
    for pon, poff in pairs:
        a, b = api_of(pon), api_of(poff)
        for key in sorted(set(a) | set(b)):
            cls, name = key
            same = a.get(key) == b.get(key)
            rr.instance('%s::%s' % key, {'member': '%s::%s' % key, 'with_extras': sorted(a.get(key, [])), 'pedantic': sorted(b.get(key, [])), 'same': same})
            if not same and name not in NONSTD_EXTRAS:
                rr.add(Finding('API-DIFF', '%s::%s' % key, 'include/amc', 'member %s::%s is %s with AMC_NONSTD_FEATURES and %s without: only the documented '
                               'extras may differ' % (cls, name, sorted(a.get(key, ['absent'])), sorted(b.get(key, ['absent']))), unit=pon.uname))
            if name in ('append', 'swap2') and key in b and 'public' in b[key]:
                rr.add(Finding('API-DIFF', '%s::%s|public' % key, 'include/amc', 'the non-standard extra %s::%s is public in pedantic mode' % key, unit=poff.uname))
            if name in ('pop_back_val', 'steal_vector') and key in b:
                rr.add(Finding('API-DIFF', '%s::%s|present' % key, 'include/amc', 'the non-standard extra %s::%s exists in pedantic mode' % key, unit=poff.uname))
    return rr


def api_diff_std(progs_by_std):
    """progs_by_std: {std: [progs of the same drivers]}: the API surface is the same in every standard except the documented members."""
    rr = RuleResult('API-STD', 'the set of members (name, access) of the containers is the same in every language standard, except the documented ones '
                               '(node API from C++17, <=> replacing the relational operators in C++20)')
    stds = sorted(progs_by_std)
    apis = {}
    for s in stds:
        u = {}
        for p in progs_by_std[s]:
            for k, v in api_of(p).items():
                u.setdefault(k, set()).update(v)
        apis[s] = u
    allk = set()
    for s in stds:
        allk |= set(apis[s])
    for key in sorted(allk):
        cls, name = key
        if cls == 'amc::SmallSet':
            present = {s: apis[s].get(key) for s in stds if s >= 17}
        else:
            present = {s: apis[s].get(key) for s in stds}
        vals = list(present.values())
        same = all(v == vals[0] for v in vals)
        rr.instance('%s::%s' % key, {'member': '%s::%s' % key, 'by_standard': {str(s): sorted(v) if v else None for s, v in present.items()}, 'same': same})
        if same:
            continue
        lim = STD_DEPENDENT.get(name)
        if name in ('insert', 'node_type', 'insert_return_type'):
            continue     # overload sets are not distinguished by name here (insert(node) from C++17)
        ok = False
        if lim is not None and lim > 0:
            ok = all((v is not None) == (s >= lim) for s, v in present.items())
        elif lim is not None and lim < 0:
            ok = all((v is not None) == (s < -lim) for s, v in present.items())
        elif name in ('erase', 'erase_if'):
            ok = True
        if not ok:
            rr.add(Finding('API-STD', '%s::%s' % key, 'include/amc', 'member %s::%s differs between language standards: %s' %
                           (cls, name, {s: sorted(v) if v else None for s, v in present.items()})))
    return rr


# ------------------------------------------------------------------------------ SELF-PTR
def _self_derived(n, linit, depth=0):
    """Does the value of n depend on the address of `this` or of its inline storage?"""
    n = A.strip(n)
    if not isinstance(n, dict) or depth > 20:
        return False
    k = n.get('k')
    if k == 'this':
        return True
    if k == 'call':
        sn = A.cshort(n)
        if sn == 'ptr' and n.get('obj') is not None and A.root(n['obj'], linit)[0] == 'this':
            return True
        if sn in ('begin', 'end', 'data', 'cbegin', 'cend') and n.get('obj') is not None and A.root(n['obj'], linit)[0] == 'this':
            return True
        if sn in ('addressof', '__addressof') and n.get('args'):
            return A.root(n['args'][0], linit)[0] == 'this'
        if sn in ('exchange',) and n.get('args'):
            return _self_derived(n['args'][0], linit, depth + 1)
        if sn in ('allocate', 'reallocate', 'Reallocate', 'dyn', 'dynStorage'):
            return False
        return any(_self_derived(a, linit, depth + 1) for a in n.get('args', []) if isinstance(a, dict))
    if k == 'un' and n.get('op') == '&':
        return A.root(n.get('sub'), linit)[0] == 'this'
    if k == 'ref' and n.get('dk') == 'local':
        ini = linit.get(n.get('did'))
        return bool(ini and ini[0] is not None and _self_derived(ini[0], linit, depth + 1))
    if k == 'bin':
        return _self_derived(n.get('lhs'), linit, depth + 1) or _self_derived(n.get('rhs'), linit, depth + 1)
    if k == 'cond':
        return _self_derived(n.get('a'), linit, depth + 1) or _self_derived(n.get('b'), linit, depth + 1)
    if k == 'mem':
        return False      # reading a field of this gives the field's value, not an address of this
    return False


def self_ptr(progs):
    rr = RuleResult('SELF-PTR', 'a container that declares itself trivially relocatable stores no address of itself: every value written into a pointer '
                                'field (or through setDyn) comes from the allocator, from another object\'s storage pointer or is null, never from this / '
                                'its inline storage; the inline vector bases have no pointer field at all, so begin() is recomputed on every call')
    CONTAINER_RECORDS = ('amc::vec::SmallVectorBase', 'amc::vec::StdVectorBase', 'amc::vec::StaticVectorBase', 'amc::FlatSet', 'amc::SmallSet',
                         'amc::vec::VectorImpl', 'amc::Vector', 'amc::vec::DynamicVector', 'amc::vec::StaticVector', 'amc::vec::VectorWithInplaceStorage',
                         'amc::vec::ElemWithPtrStorage')
    for prog in progs:
        ptr_fields = set()
        for r in prog.records:
            if r.get('qname') in CONTAINER_RECORDS:
                for fd in r['fields']:
                    isptr = fd.get('pointer') or fd['t'].rstrip().endswith('*')
                    rr.instance('field|%s::%s' % (r['qname'], fd['name']), {'field': '%s::%s' % (r['qname'], fd['name']), 'type': fd['t'][:80], 'pointer': bool(isptr)})
                    if isptr:
                        ptr_fields.add((r['qname'], fd['name']))
                        if r['qname'] in ('amc::vec::SmallVectorBase', 'amc::vec::StaticVectorBase'):
                            rr.add(Finding('SELF-PTR', 'field|%s::%s' % (r['qname'], fd['name']), fd['l'],
                                           'the inline vector base %s has a pointer/reference field %s: a cached address of the inline storage does not '
                                           'survive relocation by memcpy' % (r['qname'], fd['name']), where=r['name'], unit=prog.uname))
        for f in prog.amc_functions():
            if f.get('body') is None:
                continue
            body = {'b': f['body'], 'i': f.get('inits')}
            linit = A.local_inits(f['body'])
            # setDyn(p) on this
            for c in A.calls(body):
                if A.cshort(c) == 'setDyn' and c.get('args'):
                    bad = _self_derived(c['args'][0], linit)
                    rr.instance('%s|setDyn|%s' % (f['key'], rel(prog.site(f, c))), {'function': f['pname'][:140], 'stores': 'setDyn', 'self_derived': bad})
                    if bad:
                        rr.add(Finding('SELF-PTR', '%s|setDyn' % f['key'], prog.site(f, c),
                                       'the heap pointer slot receives an address derived from this object / its inline storage', where=f['pname'], unit=prog.uname))
            for st, lhs in A.stores(f['body']):
                l = A.strip(lhs)
                if isinstance(l, dict) and l.get('k') == 'mem' and l.get('field') and (l.get('clsq'), l.get('name')) in ptr_fields and st.get('k') == 'bin':
                    bad = _self_derived(st.get('rhs'), linit)
                    rr.instance('%s|%s|%s' % (f['key'], l['name'], rel(prog.site(f, st))), {'function': f['pname'][:140], 'stores': l['name'], 'self_derived': bad})
                    if bad:
                        rr.add(Finding('SELF-PTR', '%s|%s' % (f['key'], l['name']), prog.site(f, st),
                                       'pointer field %s receives an address derived from this object / its inline storage' % l['name'], where=f['pname'], unit=prog.uname))
            for i in (f.get('inits') or []):
                if i.get('member') and (f.get('clsq'), i['member']) in ptr_fields and isinstance(i.get('init'), dict):
                    bad = _self_derived(i['init'], linit)
                    if bad:
                        rr.add(Finding('SELF-PTR', '%s|init|%s' % (f['key'], i['member']), f['loc'],
                                       'pointer field %s is initialised with an address derived from this object' % i['member'], where=f['pname'], unit=prog.uname))
    return rr


# ------------------------------------------------------------------------------ ADVANCE / EMUL-EFFECT (memory.hpp emulations)
def advance(progs):
    rr = RuleResult('ADVANCE', 'an emulated memory algorithm that returns an iterator (or a pair of iterators) returns the *advanced* one: a bare '
                               'parameter is only returned if this function itself advanced it, otherwise param + count or the result of the callee')
    for prog in progs:
        for f in prog.amc_functions():
            if f.get('body') is None or not (f['name'].startswith('amc::memory_details::') or f['name'].startswith('amc::uninitialized_') or f['name'] == 'amc::destroy_n'):
                continue
            ret = f.get('ret', '')
            ps = f.get('params', [])
            if ret in ('void', '') or not ps:
                continue
            body = f['body']
            advanced = set()
            for st, lhs in A.stores(body):
                l = A.strip(lhs)
                if isinstance(l, dict) and l.get('k') == 'ref' and l.get('dk') == 'param':
                    advanced.add(l.get('idx'))
            # std::advance(first, n)
            for c in A.calls(body):
                if A.callee(c) == 'std::advance' and c.get('args'):
                    a = A.strip(c['args'][0])
                    if a.get('k') == 'ref' and a.get('dk') == 'param':
                        advanced.add(a.get('idx'))
            pnames = f.get('pparams') or [p.get('name') for p in ps]
            has_count = any(x in ('count', 'n') for x in pnames)
            has_last = 'last' in pnames
            if not (has_count or has_last):
                continue
            for rt in [n for n in walk(body) if n.get('k') == 'ret' and n.get('e') is not None]:
                comps = []
                e = A.strip(rt['e'])
                # look through the (elidable) copy / move construction of the returned object
                while isinstance(e, dict) and e.get('k') == 'construct' and e.get('ctor') in ('copy', 'move') and len(e.get('args', [])) == 1:
                    e = A.strip(e['args'][0])
                if isinstance(e, dict) and e.get('k') == 'construct' and 'pair' in e.get('t', ''):
                    comps = [A.strip(a) for a in e.get('args', [])]
                else:
                    comps = [e]
                for ci, cexp in enumerate(comps):
                    while isinstance(cexp, dict) and cexp.get('k') == 'construct' and cexp.get('ctor') in ('copy', 'move') and cexp.get('args'):
                        cexp = A.strip(cexp['args'][0])
                    if isinstance(cexp, dict) and cexp.get('k') == 'ref' and cexp.get('dk') == 'param':
                        ok = cexp.get('idx') in advanced
                        rr.instance('%s|%d|%s' % (f['key'], ci, ps[-1]['t'][-24:]), {'function': f['pname'][:150], 'returns_parameter': cexp.get('name'), 'advanced_here': ok})
                        if not ok:
                            rr.add(Finding('ADVANCE', '%s|%s|%s' % (f['key'], cexp.get('name'), ps[-1]['t'].split('::')[-1]), prog.site(f, rt),
                                           'returns its parameter `%s` although this function never advanced it: the caller gets the start of the range '
                                           'instead of the iterator past the last element processed' % cexp.get('name'), where=f['pname'], unit=prog.uname))
    return rr


EMUL_EFFECT = {
    # emulation -> at least one call of these roles / names must be present in every overload (the effect class of the std algorithm)
    'uninitialized_value_construct': ('construct', 'assign'), 'uninitialized_value_construct_n': ('construct', 'assign'),
    'uninitialized_copy': ('construct', 'bytecopy'), 'uninitialized_copy_n': ('construct', 'bytecopy'),
    'uninitialized_move': ('construct', 'bytecopy'), 'uninitialized_move_n': ('construct', 'bytecopy'),
    'uninitialized_copy_impl': ('construct', 'bytecopy'), 'uninitialized_copy_n_impl': ('construct', 'bytecopy'),
    'uninitialized_move_impl': ('construct', 'bytecopy'), 'uninitialized_move_n_impl': ('construct', 'bytecopy'),
    'uninitialized_relocate_impl': ('construct', 'bytecopy'), 'uninitialized_relocate_n_impl': ('construct', 'bytecopy'),
    'relocate_at_impl': ('construct', 'bytecopy'), 'construct_at_impl': ('construct', 'bytecopy'),
    'destroy_at': ('destroy',), 'destroy': ('destroy',), 'destroy_n': ('destroy',),
}


def _effects_of(prog, f, depth, seen):
    """Effect classes of a function body, following private amc helpers it delegates to (a helper extracted from the body keeps
    the effect)."""
    have = set()
    if f.get('body') is None or f['id'] in seen or depth > 3:
        return have
    seen.add(f['id'])
    for n in walk(f['body']):
        if n.get('k') == 'call':
            kd, det = R.role(n)
            if kd:
                have.add(kd)
            if A.cshort(n) in ('memcpy', 'memmove', 'memset'):
                have.add('bytecopy')
                have.add('assign') if A.cshort(n) == 'memset' else None
            if n.get('amc') and short(n.get('name', '')) in EMUL_EFFECT:
                have.update(EMUL_EFFECT[short(n['name'])])       # delegates to a sibling that is checked itself
            elif n.get('amc') and not kd and n.get('fn') in prog.fns:
                have |= _effects_of(prog, prog.fns[n['fn']], depth + 1, seen)
            if n.get('op') == '=' and n.get('method'):
                have.add('assign')
        if n.get('k') == 'new' and n.get('reserved_placement'):
            have.add('construct')
        if n.get('k') == 'pseudodtor' or (n.get('k') == 'call' and n.get('name', '').endswith('(dtor)')):
            have.add('destroy')
    for st, lhs in A.stores(f['body']):
        l = A.strip(lhs)
        if isinstance(l, dict) and (l.get('k') == 'un' and l.get('op') == '*'):
            have.add('assign')
    return have


def emul_effect(progs):
    rr = RuleResult('EMUL-EFFECT', 'every overload of an emulated memory algorithm has the effect class of its standard counterpart: value-construct '
                                   'writes every element (constructs or fills), copy/move/relocate construct or byte-copy, destroy destroys')
    for prog in progs:
        for f in prog.amc_functions():
            sn = short(f['name'])
            if f.get('body') is None or sn not in EMUL_EFFECT or not (f['name'].startswith('amc::memory_details::') or f['name'].startswith('amc::uninitialized_') or
                                                                     f['name'].startswith('amc::destroy')):
                continue
            want = EMUL_EFFECT[sn]
            have = _effects_of(prog, f, 0, set())
            if sn.startswith('uninitialized_value_construct'):
                # value-initialisation, not default-initialisation: no `new T` without initialiser, no delegation to the default-construct
                # sibling (a type whose default constructor is not user-provided would keep indeterminate members)
                bad = None
                for n in walk(f['body']):
                    if n.get('k') == 'new' and n.get('reserved_placement') and n.get('style') == 'none':
                        bad = (n, '`new T` without initialiser default-initialises')
                    if n.get('k') == 'call' and short(n.get('name', '')) in ('uninitialized_default_construct', 'uninitialized_default_construct_n'):
                        bad = (n, 'delegates to %s' % short(n['name']))
                rr.instance('%s|%s|valueinit' % (f['key'], f['pname'][:120]), {'function': f['pname'][:150], 'value_initialises': bad is None})
                if bad:
                    rr.add(Finding('EMUL-EFFECT', '%s|valueinit' % f['key'], prog.site(f, bad[0]),
                                   '%s %s: the standard algorithm value-initialises (`::new (p) T()`), so members of a type without a user-provided default '
                                   'constructor would be zero' % (sn, bad[1]), where=f['pname'], unit=prog.uname))
            # a destroy of a trivially destructible type legitimately does nothing
            trivial_ok = sn.startswith('destroy')
            ok = bool(have & set(want)) or trivial_ok
            rr.instance('%s|%s' % (f['key'], f['pname'][:120]), {'function': f['pname'][:150], 'effects': sorted(have), 'required_one_of': list(want), 'ok': ok})
            if not ok:
                rr.add(Finding('EMUL-EFFECT', '%s' % f['key'], f.get('bloc') or f['loc'],
                               'this overload of %s has none of the effects %s of the standard algorithm (found: %s): the elements are left as they were'
                               % (sn, list(want), sorted(have) or 'nothing'), where=f['pname'], unit=prog.uname))
    return rr
