"""GROW-LAYOUT: the storage-changing members of the vector bases - grow, shrink, resetToSmall - interpreted over the whole object
(DESIGN.md 10.12).

The machine of SEG-LAYOUT (sa/rules/seglayout.py) is given an object: the two size words `_capa` / `_size` as linear forms, the storage
pointer (the pointer alternative of the union for SmallVectorBase), and three regions in one index space - the inline storage at 0, the
heap block the vector owns on entry at H, a block obtained from the allocator at H2.  The member is run once per state of the inline
encoding (SmallVectorBase: inline and not full - `_capa` = size, `_size` = N; inline and full - `_capa` = size = N, `_size` = max;
large - `_capa` = capacity, `_size` = size; StdVectorBase: empty without a block, large), `isSmall()` and every other comparison of the
words being decided by the constraint store.  allocate / deallocate / reallocate are transformers that record what they were given.

Contract on every normal path: all `size` elements are in the storage the object designates afterwards, in order, nothing else is alive;
the words decode to the same size and to the new capacity; the old heap block was given back exactly once, with its capacity; a block
that was obtained is the one the object points to."""
from ..lib.core import RuleResult, Finding, short
from ..lib import ast as A
from . import seglayout as S
from .seglayout import ladd, lconst, lneg, fmt, RAW, TOP, Unknown, Violation, Infeasible, Split

SVB = 'amc::vec::SmallVectorBase'
STD = 'amc::vec::StdVectorBase'
H_, H2_ = {'H': 1}, {'H2': 1}
C_, K_, NN_, MAX_, NK_ = {'C': 1}, {'K': 1}, {'NN': 1}, {'MAX': 1}, {'NK': 1}


class ObjInterp(S.Interp):
    """Interp + the object: words, storage pointer, allocator events."""

    def this_field(self, n):
        n = A.strip(n)
        if isinstance(n, dict) and n.get('k') == 'mem' and n.get('field') and A.root(n.get('base'), {})[0] == 'this':
            return n.get('name')
        return None

    def ev(self, n, fr):
        n0 = A.strip(n)
        if isinstance(n0, dict):
            o = self.m.obj
            fld = self.this_field(n0)
            if fld in ('_capa', '_size'):
                return ('int', dict(o['words'][fld]))
            if fld == '_storage':
                return ('stor',) if o['union'] else (o['ptr'] if o['ptr'] is not None else ('null',))
            if n0.get('k') == 'lit' and n0.get('v') is None and 'nullptr' in (n0.get('t') or ''):
                return ('null',)
            if n0.get('k') in ('ref', 'mem') and ((n0.get('name') or '') == 'kMaxSize' or (n0.get('staticvar') or '').endswith('kMaxSize')):
                return ('int', dict(MAX_))
            if n0.get('k') == 'un' and n0.get('op') == '!' or (n0.get('k') == 'bin' and n0.get('op') in ('==', '!=')):
                pass
        return S.Interp.ev(self, n, fr)

    def assign(self, lhs, rhs, fr, op='='):
        fld = self.this_field(lhs)
        o = self.m.obj
        if fld in ('_capa', '_size'):
            v = self.ev(rhs, fr)
            if v[0] != 'int' or op != '=':
                raise Unknown('size word assigned a value the interpreter does not follow')
            o['words'][fld] = dict(v[1])
            return v
        if fld == '_storage' and not o['union']:
            v = self.ev(rhs, fr)
            if v[0] not in ('ptr', 'null'):
                raise Unknown('storage pointer assigned a value the interpreter does not follow')
            o['ptr'] = None if v[0] == 'null' else v
            return v
        return S.Interp.assign(self, lhs, rhs, fr, op)

    def cond(self, n, fr):
        c = A.strip(n)
        # `if (_storage)` / comparisons of the storage pointer with nullptr
        if isinstance(c, dict) and self.this_field(c) == '_storage' and not self.m.obj['union']:
            return self.m.obj['ptr'] is not None
        return S.Interp.cond(self, n, fr)

    def call(self, n, fr):
        m, o = self.m, self.m.obj
        nm, sn, args = A.callee(n), A.cshort(n), n.get('args', []) or []
        if n.get('method') and n.get('obj') is not None and self.ev(n['obj'], fr) == ('stor',):
            if sn == 'ptr' and not args:
                return ('ptr', {})
            if sn == 'dyn' and not args:
                if o['ptr'] is None:
                    raise Violation('reads the heap pointer of the union while the inline elements live there', n)
                return o['ptr']
            if sn == 'setDyn' and len(args) == 1:
                v = self.ev(args[0], fr)
                if v[0] != 'ptr':
                    raise Unknown('setDyn with a value the interpreter does not follow')
                for a, b, c in m.pieces({}, dict(NN_)):
                    if S.alive(c) and not m.trivial:
                        raise Violation('the heap pointer is stored over inline slots [%s, %s) that still hold objects (%s)' % (fmt(a), fmt(b), S.cfmt(c)), n)
                o['ptr'] = v
                return TOP
        if sn == 'max' and not args and 'numeric_limits' in nm:
            return ('int', dict(MAX_))
        if sn == 'SafeNextCapacity' and nm.startswith('amc::vec::'):
            for a in args:
                self.ev(a, fr)
            return ('int', dict(NK_))
        if sn == 'allocate' and 1 <= len(args) <= 2:
            v = self.ev(args[0], fr)
            if o['allocs']:
                raise Unknown('second allocator request on one path')
            if v[0] != 'int':
                raise Unknown('allocate with a count the interpreter does not follow')
            o['allocs'].append(dict(v[1]))
            return ('ptr', dict(H2_))
        if sn == 'deallocate' and len(args) == 2:
            p, c = self.ev(args[0], fr), self.ev(args[1], fr)
            if p[0] != 'ptr' or c[0] != 'int':
                raise Violation('deallocate is given a pointer / count that is not a block of this vector with its capacity', n)
            o['deallocs'].append((dict(p[1]), dict(c[1])))
            return TOP
        if sn == 'reallocate' and len(args) == 4:
            p, oc, nc, sz = [self.ev(a, fr) for a in args]
            if p[0] != 'ptr' or oc[0] != 'int' or nc[0] != 'int' or sz[0] != 'int':
                raise Unknown('reallocate with arguments the interpreter does not follow')
            if o['allocs']:
                raise Unknown('second allocator request on one path')
            o['allocs'].append(dict(nc[1]))
            o['deallocs'].append((dict(p[1]), dict(oc[1])))
            m.transfer(p[1], sz[1], dict(H2_), 'reloc', 'reallocate(%s, %s elements)' % (fmt(p[1]), fmt(sz[1])))
            return ('ptr', dict(H2_))
        return S.Interp.call(self, n, fr)


def configs(f):
    """(label, constraints, words, ptr, segments) per state of the object on entry."""
    gap = ladd(ladd(ladd(NN_, K_), ladd(C_, NK_)), lconst(1))                   # larger than any index used inside one region
    base = [dict(C_), dict(K_), ladd(NN_, lconst(-1)), ladd(MAX_, ladd(NN_, lconst(1)), -1), ladd(MAX_, K_, -1), ladd(NK_, C_, -1), ladd(NK_, lconst(-1)),
            ladd(H_, gap, -1), ladd(H2_, ladd(H_, gap), -1)]
    out = []
    if f.get('clsq') == SVB:
        nm = short(f['name'])
        if nm == 'grow':
            out.append(('inline, not full', base + [ladd(ladd(NN_, C_, -1), lconst(-1))], {'_capa': dict(C_), '_size': dict(NN_)}, None, [({}, dict(C_), S.old())]))
            out.append(('inline, full', base + [ladd(C_, NN_, -1), ladd(NN_, C_, -1)], {'_capa': dict(C_), '_size': dict(MAX_)}, None, [({}, dict(C_), S.old())]))
        large = base + [ladd(K_, C_, -1)]
        if nm == 'resetToSmall':
            large = large + [ladd(NN_, C_, -1)]                 # precondition: the elements fit inline
        if nm == 'shrink':
            large = large + [ladd(ladd(C_, NN_, -1), lconst(-1))]       # shrink_impl sends sizes <= N to resetToSmall
        out.append(('large', large, {'_capa': dict(K_), '_size': dict(C_)}, ('ptr', dict(H_)), [(dict(H_), ladd(H_, C_), S.old())]))
    else:
        nm = short(f['name'])
        # a vector without a block is the case K = C = 0 (its null pointer is never dereferenced; deallocate(nullptr, 0) is a no-op)
        out.append(('heap', base + [ladd(K_, C_, -1)], {'_capa': dict(K_), '_size': dict(C_)}, ('ptr', dict(H_)), [(dict(H_), ladd(H_, C_), S.old())]))
    return out


def run_config(prog, f, E, cfg, union, limit=300):
    label, cons, words, ptr, segs = cfg
    stack, paths = [[]], 0
    nm = short(f['name'])
    while stack:
        trail = stack.pop()
        m = S.Machine(prog, f, E, trail)
        m.cons = [dict(c) for c in cons]
        m.size = {}
        bounds, cont = [{}], [RAW]
        for lo, hi, c in segs:
            if lo:
                bounds += [dict(lo), dict(hi)]
                cont += [c, RAW]
            else:
                bounds, cont = [{}, dict(hi)], [c, RAW]
        m.bounds, m.cont = bounds, cont
        m.obj = {'words': {k: dict(v) for k, v in words.items()}, 'ptr': ptr, 'union': union, 'allocs': [], 'deallocs': []}
        fr = S.Frame(f)
        for i, p in enumerate(f.get('params', [])):
            pn = p.get('name') or ''
            if pn == 'inplaceCapa' or (nm == 'resetToSmall' and A.width(p['t'])):      # the inline capacity, whatever the parameter is called
                fr.env[('p', i)] = ('int', dict(NN_))
            elif A.width(p['t']) and p['t'].replace('const ', '').strip() != 'bool':
                fr.env[('p', i)] = ('int', {'REQ': 1})
        ip = ObjInterp(m)
        try:
            try:
                ip.run(f['body'], fr)
            except S._Ret:
                pass
            except S._Thrown:
                raise Infeasible()
            o = m.obj
            w = o['words']
            had_block = ptr is not None
            # where the elements must be afterwards
            if nm == 'resetToSmall':
                home, shift = {}, lneg(H_)
                if o['ptr'] is not None and m.feasible([]):
                    pass
                small = not m.feasible([ladd(w['_capa'], w['_size'], -1)])          # _capa < _size on every model
                if not small:
                    raise Violation('after resetToSmall the words do not decode to the inline state (`_capa` < `_size` does not hold)', None)
                if not m.entails_eq(w['_capa'], C_):
                    raise Violation('after resetToSmall `_capa` is %s; in the inline state it holds the size (%s)' % (fmt(w['_capa']), fmt(C_)), None)
                full = m.compare(C_, NN_) == 0
                want = MAX_ if full else NN_
                if not m.entails_eq(w['_size'], want):
                    raise Violation('after resetToSmall `_size` is %s; expected %s (N, or the full marker when size == N)' % (fmt(w['_size']), fmt(want)), None)
            elif nm == 'shrink' and not union and not o['allocs'] and m.entails_eq(C_, {}):
                home = dict(H_)
                if o['ptr'] is not None:
                    raise Violation('shrink of an empty vector gives its block back but keeps the pointer to it', None)
                if not m.entails_eq(w['_capa'], {}) or not m.entails_eq(w['_size'], {}):
                    raise Violation('after shrink of an empty vector the words are (%s, %s); expected (0, 0)' % (fmt(w['_capa']), fmt(w['_size'])), None)
            else:
                home = dict(H2_)
                shift = dict(H2_) if not had_block else ladd(H2_, H_, -1)
                if not o['allocs']:
                    raise Violation('no block is requested from the allocator', None)
                if o['ptr'] is None or o['ptr'][0] != 'ptr' or not m.entails_eq(o['ptr'][1], H2_):
                    raise Violation('on return the vector does not point to the block it obtained from the allocator', None)
                newk = NK_ if nm == 'grow' else C_
                if m.feasible([lneg(o['allocs'][0])]):
                    raise Violation('the allocator is asked for a block of %s slots, which is 0 on this path: a zero-sized request is not a block (realloc(p, 0) frees p and returns '
                                    'null - the allocator wrappers then throw bad_alloc and the vector keeps a dangling pointer)' % fmt(o['allocs'][0]), None)
                if not m.entails_eq(o['allocs'][0], newk):
                    raise Violation('the block is requested with %s slots; expected %s' % (fmt(o['allocs'][0]), fmt(newk)), None)
                if m.feasible([ladd(ladd(w['_size'], w['_capa'], -1), lconst(-1))]):
                    raise Violation('after %s the words can decode to the inline state (`_capa` = %s < `_size` = %s is possible)' % (nm, fmt(w['_capa']), fmt(w['_size'])), None)
                if not m.entails_eq(w['_capa'], newk):
                    raise Violation('after %s `_capa` is %s; expected the new capacity %s' % (nm, fmt(w['_capa']), fmt(newk)), None)
                if not m.entails_eq(w['_size'], C_):
                    raise Violation('after %s `_size` is %s; expected the size %s' % (nm, fmt(w['_size']), fmt(C_)), None)
            want_d = [(dict(H_), dict(K_))] if had_block else []
            if len(o['deallocs']) != len(want_d) or any(not (m.entails_eq(p, wp) and m.entails_eq(c, wc)) for (p, c), (wp, wc) in zip(o['deallocs'], want_d)):
                raise Violation('blocks given back: %s; expected: %s (H = the block owned on entry, K = its capacity)'
                                % ([(fmt(p), fmt(c)) for p, c in o['deallocs']] or 'none', [(fmt(p), fmt(c)) for p, c in want_d] or 'none'), None)
            # layout: the elements at `home`, in order; nothing else alive
            src0 = {} if not had_block else dict(H_)
            d = ladd(home, src0, -1)
            for a, b, got in m.pieces(home, ladd(home, C_)):
                if not S.same_content(m, got, S.old(d)):
                    raise Violation('on return slots [%s, %s) hold %s; expected the elements of the vector in order' % (fmt(a), fmt(b), S.cfmt(got)), None)
            rest = m.pieces({}, home) + m.pieces(ladd(home, C_), None)
            for a, b, got in rest:
                if S.alive(got) and not m.trivial:
                    raise Violation('on return slots [%s, %s) outside the storage of the vector still hold objects (%s)' % (fmt(a), fmt(b), S.cfmt(got)), None)
            paths += 1
        except Split as sp:
            for i in range(sp.k):
                stack.append(trail + [i])
        except Infeasible:
            pass
        except Violation as v:
            return paths, (str(v), v.node, [short(x['name']) for x in m.frames], label)
        if paths + len(stack) > limit:
            raise Unknown('too many paths')
    return paths, None


RELOC_OK = set()


def grow_layout(progs):
    global RELOC_OK
    from .. import gen
    RELOC_OK = set(gen.RELOC)
    rr = RuleResult('GROW-LAYOUT', 'grow / shrink / resetToSmall of the vector bases, in every state of the inline encoding: afterwards all size() elements are, in order, in the '
                                   'storage the object designates, nothing else is alive, the size words decode to the same size and the new capacity, the old heap block '
                                   'was given back exactly once with its capacity, and a block that was requested is the one the object points to (the SEG-LAYOUT machine '
                                   'with the object - words, storage pointer, allocator events - added)')
    seen = set()
    for prog in progs:
        E = prog.meta.get('E')
        if not E:
            continue
        for f in prog.amc_functions():
            nm = short(f.get('name', ''))
            if f.get('body') is None or f.get('clsq') not in (SVB, STD) or nm not in ('grow', 'shrink', 'resetToSmall'):
                continue
            union = f.get('clsq') == SVB
            bad, total = None, 0
            broken = None
            for cfg in configs(f):
                try:
                    paths, b = run_config(prog, f, E, cfg, union)
                except Unknown as e:
                    broken = 'GROW-LAYOUT: cannot interpret %s (%s): %s' % (f['pname'][:100], cfg[0], e)
                    break
                total += paths
                if b:
                    bad = b
                    break
            if broken:
                rr.broken = rr.broken or broken
                continue
            rr.instance('%s|%s' % (f['key'], prog.uname), {'function': f['pname'][:140], 'states': [c[0] for c in configs(f)], 'paths': total,
                                                          'verdict': 'violated' if bad else 'elements, words, blocks as specified'})
            if bad and f['key'] not in seen:
                seen.add(f['key'])
                msg, node, where, label = bad
                rr.add(Finding('GROW-LAYOUT', f['key'], prog.site(f, node) if isinstance(node, dict) and node.get('l') and not where else f['loc'],
                               '%s, entered %s%s: %s' % (nm, label, (' (in ' + ' > '.join(where) + ')') if where else '', msg), where=f['pname'], unit=prog.uname))
    return rr


# ================================================================================================ XCHG-LAYOUT
# swap_impl / move_construct / move_assign of SmallVectorBase: two objects, each with its words, its union and possibly a heap block.

IA, IB, HA, HB = {}, {'IB': 1}, {'HA': 1}, {'HB': 1}           # bases of: this inline, other inline, this block, other block
CA, CB, KA, KB = {'CA': 1}, {'CB': 1}, {'KA': 1}, {'KB': 1}


class XInterp(S.Interp):
    """Interp + two objects ('this', 'other').  frame.this_obj names the object `this` designates in the function being interpreted."""

    def objof(self, base, fr):
        """'this' / 'other' for the object expression `base` (None: implicit this), else None."""
        if base is None:
            return getattr(fr, 'this_obj', 'this')
        b = A.strip(base)
        if isinstance(b, dict) and b.get('k') == 'un' and b.get('op') == '*':
            b = A.strip(b.get('sub'))
        if isinstance(b, dict) and b.get('k') == 'this':
            return getattr(fr, 'this_obj', 'this')
        if isinstance(b, dict) and b.get('k') == 'cast':
            return self.objof(b.get('sub'), fr)
        v = S.Interp.ev(self, base, fr) if isinstance(b, dict) and b.get('k') == 'ref' else None
        if v is not None and v[0] == 'obj':
            return v[1]
        return None

    def field(self, n, fr):
        n = A.strip(n)
        if isinstance(n, dict) and n.get('k') == 'mem' and n.get('field') and n.get('name') in ('_capa', '_size', '_storage'):
            o = self.objof(n.get('base'), fr)
            if o is not None:
                return o, n['name']
        return None

    def ev(self, n, fr):
        n0 = A.strip(n)
        if isinstance(n0, dict):
            fo = self.field(n0, fr)
            if fo is not None:
                o, fld = fo
                if fld == '_storage':
                    return ('stor', o)
                return ('int', dict(self.m.objs[o]['words'][fld]))
            if n0.get('k') == 'this':
                return ('objptr', getattr(fr, 'this_obj', 'this'))
            if n0.get('k') == 'un' and n0.get('op') == '*' and isinstance(A.strip(n0.get('sub')), dict) and A.strip(n0['sub']).get('k') == 'this':
                return ('obj', getattr(fr, 'this_obj', 'this'))
            if n0.get('k') in ('ref', 'mem') and ((n0.get('name') or '') == 'kMaxSize' or (n0.get('staticvar') or '').endswith('kMaxSize')):
                return ('int', dict(MAX_))
        return S.Interp.ev(self, n, fr)

    def assign(self, lhs, rhs, fr, op='='):
        l0 = A.strip(lhs)
        if isinstance(l0, dict) and l0.get('k') == 'call' and (l0.get('clsq') or '') == SVB:
            raise Unknown('store through a reference returned by %s()' % A.cshort(l0))
        fo = self.field(lhs, fr)
        if fo is not None and fo[1] in ('_capa', '_size'):
            v = self.ev(rhs, fr)
            if v[0] != 'int' or op != '=':
                raise Unknown('size word assigned a value the interpreter does not follow')
            self.m.objs[fo[0]]['words'][fo[1]] = dict(v[1])
            return v
        return S.Interp.assign(self, lhs, rhs, fr, op)

    def inline_on(self, callee, n, args, fr, obj):
        self._next_this = obj
        try:
            return self.inline(callee, n, args, fr)
        finally:
            self._next_this = None

    def inline(self, callee, n, args, fr):
        m = self.m
        if m.depth > 12:
            raise Unknown('inlining too deep')
        nf = S.Frame(callee)
        nf.this_obj = getattr(self, '_next_this', None) or getattr(fr, 'this_obj', 'this')
        self._next_this = None
        vals = [self.ev(a, fr) for a in args]
        for i, v in enumerate(vals):
            nf.env[('p', i)] = v
        m.depth += 1
        m.frames.append(callee)
        try:
            self.run(callee['body'], nf)
            res = TOP
        except S._Ret as r:
            res = r.v
        finally:
            m.depth -= 1
            m.frames.pop()
        return res

    def call(self, n, fr):
        m = self.m
        nm, sn, args = A.callee(n), A.cshort(n), n.get('args', []) or []
        if 'assert' in (n.get('mac') or []):
            return TOP
        # the union
        if n.get('method') and n.get('obj') is not None:
            ov = self.ev(n['obj'], fr)
            if ov[0] == 'stor':
                o = m.objs[ov[1]]
                if sn == 'ptr' and not args:
                    return ('ptr', dict(o['inline']))
                if sn == 'dyn' and not args:
                    for a, b, c in m.pieces(o['inline'], ladd(o['inline'], NN_)):
                        if S.alive(c) and not m.trivial:
                            raise Violation('the heap pointer of `%s` is read while inline elements live in the union (%s in slots [%s, %s))' % (ov[1], S.cfmt(c), fmt(a), fmt(b)), n)
                    if o['ptr'] is None:
                        raise Violation('the heap pointer of `%s` is read although that vector is in its inline state' % ov[1], n)
                    return o['ptr']
                if sn == 'setDyn' and len(args) == 1:
                    v = self.ev(args[0], fr)
                    if v[0] != 'ptr':
                        raise Unknown('setDyn with a value the interpreter does not follow')
                    for a, b, c in m.pieces(o['inline'], ladd(o['inline'], NN_)):
                        if S.alive(c) and not m.trivial:
                            raise Violation('the heap pointer is stored into `%s` over inline slots that still hold objects (%s)' % (ov[1], S.cfmt(c)), n)
                    o['ptr'] = v
                    return TOP
        if sn == 'max' and not args and 'numeric_limits' in nm:
            return ('int', dict(MAX_))
        if sn in ('swap', 'exchange') and len(args) == 2 and self.field(args[0], fr) and self.field(args[0], fr)[1] != '_storage':
            (oa, fa) = self.field(args[0], fr)
            if sn == 'swap':
                fb = self.field(args[1], fr)
                if fb is None:
                    raise Unknown('swap of a size word with something else')
                wa, wb = m.objs[oa]['words'], m.objs[fb[0]]['words']
                wa[fa], wb[fb[1]] = wb[fb[1]], wa[fa]
                return TOP
            old = ('int', dict(m.objs[oa]['words'][fa]))
            nv = self.ev(args[1], fr)
            if nv[0] != 'int':
                raise Unknown('exchange of a size word with a value the interpreter does not follow')
            m.objs[oa]['words'][fa] = dict(nv[1])
            return old
        if sn == 'deallocate' and len(args) == 2:
            p, c = self.ev(args[0], fr), self.ev(args[1], fr)
            if p[0] != 'ptr' or c[0] != 'int':
                raise Violation('deallocate is given a pointer / count that is not a block with its capacity', n)
            m.deallocs.append((dict(p[1]), dict(c[1])))
            return TOP
        if sn in ('allocate', 'reallocate', 'grow'):
            raise Unknown('allocation inside an exchange')
        # members of the bases called on this / on the other object; static helpers taking the objects
        callee = m.prog.fns.get(n.get('fn')) if n.get('fn') else None
        if callee is not None and callee.get('body') is not None and (callee.get('clsq') or '') == SVB and callee.get('name', '').startswith('amc::vec::'):
            if n.get('method') and not callee.get('static'):
                o = self.objof(n.get('obj'), fr)
                if o is None:
                    raise Unknown('member called on an object the interpreter does not follow')
                return self.inline_on(callee, n, args, fr, o)
            return self.inline(callee, n, args, fr)
        return S.Interp.call(self, n, fr)


def decode(m, name):
    """(state, size form, storage base, capacity form) of an object from its words, or a Violation."""
    o = m.objs[name]
    w = o['words']
    lt = ladd(ladd(w['_size'], w['_capa'], -1), lconst(-1))           # _size - _capa - 1 >= 0  <=>  _capa < _size
    if not m.feasible([lt]):
        if o['ptr'] is None:
            raise Violation('`%s` decodes to the heap state (`_capa` = %s, `_size` = %s) but holds no heap pointer' % (name, fmt(w['_capa']), fmt(w['_size'])), None)
        return 'large', w['_size'], o['ptr'][1], w['_capa']
    if not m.feasible([ladd(w['_capa'], w['_size'], -1)]):
        return 'small', w['_capa'], o['inline'], None
    raise Violation('the state of `%s` is not determined by its words (`_capa` = %s, `_size` = %s)' % (name, fmt(w['_capa']), fmt(w['_size'])), None)


def xchg_configs(kind):
    gap = ladd(ladd(ladd(NN_, ladd(KA, KB)), ladd(CA, CB)), lconst(1))
    base = [dict(CA), dict(CB), dict(KA), dict(KB), ladd(NN_, lconst(-1)), ladd(MAX_, ladd(NN_, lconst(1)), -1), ladd(MAX_, KA, -1), ladd(MAX_, KB, -1),
            ladd(IB, gap, -1), ladd(HA, ladd(IB, gap), -1), ladd(HB, ladd(HA, gap), -1)]

    def st(s, C, K):
        if s == 'S':
            return [ladd(ladd(NN_, C, -1), lconst(-1))], {'_capa': dict(C), '_size': dict(NN_)}
        if s == 'F':
            return [ladd(C, NN_, -1), ladd(NN_, C, -1)], {'_capa': dict(C), '_size': dict(MAX_)}
        return [ladd(K, C, -1)], {'_capa': dict(K), '_size': dict(C)}
    out = []
    for sa in (('S',) if kind == 'move_construct' else ('S', 'F', 'L')):
        for sb in ('S', 'F', 'L'):
            ca, wa = st(sa, CA, KA)
            cb, wb = st(sb, CB, KB)
            cons = base + ca + cb
            if kind == 'move_construct':
                cons = cons + [lneg(CA)]                  # the vector under construction is empty
            out.append((sa, sb, cons, wa, wb))
    return out


STATE_TXT = {'S': 'inline and not full', 'F': 'inline and full', 'L': 'on the heap'}


def xchg_run(prog, f, E, kind, cfg, limit=600):
    sa, sb, cons, wa, wb = cfg
    stack, paths = [[]], 0
    while stack:
        trail = stack.pop()
        m = S.Machine(prog, f, E, trail)
        m.cons = [dict(c) for c in cons]
        m.size = {}
        segs = []
        segs.append((dict(IA), ladd(IA, CA), S.old()) if sa != 'L' else (dict(HA), ladd(HA, CA), S.old()))
        segs.append((dict(IB), ladd(IB, CB), S.old()) if sb != 'L' else (dict(HB), ladd(HB, CB), S.old()))
        segs.sort(key=lambda x: (('IB' in x[0]) * 1 + ('HA' in x[0]) * 2 + ('HB' in x[0]) * 3))
        bounds, cont = [{}], [RAW]
        for lo, hi, c in segs:
            if lo:
                bounds += [dict(lo), dict(hi)]
                cont += [c, RAW]
            else:
                bounds, cont = [{}, dict(hi)], [c, RAW]
        m.bounds, m.cont = bounds, cont
        m.objs = {'this': {'words': {k: dict(v) for k, v in wa.items()}, 'ptr': ('ptr', dict(HA)) if sa == 'L' else None, 'inline': dict(IA)},
                  'other': {'words': {k: dict(v) for k, v in wb.items()}, 'ptr': ('ptr', dict(HB)) if sb == 'L' else None, 'inline': dict(IB)}}
        m.deallocs = []
        fr = S.Frame(f)
        fr.this_obj = 'this'
        for i, p in enumerate(f.get('params', [])):
            if SVB.split('::')[-1] in p['t'] and p['t'].rstrip().endswith('&'):
                fr.env[('p', i)] = ('obj', 'other')
            elif A.width(p['t']):
                fr.env[('p', i)] = ('int', dict(NN_))
        ip = XInterp(m)
        try:
            try:
                ip.run(f['body'], fr)
            except S._Ret:
                pass
            except S._Thrown:
                raise Infeasible()
            origin = {'this': (dict(IA) if sa != 'L' else dict(HA), CA, KA, sa), 'other': (dict(IB) if sb != 'L' else dict(HB), CB, KB, sb)}
            want_from = {'this': 'other', 'other': 'this'} if kind == 'swap_impl' else {'this': 'other', 'other': None}
            expect_alive = []
            for name in ('this', 'other'):
                state, size, base, capa = decode(m, name)
                src = want_from[name]
                if src is None:
                    if state != 'small' or not m.entails_eq(size, {}):
                        raise Violation('the moved-from vector is left %s with size %s; expected the empty inline state' % ('on the heap' if state == 'large' else 'inline', fmt(size)), None)
                    if not m.entails_eq(m.objs[name]['words']['_size'], NN_):
                        raise Violation('the moved-from vector is left with `_size` = %s; the empty inline state has N there' % fmt(m.objs[name]['words']['_size']), None)
                    continue
                obase, osize, ocapa, ostate = origin[src]
                if not m.entails_eq(size, osize):
                    raise Violation('`%s` ends with size %s; expected the size of %s (%s)' % (name, fmt(size), 'the other vector' if src == 'other' else 'this vector', fmt(osize)), None)
                if kind == 'swap_impl':
                    if (state == 'large') != (ostate == 'L'):
                        raise Violation('`%s` ends %s although the vector it exchanges with was %s' % (name, 'on the heap' if state == 'large' else 'inline', STATE_TXT[ostate]), None)
                    ow = (wb if src == 'other' else wa)
                    for fld in ('_capa', '_size'):
                        if not m.entails_eq(m.objs[name]['words'][fld], ow[fld]):
                            raise Violation('`%s` ends with `%s` = %s; expected the word of the vector it exchanges with (%s)' % (name, fld, fmt(m.objs[name]['words'][fld]), fmt(ow[fld])), None)
                elif state == 'small':
                    cap_word = m.objs[name]['words']['_size']
                    full = m.compare(size, NN_) == 0
                    if not m.entails_eq(cap_word, MAX_ if full else NN_):
                        raise Violation('`%s` ends inline with `_size` = %s; expected %s (N, or the full marker when size == N)' % (name, fmt(cap_word), 'the marker' if full else 'N'), None)
                if state == 'large' and ostate == 'L' and kind != 'move_assign' and not m.entails_eq(base, obase):
                    raise Violation('`%s` ends on the heap but does not point to the block of the vector it takes over' % name, None)
                expect_alive.append((dict(base), ladd(base, size), ladd(base, obase, -1)))
            # layout
            covered = []
            for lo, hi, d in expect_alive:
                for a, b, got in m.pieces(lo, hi):
                    if not S.same_content(m, got, S.old(d)):
                        raise Violation('on return slots [%s, %s) hold %s; expected the elements taken over, in order' % (fmt(a), fmt(b), S.cfmt(got)), None)
                covered.append((lo, hi))
            for a, b, got in m.pieces({}, None):
                if not S.alive(got) or m.trivial:
                    continue
                if any(m.compare(a, lo) >= 0 and (b is not None and m.compare(b, hi) <= 0) for lo, hi in covered):
                    continue
                raise Violation('on return slots [%s, %s) still hold objects (%s) that belong to neither vector' % (fmt(a), fmt(b), S.cfmt(got)), None)
            # blocks: each heap block is owned by exactly one vector afterwards, or was given back exactly once with its capacity
            for blk, cap, had in ((HA, KA, sa == 'L'), (HB, KB, sb == 'L')):
                if not had:
                    continue
                owners = [nm_ for nm_ in ('this', 'other') if decode(m, nm_)[0] == 'large' and m.objs[nm_]['ptr'] is not None and m.entails_eq(m.objs[nm_]['ptr'][1], blk)]
                freed = [c for p_, c in m.deallocs if m.entails_eq(p_, blk)]
                if len(owners) + len(freed) != 1:
                    raise Violation('the heap block %s is owned by %d vector(s) and was given back %d time(s) on return; expected exactly one of the two, once'
                                    % ('of this vector' if blk is HA else 'of the other vector', len(owners), len(freed)), None)
                if freed and not m.entails_eq(freed[0], cap):
                    raise Violation('a heap block is given back with %s slots; its capacity is %s' % (fmt(freed[0]), fmt(cap)), None)
                if owners:
                    w_ = m.objs[owners[0]]['words']
                    if not m.entails_eq(w_['_capa'], cap):
                        raise Violation('`%s` owns a block of capacity %s but its `_capa` is %s' % (owners[0], fmt(cap), fmt(w_['_capa'])), None)
            for p_, c in m.deallocs:
                if not (m.entails_eq(p_, HA) and sa == 'L') and not (m.entails_eq(p_, HB) and sb == 'L'):
                    raise Violation('deallocate is called on %s, which is not a block either vector owned on entry' % fmt(p_), None)
            paths += 1
        except Split as sp:
            for i in range(sp.k):
                stack.append(trail + [i])
        except Infeasible:
            pass
        except Violation as v:
            return paths, (str(v), v.node, [short(x['name']) for x in m.frames])
        if paths + len(stack) > limit:
            raise Unknown('too many paths')
    return paths, None


def xchg_layout(progs):
    rr = RuleResult('XCHG-LAYOUT', 'swap_impl / move_construct / move_assign of SmallVectorBase, for every pair of states of the two vectors (inline not full / inline full / '
                                   'heap): afterwards each vector decodes - from its own size words and union - to the size and the elements it was to receive, in '
                                   'order, a moved-from vector is the empty inline vector, nothing else is alive, and every heap block is owned by exactly one vector or '
                                   'was given back exactly once with its capacity (two objects in the SEG-LAYOUT machine; `_capa < _size` decided by the constraint store)')
    seen = set()
    for prog in progs:
        E = prog.meta.get('E')
        if not E:
            continue
        for f in prog.amc_functions():
            nm = short(f.get('name', ''))
            ps = f.get('params', [])
            if f.get('body') is None or f.get('clsq') != SVB or nm not in ('swap_impl', 'move_construct', 'move_assign') or not ps or 'SmallVectorBase' not in ps[0]['t']:
                continue
            bad, total, broken = None, 0, None
            for cfg in xchg_configs(nm):
                try:
                    paths, b = xchg_run(prog, f, E, nm, cfg)
                except Unknown as e:
                    broken = 'XCHG-LAYOUT: cannot interpret %s (this %s, other %s): %s' % (f['pname'][:90], cfg[0], cfg[1], e)
                    break
                total += paths
                if b:
                    bad = (b, cfg)
                    break
            if broken:
                rr.broken = rr.broken or broken
                continue
            rr.instance('%s|%s' % (f['key'], prog.uname), {'function': f['pname'][:140], 'state pairs': len(xchg_configs(nm)), 'paths': total,
                                                          'verdict': 'violated' if bad else 'each vector ends with what it was to receive'})
            if bad and f['key'] not in seen:
                seen.add(f['key'])
                (msg, node, where), cfg = bad
                rr.add(Finding('XCHG-LAYOUT', f['key'], prog.site(f, node) if isinstance(node, dict) and node.get('l') and not where else f['loc'],
                               '%s with this vector %s and the other %s%s: %s' % (nm, STATE_TXT[cfg[0]], STATE_TXT[cfg[1]], (' (in ' + ' > '.join(where) + ')') if where else '', msg),
                               where=f['pname'], unit=prog.uname))
    return rr


# ------------------------------------------------------------------------------------------------ the same members of StdVectorBase

class PInterp(XInterp):
    """Two StdVectorBase objects: `_storage` is a plain pointer (possibly null), no union, no inline storage."""

    def ev(self, n, fr):
        n0 = A.strip(n)
        if isinstance(n0, dict):
            fo = self.field(n0, fr)
            if fo is not None and fo[1] == '_storage':
                p = self.m.objs[fo[0]]['ptr']
                return p if p is not None else ('null',)
            if n0.get('k') == 'lit' and 'nullptr' in (n0.get('t') or ''):
                return ('null',)
        return XInterp.ev(self, n, fr)

    def assign(self, lhs, rhs, fr, op='='):
        fo = self.field(lhs, fr)
        if fo is not None and fo[1] == '_storage':
            v = self.ev(rhs, fr)
            if v[0] not in ('ptr', 'null') or op != '=':
                raise Unknown('storage pointer assigned a value the interpreter does not follow')
            self.m.objs[fo[0]]['ptr'] = None if v[0] == 'null' else v
            return v
        return XInterp.assign(self, lhs, rhs, fr, op)

    def cond(self, n, fr):
        c = A.strip(n)
        fo = self.field(c, fr) if isinstance(c, dict) else None
        if fo is not None and fo[1] == '_storage':
            return self.m.objs[fo[0]]['ptr'] is not None
        return XInterp.cond(self, n, fr)

    def call(self, n, fr):
        m = self.m
        sn, args = A.cshort(n), n.get('args', []) or []
        if sn in ('swap', 'exchange') and len(args) == 2 and self.field(args[0], fr) and self.field(args[0], fr)[1] == '_storage':
            oa, _ = self.field(args[0], fr)
            if sn == 'swap':
                fb = self.field(args[1], fr)
                if fb is None or fb[1] != '_storage':
                    raise Unknown('swap of the storage pointer with something else')
                m.objs[oa]['ptr'], m.objs[fb[0]]['ptr'] = m.objs[fb[0]]['ptr'], m.objs[oa]['ptr']
                return TOP
            old = m.objs[oa]['ptr'] if m.objs[oa]['ptr'] is not None else ('null',)
            nv = self.ev(args[1], fr)
            if nv[0] not in ('ptr', 'null'):
                raise Unknown('exchange of the storage pointer with a value the interpreter does not follow')
            m.objs[oa]['ptr'] = None if nv[0] == 'null' else nv
            return old
        callee = m.prog.fns.get(n.get('fn')) if n.get('fn') else None
        if callee is not None and callee.get('body') is not None and (callee.get('clsq') or '') == STD and callee.get('name', '').startswith('amc::vec::'):
            if n.get('method'):
                o = self.objof(n.get('obj'), fr)
                if o is None:
                    raise Unknown('member called on an object the interpreter does not follow')
                return self.inline_on(callee, n, args, fr, o)
            return self.inline(callee, n, args, fr)
        return XInterp.call(self, n, fr)


def std_xchg_layout(progs):
    rr = RuleResult('XCHG-STD', 'swap_impl / move_construct / move_assign of StdVectorBase (amc::vector), with and without a block on either side: afterwards each '
                                'vector holds the pointer, capacity and size it was to receive, a moved-from vector holds (null, 0, 0), the elements stay where they '
                                'are, and the receiver\'s former elements are destroyed and its block given back exactly once with its capacity (move_assign)')
    seen = set()
    for prog in progs:
        E = prog.meta.get('E')
        if not E:
            continue
        for f in prog.amc_functions():
            nm = short(f.get('name', ''))
            ps = f.get('params', [])
            if f.get('body') is None or f.get('clsq') != STD or nm not in ('swap_impl', 'move_construct', 'move_assign') or not ps or 'StdVectorBase' not in ps[0]['t']:
                continue
            bad, total, broken = None, 0, None
            gap = ladd(ladd(ladd(KA, KB), ladd(CA, CB)), lconst(1))
            for sa in (('E',) if nm == 'move_construct' else ('E', 'L')):
                for sb in ('E', 'L'):
                    cons = [dict(CA), dict(CB), ladd(KA, CA, -1), ladd(KB, CB, -1), ladd(HA, gap, -1), ladd(HB, ladd(HA, gap), -1)]
                    cons += ([lneg(KA)] if sa == 'E' else [ladd(KA, lconst(-1))]) + ([lneg(KB)] if sb == 'E' else [ladd(KB, lconst(-1))])
                    stack = [[]]
                    try:
                        while stack:
                            trail = stack.pop()
                            m = S.Machine(prog, f, E, trail)
                            m.cons = [dict(c) for c in cons]
                            m.size = {}
                            m.bounds, m.cont = [{}, dict(HA), ladd(HA, CA), dict(HB), ladd(HB, CB)], [RAW, S.old(), RAW, S.old(), RAW]
                            m.objs = {'this': {'words': {'_capa': dict(KA), '_size': dict(CA)}, 'ptr': ('ptr', dict(HA)) if sa == 'L' else None, 'inline': {}},
                                      'other': {'words': {'_capa': dict(KB), '_size': dict(CB)}, 'ptr': ('ptr', dict(HB)) if sb == 'L' else None, 'inline': {}}}
                            m.deallocs = []
                            fr = S.Frame(f)
                            fr.this_obj = 'this'
                            for i, p in enumerate(ps):
                                if 'StdVectorBase' in p['t'] and p['t'].rstrip().endswith('&'):
                                    fr.env[('p', i)] = ('obj', 'other')
                            ip = PInterp(m)
                            try:
                                try:
                                    ip.run(f['body'], fr)
                                except S._Ret:
                                    pass
                                except S._Thrown:
                                    raise Infeasible()
                                init = {'this': (('ptr', dict(HA)) if sa == 'L' else None, KA, CA), 'other': (('ptr', dict(HB)) if sb == 'L' else None, KB, CB)}
                                want = {'this': init['other'], 'other': init['this'] if nm == 'swap_impl' else (None, {}, {})}
                                for name in ('this', 'other'):
                                    o = m.objs[name]
                                    wp, wk, wc = want[name]
                                    same_p = (o['ptr'] is None and wp is None) or (o['ptr'] is not None and wp is not None and m.entails_eq(o['ptr'][1], wp[1]))
                                    if not same_p or not m.entails_eq(o['words']['_capa'], wk) or not m.entails_eq(o['words']['_size'], wc):
                                        raise Violation('`%s` ends with (pointer %s, capacity %s, size %s); expected (%s, %s, %s) [HA / HB: the blocks of this / the other vector on entry]'
                                                        % (name, fmt(o['ptr'][1]) if o['ptr'] else 'null', fmt(o['words']['_capa']), fmt(o['words']['_size']),
                                                           fmt(wp[1]) if wp else 'null', fmt(wk), fmt(wc)), None)
                                keep_a = nm == 'swap_impl'
                                for a, b, got in m.pieces({}, None):
                                    if not S.alive(got) or m.trivial:
                                        continue
                                    in_b = m.compare(a, HB) >= 0 and b is not None and m.compare(b, ladd(HB, CB)) <= 0
                                    in_a = keep_a and m.compare(a, HA) >= 0 and b is not None and m.compare(b, ladd(HA, CA)) <= 0
                                    if not ((in_a or in_b) and S.same_content(m, got, S.old())):
                                        raise Violation('on return slots [%s, %s) hold %s: the elements must stay in their blocks, the receiver\'s former elements be destroyed'
                                                        % (fmt(a), fmt(b), S.cfmt(got)), None)
                                for a, b, got in m.pieces(HB, ladd(HB, CB)) + (m.pieces(HA, ladd(HA, CA)) if keep_a else []):
                                    if not S.same_content(m, got, S.old()) and not m.trivial:
                                        raise Violation('on return slots [%s, %s) hold %s; the elements of a block that changes hands must be untouched' % (fmt(a), fmt(b), S.cfmt(got)), None)
                                want_d = [(HA, KA)] if (nm == 'move_assign' and sa == 'L') else []
                                if len(m.deallocs) != len(want_d) or any(not (m.entails_eq(p_, wp_) and m.entails_eq(c_, wc_)) for (p_, c_), (wp_, wc_) in zip(m.deallocs, want_d)):
                                    raise Violation('blocks given back: %s; expected %s' % ([(fmt(p_), fmt(c_)) for p_, c_ in m.deallocs] or 'none', [(fmt(p_), fmt(c_)) for p_, c_ in want_d] or 'none'), None)
                                total += 1
                            except Split as sp:
                                for i in range(sp.k):
                                    stack.append(trail + [i])
                            except Infeasible:
                                pass
                            except Violation as v:
                                bad = (str(v), v.node, sa, sb)
                                stack = []
                    except Unknown as e:
                        broken = 'XCHG-STD: cannot interpret %s: %s' % (f['pname'][:100], e)
                    if bad or broken:
                        break
                if bad or broken:
                    break
            if broken:
                rr.broken = rr.broken or broken
                continue
            rr.instance('%s|%s' % (f['key'], prog.uname), {'function': f['pname'][:140], 'paths': total, 'verdict': 'violated' if bad else 'pointer, capacity, size, blocks as specified'})
            if bad and f['key'] not in seen:
                seen.add(f['key'])
                msg, node, sa, sb = bad
                TXT = {'E': 'without a block', 'L': 'with a block'}
                rr.add(Finding('XCHG-STD', f['key'], f['loc'], '%s with this vector %s and the other %s: %s' % (nm, TXT[sa], TXT[sb], msg), where=f['pname'], unit=prog.uname))
    return rr


# ------------------------------------------------------------------------------------------------ swap2_impl between two SmallVectors

NA_, NB_ = {'NA': 1}, {'NB': 1}


class X2Interp(XInterp):
    """XInterp for two SmallVectors with different inline capacities; swap_sizetype exchanges the caller's locals."""

    def call(self, n, fr):
        nm, sn, args = A.callee(n), A.cshort(n), n.get('args', []) or []
        if sn == 'swap_sizetype' and len(args) == 2:
            ka, kb = self.key(args[0]), self.key(args[1])
            if ka is None or kb is None:
                raise Unknown('swap_sizetype on something else than two locals')
            va, vb = fr.env.get(ka, TOP), fr.env.get(kb, TOP)
            if va[0] != 'int' or vb[0] != 'int':
                raise Unknown('swap_sizetype on values the interpreter does not follow')
            fr.env[ka], fr.env[kb] = vb, va           # the range test throws before anything is modified (THROW-FIRST, THROW-TYPE)
            return TOP
        if n.get('method') and n.get('obj') is not None:
            ov = self.ev(n['obj'], fr)
            if ov[0] == 'stor' and sn in ('dyn', 'setDyn'):
                # the per-object inline capacity
                o = self.m.objs[ov[1]]
                save = dict(NN_)
                NN_.clear()
                NN_.update(o['N'])
                try:
                    return XInterp.call(self, n, fr)
                finally:
                    NN_.clear()
                    NN_.update(save)
        return XInterp.call(self, n, fr)


def swap2_layout(progs):
    rr = RuleResult('SWAP2-LAYOUT', 'swap2_impl between two SmallVectors (any inline capacities, after the mutual capacity adjustment), for every pair of states: each vector '
                                    'ends - decoded from its own words and union - with the size and the elements of the other, in order, a valid inline encoding or a '
                                    'block whose capacity its `_capa` holds, nothing else alive, every heap block owned by exactly one of them')
    seen = set()
    for prog in progs:
        E = prog.meta.get('E')
        if not E:
            continue
        for f in prog.amc_functions():
            ps = f.get('params', [])
            if f.get('body') is None or short(f.get('name', '')) != 'swap2_impl' or f.get('clsq') != 'amc::vec::DynamicVector' or len(ps) != 1:
                continue
            # both sides SmallVectors (WithInlineElements = true)
            if not (f['pname'].split('::swap2_impl')[0].rstrip('>').rstrip().endswith('true') and 'DynamicVector<' in ps[0]['t'] and ps[0]['t'].replace('&', '').strip().rstrip('>').rstrip().endswith('true')):
                continue
            bad, total, broken = None, 0, None
            gap = ladd(ladd(ladd(ladd(NA_, NB_), ladd(KA, KB)), ladd(CA, CB)), lconst(1))
            base = [dict(CA), dict(CB), dict(KA), dict(KB), ladd(NA_, lconst(-1)), ladd(NB_, lconst(-1)), ladd(MAX_, ladd(NA_, lconst(1)), -1), ladd(MAX_, ladd(NB_, lconst(1)), -1),
                    ladd(MAX_, KA, -1), ladd(MAX_, KB, -1), ladd(IB, gap, -1), ladd(HA, ladd(IB, gap), -1), ladd(HB, ladd(HA, gap), -1)]

            def st(s_, C, K, N):
                if s_ == 'S':
                    return [ladd(ladd(N, C, -1), lconst(-1))], {'_capa': dict(C), '_size': dict(N)}, N
                if s_ == 'F':
                    return [ladd(C, N, -1), ladd(N, C, -1)], {'_capa': dict(C), '_size': dict(MAX_)}, N
                return [ladd(K, C, -1)], {'_capa': dict(K), '_size': dict(C)}, K
            for sa in ('S', 'F', 'L'):
                for sb in ('S', 'F', 'L'):
                    ca, wa, capa_a = st(sa, CA, KA, NA_)
                    cb, wb, capa_b = st(sb, CB, KB, NB_)
                    # adjustEachOtherCapacity ran: each capacity holds the other's size
                    cons = base + ca + cb + [ladd(capa_a, CB, -1), ladd(capa_b, CA, -1)]
                    if not S.sat(cons):
                        continue
                    stack = [[]]
                    try:
                        while stack:
                            trail = stack.pop()
                            m = S.Machine(prog, f, E, trail)
                            m.cons = [dict(c) for c in cons]
                            m.size = {}
                            segs = [((dict(IA), ladd(IA, CA)) if sa != 'L' else (dict(HA), ladd(HA, CA))), ((dict(IB), ladd(IB, CB)) if sb != 'L' else (dict(HB), ladd(HB, CB)))]
                            segs.sort(key=lambda x: (('IB' in x[0]) * 1 + ('HA' in x[0]) * 2 + ('HB' in x[0]) * 3))
                            bounds, cont = [{}], [RAW]
                            for lo, hi in segs:
                                if lo:
                                    bounds += [dict(lo), dict(hi)]
                                    cont += [S.old(), RAW]
                                else:
                                    bounds, cont = [{}, dict(hi)], [S.old(), RAW]
                            m.bounds, m.cont = bounds, cont
                            m.objs = {'this': {'words': {k: dict(v) for k, v in wa.items()}, 'ptr': ('ptr', dict(HA)) if sa == 'L' else None, 'inline': dict(IA), 'N': dict(NA_)},
                                      'other': {'words': {k: dict(v) for k, v in wb.items()}, 'ptr': ('ptr', dict(HB)) if sb == 'L' else None, 'inline': dict(IB), 'N': dict(NB_)}}
                            m.deallocs = []
                            fr = S.Frame(f)
                            fr.this_obj = 'this'
                            fr.env[('p', 0)] = ('obj', 'other')
                            ip = X2Interp(m)
                            try:
                                try:
                                    ip.run(f['body'], fr)
                                except S._Ret:
                                    pass
                                except S._Thrown:
                                    raise Infeasible()
                                origin = {'this': (dict(IA) if sa != 'L' else dict(HA), CA), 'other': (dict(IB) if sb != 'L' else dict(HB), CB)}
                                covered = []
                                for name, src in (('this', 'other'), ('other', 'this')):
                                    state, size, sbase, capa = decode(m, name)
                                    obase, osize = origin[src]
                                    if not m.entails_eq(size, osize):
                                        raise Violation('`%s` ends with size %s; expected the size of the vector it exchanges with (%s)' % (name, fmt(size), fmt(osize)), None)
                                    Nx = m.objs[name]['N']
                                    if state == 'small':
                                        full = m.compare(size, Nx) == 0
                                        if m.compare(size, Nx) > 0:
                                            raise Violation('`%s` ends inline with more elements (%s) than its inline capacity' % (name, fmt(size)), None)
                                        if not m.entails_eq(m.objs[name]['words']['_size'], MAX_ if full else Nx):
                                            raise Violation('`%s` ends inline with `_size` = %s; expected %s' % (name, fmt(m.objs[name]['words']['_size']), 'the full marker' if full else 'its inline capacity'), None)
                                    for a, b, got in m.pieces(sbase, ladd(sbase, size)):
                                        if not S.same_content(m, got, S.old(ladd(sbase, obase, -1))):
                                            raise Violation('on return slots [%s, %s) of `%s` hold %s; expected the elements of the other vector, in order' % (fmt(a), fmt(b), name, S.cfmt(got)), None)
                                    covered.append((dict(sbase), ladd(sbase, size)))
                                for a, b, got in m.pieces({}, None):
                                    if not S.alive(got) or m.trivial:
                                        continue
                                    if any(m.compare(a, lo) >= 0 and (b is not None and m.compare(b, hi) <= 0) for lo, hi in covered):
                                        continue
                                    raise Violation('on return slots [%s, %s) still hold objects (%s) that belong to neither vector' % (fmt(a), fmt(b), S.cfmt(got)), None)
                                for blk, cap, had in ((HA, KA, sa == 'L'), (HB, KB, sb == 'L')):
                                    if not had:
                                        continue
                                    owners = [x for x in ('this', 'other') if decode(m, x)[0] == 'large' and m.entails_eq(m.objs[x]['ptr'][1], blk)]
                                    if len(owners) != 1 or m.deallocs:
                                        raise Violation('a heap block is owned by %d vector(s) after the exchange (and %d block(s) were given back); expected exactly one owner' % (len(owners), len(m.deallocs)), None)
                                    if not m.entails_eq(m.objs[owners[0]]['words']['_capa'], cap):
                                        raise Violation('`%s` owns a block of capacity %s but its `_capa` is %s' % (owners[0], fmt(cap), fmt(m.objs[owners[0]]['words']['_capa'])), None)
                                total += 1
                            except Split as sp:
                                for i in range(sp.k):
                                    stack.append(trail + [i])
                            except Infeasible:
                                pass
                            except Violation as v:
                                bad = (str(v), sa, sb, [short(x['name']) for x in m.frames])
                                stack = []
                            if total + len(stack) > 800:
                                raise Unknown('too many paths')
                    except Unknown as e:
                        broken = 'SWAP2-LAYOUT: cannot interpret %s (this %s, other %s): %s' % (f['pname'][:90], sa, sb, e)
                    if bad or broken:
                        break
                if bad or broken:
                    break
            if broken:
                rr.broken = rr.broken or broken
                continue
            rr.instance('%s|%s' % (f['key'], prog.uname), {'function': f['pname'][:160], 'paths': total, 'verdict': 'violated' if bad else 'contents exchanged, encodings valid, blocks owned once'})
            if bad and f['key'] not in seen:
                seen.add(f['key'])
                msg, sa, sb, where = bad
                rr.add(Finding('SWAP2-LAYOUT', f['key'], f['loc'], 'swap2_impl with this vector %s and the other %s%s: %s' % (STATE_TXT[sa], STATE_TXT[sb], (' (in ' + ' > '.join(where) + ')') if where else '', msg),
                               where=f['pname'], unit=prog.uname))
    return rr
