"""Ownership of the heap block (DESIGN.md 3.C): FREE-ALL, DEALLOC-ARG / REALLOC-ARGS, STEAL, THROW-FIRST."""
from ..lib.core import RuleResult, Finding, short, walk, rel
from ..lib import ast as A
from ..lib.flow import Engine, Client
from . import roles as R
from .lifetime import MayThrow, describe

SVB = 'amc::vec::SmallVectorBase'
STD = 'amc::vec::StdVectorBase'
BASES = (SVB, STD)


def is_this_storage(n, linit=None):
    """n designates the storage pointer of `this`: `_storage` (StdVectorBase), `_storage.dyn()`."""
    n = A.strip(n)
    if not isinstance(n, dict):
        return False
    if n.get('k') == 'mem' and n.get('field') and n.get('name') == '_storage' and A.root(n.get('base'), linit)[0] == 'this':
        return True
    if n.get('k') == 'call' and A.cshort(n) == 'dyn' and n.get('obj') is not None:
        return is_this_storage(n['obj'], linit)
    if n.get('k') == 'ref' and n.get('dk') == 'local' and linit and linit.get(n.get('did')):
        ini = linit[n['did']][0]
        return ini is not None and is_this_storage(ini, linit)
    return False


# ------------------------------------------------------------------------------ FREE-ALL
class FreeClient(Client):
    def __init__(self, f, linit, report):
        self.f, self.linit, self.report = f, linit, report

    def is_event(self, n):
        return n.get('k') in ('call', 'bin')

    def _facts(self, cond):
        """(facts if true, facts if false) of a heap-state predicate on `this`."""
        c = A.strip(cond)
        if not isinstance(c, dict):
            return None
        if c.get('k') == 'call' and A.callee(c) == SVB + '::isSmall':
            if c.get('obj') is None or A.root(c['obj'], self.linit)[0] == 'this':
                return {'noheap'}, {'heap'}
        if c.get('k') == 'mem' and c.get('name') == '_storage' and c.get('clsq') == STD and A.root(c.get('base'), self.linit)[0] == 'this':
            return {'heap'}, {'noheap'}
        if c.get('k') == 'bin' and c.get('op') in ('!=', '=='):
            l, r = A.strip(c.get('lhs')), A.strip(c.get('rhs'))
            for a, b in ((l, r), (r, l)):
                if isinstance(a, dict) and a.get('k') == 'mem' and a.get('name') == '_storage' and isinstance(b, dict) and b.get('null'):
                    return ({'heap'}, {'noheap'}) if c['op'] == '!=' else ({'noheap'}, {'heap'})
        return None

    def assume(self, cond, truth, s):
        fx = self._facts(cond)
        if fx:
            add = fx[0] if truth else fx[1]
            return frozenset(x for x in s if x not in ('heap', 'noheap')) | add
        return s

    def event(self, n, s):
        if n.get('k') == 'call':
            sn = A.cshort(n)
            on_this = n.get('obj') is None or A.root(n['obj'], self.linit)[0] == 'this'
            if on_this and n.get('amc') and n.get('fn') is not None and getattr(self, 'calls', None) is not None:
                self.calls.setdefault(n['fn'], []).append(s)       # the state a private helper is entered with
            if on_this and n.get('fn') in getattr(self, 'resetters', ()):
                s = s | {'reset'}                                    # the callee gives the storage pointer a new value
            if sn in ('freeStorage', 'destroyFreeStorage') and on_this:
                return [('n', (s - {'heap'}) | {'freed'})]
            if sn == 'deallocate' and n.get('args') and is_this_storage(n['args'][0], self.linit):
                return [('n', (s - {'heap'}) | {'freed'})]
            if sn == 'setDyn' and n.get('obj') is not None and is_this_storage_obj(n['obj'], self.linit):
                src = n['args'][0] if n.get('args') else None
                handed_over = src is not None and any(A.cshort(c) in ('Reallocate', 'reallocate') for c in A.calls(src))
                ok = handed_over or 'freed' in s or 'noheap' in s
                self.report(n, ok, s)
                return [('n', s | {'reset'})]
            if sn == 'resetToSmall' and on_this:
                return [('n', s | {'reset'})]
            return [('n', s)]
        # (_capa, _size) <- (0, inplaceCapa): `this` becomes an empty inline vector; a heap block it owned must be gone by now
        if n.get('op') == '=':
            lhs0 = A.strip(n.get('lhs'))
            rhs0 = A.strip(n.get('rhs') or {})
            if isinstance(lhs0, dict) and lhs0.get('k') == 'mem' and lhs0.get('field') and lhs0.get('clsq') == SVB and A.root(lhs0.get('base'), self.linit)[0] == 'this':
                if lhs0.get('name') == '_capa' and (rhs0.get('v') == 0 or rhs0.get('cv') == 0):
                    return [('n', s | {'zero'})]
                if lhs0.get('name') == '_size' and 'zero' in s and rhs0.get('k') == 'ref' and rhs0.get('dk') == 'param':
                    self.report(n, 'freed' in s or 'noheap' in s, s)
                    return [('n', (s - {'zero'}) | {'reset'})]
        # `_storage = X` in StdVectorBase
        if n.get('op') == '=':
            lhs = A.strip(n.get('lhs'))
            if isinstance(lhs, dict) and lhs.get('k') == 'mem' and lhs.get('name') == '_storage' and lhs.get('clsq') == STD and \
                    A.root(lhs.get('base'), self.linit)[0] == 'this':
                src = n.get('rhs')
                handed_over = src is not None and any(A.cshort(c) in ('Reallocate', 'reallocate') for c in A.calls(src))
                ok = handed_over or 'freed' in s or 'noheap' in s
                self.report(n, ok, s)
                return [('n', s | {'reset'})]
        return [('n', s)]


def is_this_storage_obj(obj, linit):
    o = A.strip(obj)
    return isinstance(o, dict) and o.get('k') == 'mem' and o.get('name') == '_storage' and A.root(o.get('base'), linit)[0] == 'this'


EXEMPT_OVERWRITE = {'move_construct', 'swap_impl', 'swapDynStorage', 'SwapDynamicBuffer'}
RELEASERS = {'(dtor)', 'destroyFreeStorage'}


def free_all(progs):
    rr = RuleResult('FREE-ALL', 'the storage pointer of a vector is overwritten only when it is known to hold no block, after the block was '
                                'released on that path, or when the block is handed to reallocate; destructors and destroyFreeStorage release on '
                                'every path on which the heap-state predicate holds')
    for prog in progs:
        # states with which the (non public) members of the bases are entered from their callers: a helper extracted from
        # move_assign that overwrites the pointer is fine if every caller released the block (or never owned one) before calling it
        entered = {}
        resetters = set()
        for g in prog.amc_functions():
            if g.get('body') is not None and g.get('clsq') in BASES:
                if any(A.cshort(c) == 'setDyn' for c in A.calls(g['body'])) or \
                        any(isinstance(A.strip(l), dict) and A.strip(l).get('k') == 'mem' and A.strip(l).get('name') == '_storage' for _st, l in A.stores(g['body'])):
                    resetters.add(g['id'])
        for f in prog.amc_functions():
            if f.get('body') is None or f.get('clsq') not in BASES:
                continue
            exempt = f.get('kind') == 'ctor' or short(f['name']) in EXEMPT_OVERWRITE
            cl0 = FreeClient(f, A.local_inits(f['body']), lambda *a: None)
            cl0.calls = {}
            Engine(cl0).run(f['body'], frozenset({'noheap'}) if exempt else frozenset(), f.get('inits'))
            for fid, sts in cl0.calls.items():
                entered.setdefault(fid, []).extend(sts)
        for f in prog.amc_functions():
            if f.get('body') is None or f.get('clsq') not in BASES:
                continue
            sn = short(f['name'])
            if f.get('kind') == 'ctor' or sn in EXEMPT_OVERWRITE:
                continue
            body = f['body']
            linit = A.local_inits(body)
            sites = {}

            def report(n, ok, s, sites=sites):
                v = sites.setdefault(id(n), [n, True])
                v[1] = v[1] and ok
            cl = FreeClient(f, linit, report)
            cl.resetters = resetters
            o = Engine(cl).run(body, frozenset(), f.get('inits'))
            ctx = entered.get(f['id'])
            safe_ctx = f.get('access') != 'public' and bool(ctx) and all(('freed' in st or 'noheap' in st) for st in ctx)
            for n, ok in sites.values():
                ok = ok or safe_ctx
                rr.instance('%s|overwrite|%s' % (f['key'], rel(prog.site(f, n))), {'function': f['pname'][:140], 'site': rel(prog.site(f, n)), 'ok': ok})
                if not ok:
                    rr.add(Finding('FREE-ALL', '%s|overwrite' % f['key'], prog.site(f, n),
                                   'the storage pointer is overwritten on a path on which the vector may still own a heap block that was not released',
                                   where=f['pname'], unit=prog.uname))
            if f.get('kind') != 'dtor' and sn not in ('freeStorage', 'destroyFreeStorage', 'deallocate', 'resetToSmall'):
                dangling = [s_ for s_ in list(o.normal) + [x for x, _ in o.returns] if 'freed' in s_ and 'reset' not in s_]
                rr.instance('%s|dangling' % f['key'], {'function': f['pname'][:140], 'exits_with_released_block_still_referenced': len(dangling)})
                if dangling:
                    rr.add(Finding('FREE-ALL', '%s|dangling' % f['key'], f['loc'],
                                   'there is a path on which the block is released but the storage pointer is neither reset nor replaced before the function returns: '
                                   'the vector keeps a dangling pointer and releases the block a second time later', where=f['pname'], unit=prog.uname))
            if sn in RELEASERS:
                bad = [s for s in list(o.normal) + [x for x, _ in o.returns] if 'heap' in s and 'freed' not in s]
                rr.instance('%s|release' % f['key'], {'function': f['pname'][:140], 'exit_states': len(o.normal) + len(o.returns), 'heap_paths_without_release': len(bad)})
                if bad:
                    rr.add(Finding('FREE-ALL', '%s|release' % f['key'], f['loc'],
                                   'there is a path on which the vector is heap-backed and its block is not released (the release is conditioned on '
                                   'something else than the heap-state predicate)', where=f['pname'], unit=prog.uname))
    return rr


# ------------------------------------------------------------------------------ DEALLOC-ARG / REALLOC-ARGS
def _is_word_read(n, word, linit):
    n = A.strip(n)
    return isinstance(n, dict) and n.get('k') == 'mem' and n.get('field') and n.get('name') == word and A.root(n.get('base'), linit)[0] == 'this'


def _is_own_capacity(n, linit, body):
    """The capacity that travels with this object's block: the `_capa` word, `capacity()` of this, or a never re-assigned local
    initialised with one of them."""
    n = A.strip(n)
    hops = 0
    while isinstance(n, dict) and n.get('k') == 'ref' and n.get('dk') == 'local' and hops < 3:
        ini = linit.get(n.get('did'))
        if not ini or ini[0] is None:
            return False
        if any(isinstance(A.strip(l), dict) and A.strip(l).get('k') == 'ref' and A.strip(l).get('did') == n.get('did') for _st, l in A.stores(body)):
            return False
        n = A.strip(ini[0])
        hops += 1
    if _is_word_read(n, '_capa', linit):
        return True
    return isinstance(n, dict) and n.get('k') == 'call' and n.get('method') and A.cshort(n) == 'capacity' and not n.get('args') and \
        (n.get('obj') is None or A.root(n.get('obj'), linit)[0] == 'this')


def _param_idx(n):
    n = A.strip(n)
    if isinstance(n, dict) and n.get('k') == 'ref' and n.get('dk') == 'param':
        return n.get('idx')
    return None


def _scaled_param(n):
    """param idx of `p` or `p * sizeof(T)`."""
    n = A.strip(n)
    i = _param_idx(n)
    if i is not None:
        return i, False
    if isinstance(n, dict) and n.get('k') == 'bin' and n.get('op') == '*':
        for a, b in ((n.get('lhs'), n.get('rhs')), (n.get('rhs'), n.get('lhs'))):
            if _param_idx(a) is not None and A.strip(b).get('k') == 'sizeof':
                return _param_idx(a), True
    return None, False


def _fresh_pair(args, linit, body):
    """deallocate(L, X) where the local L holds the result of allocate(X) of this very function: a block that is given back
    before it was ever owned (roll-back of a failed relocation)."""
    a0 = A.strip(args[0])
    if not (isinstance(a0, dict) and a0.get('k') == 'ref' and a0.get('dk') == 'local'):
        return False
    ini = linit.get(a0.get('did'))
    src = A.strip(ini[0]) if ini and ini[0] is not None else None
    if not (isinstance(src, dict) and src.get('k') == 'call' and A.cshort(src) == 'allocate' and src.get('args')):
        return False
    if any(A.strip(l).get('k') == 'ref' and A.strip(l).get('did') == a0.get('did') for _st, l in A.stores(body) if isinstance(A.strip(l), dict)):
        return False      # re-assigned local
    return A.struct_eq(A.strip(src['args'][0]), A.strip(args[1]))


def alloc_args(progs):
    rr = RuleResult('DEALLOC-ARG', 'each block is returned / reallocated with the capacity word that travels with it: deallocate(p, n) gets the '
                                   'storage pointer and the capacity field of the same object, Reallocate gets (storage, capacity, new capacity, size) '
                                   'and the new capacity is what is stored into the capacity field afterwards')
    for prog in progs:
        for f in prog.amc_functions():
            body = f.get('body')
            if body is None:
                continue
            linit = A.local_inits(body)
            in_base = f.get('clsq') in BASES
            pos = A.eval_order(body, f.get('inits'))
            for c in A.calls(body):
                sn = A.cshort(c)
                args = c.get('args', [])
                site = rel(prog.site(f, c))
                if sn == 'deallocate' and len(args) >= 2 and (in_base or f['name'] in ('amc::vec::Reallocate', 'amc::BasicAllocatorWrapper::Reallocate')) \
                        and _fresh_pair(args, linit, body):
                    rr.instance('%s|deallocate-fresh|%s' % (f['key'], site), {'function': f['pname'][:140], 'site': site,
                                                                             'gives_back': 'the block just obtained, with the size it was requested with', 'ok': True})
                elif in_base and sn == 'deallocate' and len(args) >= 2:
                    okp = is_this_storage(args[0], linit)
                    okn = _is_word_read(args[1], '_capa', linit)
                    # no store to _capa earlier in the function
                    stale = any(_is_word_read(l, '_capa', linit) and pos.get(id(st), 0) < pos[id(c)] for st, l in A.stores(body))
                    # no construct into the inline buffer (which overlays the pointer) before reading the pointer for the call
                    clobber = False
                    a0 = A.strip(args[0])
                    if a0.get('k') == 'call':    # pointer read at the call itself
                        for k2 in A.calls(body):
                            if pos[id(k2)] < pos[id(c)] and R.role(k2)[0] == 'construct':
                                d = R.dest_arg(k2)
                                ds = A.strip(d) if d is not None else {}
                                if ds.get('k') == 'call' and A.cshort(ds) == 'ptr':
                                    clobber = True
                    ok = okp and okn and not stale and not clobber
                    rr.instance('%s|deallocate|%s' % (f['key'], site), {'function': f['pname'][:140], 'site': site, 'pointer_is_own_storage': okp,
                                                                       'count_is_own_capacity': okn, 'capacity_not_modified_before': not stale, 'ok': ok})
                    if not ok:
                        why = ('the pointer is not the storage of this object' if not okp else 'the element count is not the capacity field of this object'
                               if not okn else 'the capacity field was modified before the call' if stale else 'the inline buffer overlaying the pointer was written before the pointer is read')
                        rr.add(Finding('DEALLOC-ARG', '%s|deallocate' % f['key'], prog.site(f, c),
                                       'deallocate is not given the block together with the capacity it was obtained with: %s' % why, where=f['pname'], unit=prog.uname))
                elif in_base and A.callee(c) == 'amc::vec::Reallocate' and len(args) >= 5:
                    okp = is_this_storage(args[1], linit)
                    oko = _is_own_capacity(args[2], linit, body)
                    oks = _is_word_read(args[4], '_size', linit)
                    # the 4th argument is what is stored into _capa afterwards
                    later = [st for st, l in A.stores(body) if _is_word_read(l, '_capa', linit) and pos.get(id(st), 0) > pos[id(c)] and st.get('k') == 'bin' and st.get('op') == '=']
                    okn = bool(later) and all(A.struct_eq(A.strip(st.get('rhs')), A.strip(args[3])) for st in later)
                    ok = okp and oko and oks and okn
                    rr.instance('%s|Reallocate|%s' % (f['key'], site), {'function': f['pname'][:140], 'site': site, 'storage': okp, 'old_capacity': oko, 'size': oks,
                                                                       'new_capacity_is_stored': okn, 'ok': ok})
                    if not ok:
                        rr.add(Finding('DEALLOC-ARG', '%s|Reallocate' % f['key'], prog.site(f, c),
                                       'Reallocate is not called with (own storage, own capacity, new capacity, own size) or the new capacity is not the '
                                       'value stored into the capacity field afterwards [storage=%s old_capacity=%s size=%s new_capacity_stored=%s]' % (okp, oko, oks, okn),
                                       where=f['pname'], unit=prog.uname))
                elif f['name'] == 'amc::vec::Reallocate' and sn in ('reallocate', 'deallocate', 'uninitialized_relocate_n'):
                    idx = [_param_idx(a) for a in args]
                    want = {'reallocate': [1, 2, 3, 4], 'deallocate': [1, 2]}.get(sn)
                    if sn == 'uninitialized_relocate_n':
                        ok = idx[:2] == [1, 4]
                        want = [1, 4, 'new block']
                    else:
                        ok = idx == want
                    rr.instance('%s|%s|%s' % (f['key'], sn, site), {'function': f['pname'][:140], 'call': sn, 'argument_params': idx, 'expected': want, 'ok': ok})
                    if not ok:
                        rr.add(Finding('DEALLOC-ARG', '%s|%s' % (f['key'], sn), prog.site(f, c),
                                       '%s receives parameters %s of Reallocate(alloc, p, oldCapa, newCapa, size), expected %s' % (sn, idx, want),
                                       where=f['pname'], unit=prog.uname))
                elif f['name'] == 'amc::BasicAllocatorWrapper::Reallocate' and sn in ('reallocate', 'deallocate', 'allocate', 'uninitialized_relocate_n'):
                    sc = [_scaled_param(a) for a in args]
                    idx = [x[0] for x in sc]
                    want = {'reallocate': [1, 2, 3], 'deallocate': [1, 2], 'allocate': [3]}.get(sn)
                    if sn == 'uninitialized_relocate_n':
                        ok = idx[:2] == [1, 4]
                        want = [1, 4, 'new block']
                    else:
                        ok = idx == want and all(x[1] for x in sc[(1 if sn != 'allocate' else 0):])
                    rr.instance('%s|%s|%s' % (f['key'], sn, site), {'function': f['pname'][:140], 'call': sn, 'argument_params': idx, 'expected': want, 'ok': ok})
                    if not ok:
                        rr.add(Finding('DEALLOC-ARG', '%s|%s' % (f['key'], sn), prog.site(f, c),
                                       '%s receives parameters %s of Reallocate(basicAlloc, p, oldCapacity, newCapacity, nConstructedElems) (scaled by sizeof(T)), expected %s'
                                       % (sn, idx, want), where=f['pname'], unit=prog.uname))
            # amc::allocator's reallocate for non-relocatable types: allocate -> relocate -> deallocate, in that order
            if f['name'] == 'amc::BasicAllocatorWrapper::Reallocate':
                seq = [A.cshort(c) for c in A.calls(body) if A.cshort(c) in ('allocate', 'uninitialized_relocate_n', 'deallocate', 'reallocate')
                       and not (A.cshort(c) == 'deallocate' and len(c.get('args', [])) >= 2 and _fresh_pair(c['args'], linit, body))]
                if 'reallocate' not in seq:
                    ok = seq == ['allocate', 'uninitialized_relocate_n', 'deallocate']
                    rr.instance('%s|order' % f['key'], {'function': f['pname'][:140], 'sequence': seq, 'ok': ok})
                    if not ok:
                        rr.add(Finding('DEALLOC-ARG', '%s|order' % f['key'], f['loc'],
                                       "amc::allocator's reallocate for a non relocatable type must allocate, relocate the live elements, then deallocate; found %s" % seq,
                                       where=f['pname'], unit=prog.uname))
    return rr


# ------------------------------------------------------------------------------ STEAL
class StealClient(Client):
    def __init__(self, f, linit, report, always_heap):
        self.f, self.linit, self.report, self.always_heap = f, linit, report, always_heap

    def is_event(self, n):
        return n.get('k') in ('call', 'new')

    def assume(self, cond, truth, s):
        c = A.strip(cond)
        if isinstance(c, dict) and c.get('k') == 'call' and A.callee(c) == SVB + '::isSmall':
            kind, r = A.root(c.get('obj'), self.linit) if c.get('obj') is not None else ('this', {})
            obj = 'this' if kind == 'this' else (r.get('name') or kind)
            return frozenset(x for x in s if x[1] != obj) | {('small' if truth else 'heap', obj)}
        return s

    def on_elements(self, n):
        E = self.E
        objs_only = A.cshort(n) in ('swap', 'exchange')     # operate on the objects passed, not on a range
        for a in n.get('args', []) or []:
            t = A.strip(a).get('t', '') if isinstance(a, dict) else ''
            t = t.replace('const ', '').strip()
            if t == E or (t == E + ' *' and not objs_only):
                return True
        return n.get('k') == 'new'

    def event(self, n, s):
        kind, det = R.role(n)
        if kind in ('construct', 'assign', 'erase', 'hole_open') and not self.on_elements(n):
            return [('n', s)]
        if kind in ('construct', 'assign', 'erase', 'hole_open') or (n.get('k') == 'call' and A.callee(n) in ('amc::vec::swap_deep', SVB + '::SwapDynamicBuffer')):
            heaps = {x[1] for x in s if x[0] == 'heap'}
            if self.always_heap:
                self.report(n, False)
            else:
                # an element operation is a violation only where every operand involved is heap-backed
                others = {x[1] for x in s if x[0] == 'small'}
                self.report(n, not (('heap', 'o') in s and not others and (short(self.f['name']) != 'swap_impl' or ('heap', 'this') in s)))
        return [('n', s)]


def steal(progs):
    rr = RuleResult('STEAL', 'moving from a heap-backed vector and swapping two heap-backed vectors hand the buffer over: on those paths no element '
                             'is constructed, assigned, relocated or byte-copied')
    for prog in progs:
        for f in prog.amc_functions():
            if f.get('body') is None or f.get('clsq') not in BASES:
                continue
            sn = short(f['name'])
            if sn not in ('move_construct', 'move_assign', 'swap_impl', 'swapDynStorage'):
                continue
            body = f['body']
            linit = A.local_inits(body)
            sites = {}

            def report(n, ok, sites=sites):
                v = sites.setdefault(id(n), [n, True])
                v[1] = v[1] and ok
            always = f.get('clsq') == STD
            cl = StealClient(f, linit, report, always)
            cl.E = getattr(prog, 'meta', {}).get('E', '?')
            Engine(cl).run(body, frozenset(), f.get('inits'))
            nviol = sum(1 for n, ok in sites.values() if not ok)
            rr.instance('%s' % f['key'], {'function': f['pname'][:140], 'element_operations_seen': len(sites), 'on_heap_paths': nviol})
            for n, ok in sites.values():
                if not ok:
                    rr.add(Finding('STEAL', '%s|%s' % (f['key'], A.cshort(n) or 'new'), prog.site(f, n),
                                   '%s runs on a path where the source is heap-backed: the buffer must be handed over without touching the elements '
                                   '(element addresses are not preserved, element operations are performed)' % (A.cshort(n) or 'placement new'),
                                   where=f['pname'], unit=prog.uname))
    return rr


# ------------------------------------------------------------------------------ THROW-FIRST (swap2)
class ThrowFirstClient(Client):
    MUT = {'swap_deep', 'swapDynStorage', 'SwapDynStorage', 'setSize', 'incrSize', 'decrSize', 'setDynSizeAndCapacity', 'SwapDynamicBuffer'}

    def __init__(self, may, report, linit):
        self.may, self.report, self.linit = may, report, linit

    def is_event(self, n):
        return n.get('k') in ('call', 'construct', 'throw', 'bin')

    def event(self, n, s):
        if n.get('k') == 'bin':
            if n.get('op') == '=':
                kind, r = A.root(n.get('lhs'), self.linit)
                if kind in ('this', 'param'):
                    l = A.strip(n.get('lhs'))
                    if not (l.get('k') == 'ref'):
                        return [('n', s | {'mut'})]
            return [('n', s)]
        out = []
        if self.may(n):
            if 'mut' in s:
                self.report(n)
            out.append(('x', s))
        ns = s
        if n.get('k') == 'call':
            if A.cshort(n) in self.MUT:
                ns = s | {'mut'}
            else:
                # a size word of an operand handed out by non-const reference is a mutation
                for a in n.get('args', []):
                    aa = A.strip(a)
                    if isinstance(aa, dict) and aa.get('k') == 'call' and A.cshort(aa) in ('msize', 'mcapacity'):
                        ns = s | {'mut'}
        out.append(('n', ns))
        return out


def throw_first(progs):
    rr = RuleResult('THROW-FIRST', 'in swap2 every call that may throw is sequenced before the first modification of either operand, so an '
                                   'impossible exchange leaves both vectors with their contents')
    for prog in progs:
        may = MayThrow(prog)
        for f in prog.amc_functions():
            if f.get('body') is None or short(f['name']) != 'swap2_impl':
                continue
            linit = A.local_inits(f['body'])
            sites = {}

            def report(n, sites=sites):
                sites[id(n)] = n
            Engine(ThrowFirstClient(may, report, linit)).run(f['body'], frozenset(), f.get('inits'))
            rr.instance('%s|%s' % (f['key'], f['pname'][:200]), {'function': f['pname'][:200], 'may_throw_after_mutation': len(sites)})
            for n in sites.values():
                rr.add(Finding('THROW-FIRST', '%s|%s' % (f['key'], short(n.get('name', '') or n.get('k'))), prog.site(f, n),
                               '%s may throw after an operand of swap2 has already been modified: a failing exchange does not leave both vectors with '
                               'their original contents' % describe(n)[:120], where=f['pname'], unit=prog.uname))
    return rr


# ------------------------------------------------------------------------------ STALE-READ (exchanges read before they write)
class StaleClient(Client):
    READS = {'size', 'capacity', 'msize', 'mcapacity', 'begin', 'end', 'dynStorage', 'dyn'}
    WRITES = {'setSize', 'setDynSizeAndCapacity', 'incrSize', 'decrSize', 'swapDynStorage', 'setDyn'}

    def __init__(self, linit, report):
        self.linit, self.report = linit, report

    def is_event(self, n):
        return n.get('k') == 'call'

    def _obj(self, n):
        if n.get('obj') is None:
            return 'this'
        kind, r = A.root(n['obj'], self.linit)
        return 'this' if kind == 'this' else (r.get('name') or kind)

    def event(self, n, s):
        sn = A.cshort(n)
        if not n.get('method') or not n.get('amc'):
            return [('n', s)]
        if sn in self.WRITES:
            w = {self._obj(n)}
            if sn == 'swapDynStorage' and n.get('args'):
                kind, r = A.root(n['args'][0], self.linit)
                w.add('this' if kind == 'this' else (r.get('name') or kind))
            # the storage exchange does not change what size()/capacity() report; only the words do
            if sn in ('swapDynStorage', 'setDyn'):
                return [('n', s | {('wp', o) for o in w})]
            return [('n', s | {('ww', o) for o in w})]
        if sn in ('size', 'capacity', 'msize', 'mcapacity') and ('ww', self._obj(n)) in s:
            self.report(n, self._obj(n), 'size / capacity')
        if sn in ('begin', 'end', 'dynStorage', 'dyn') and (('wp', self._obj(n)) in s):
            self.report(n, self._obj(n), 'storage')
        return [('n', s)]


def stale_read(progs):
    rr = RuleResult('STALE-READ', 'an exchange reads the size, capacity and storage of both operands before it writes either: no read of an operand\'s '
                                  'size / capacity after that operand\'s bookkeeping has been overwritten in the same exchange')
    for prog in progs:
        for f in prog.amc_functions():
            if f.get('body') is None or short(f['name']) not in ('swap2_impl',):
                continue
            linit = A.local_inits(f['body'])
            sites = {}

            def report(n, obj, what, sites=sites):
                sites[id(n)] = (n, obj, what)
            Engine(StaleClient(linit, report)).run(f['body'], frozenset(), f.get('inits'))
            rr.instance('%s|%s' % (f['key'], f['pname'][:200]), {'function': f['pname'][:200], 'stale_reads': len(sites)})
            for n, obj, what in sites.values():
                rr.add(Finding('STALE-READ', '%s|%s|%s' % (f['key'], obj, A.cshort(n)), prog.site(f, n),
                               '%s of `%s` is read after this exchange has already overwritten it: the other operand receives the new value instead of '
                               'the original one (swap without a temporary)' % (A.cshort(n), obj), where=f['pname'], unit=prog.uname))
    return rr


# ------------------------------------------------------------------------------ EACH-OTHER
class EachOtherClient(Client):
    def __init__(self, linit, dynamic=False):
        self.linit = linit
        self.dynamic = dynamic
        self.unguarded = []

    def is_event(self, n):
        return n.get('k') == 'call'

    def assume(self, cond, truth, s):
        c = A.strip(cond)
        neg = False
        while isinstance(c, dict) and c.get('k') == 'un' and c.get('op') == '!':
            c = A.strip(c.get('sub'))
            neg = not neg
        if isinstance(c, dict) and c.get('k') == 'call' and A.cshort(c) == 'canSwapDynStorage':
            return s | ({'canswap'} if (truth != neg) else {'noswap'})
        return s

    def event(self, n, s):
        if A.cshort(n) in ('adjustCapacity', 'grow', 'reserve') and n.get('args') and 'noswap' not in s and self.dynamic:
            self.unguarded.append(n)
        if A.cshort(n) == 'adjustCapacity' and n.get('args'):
            kind, r = A.root(n.get('obj'), self.linit) if n.get('obj') is not None else ('this', {})
            who = 'this' if kind == 'this' else 'other'
            # the request must be the *other* operand's size
            arg_sizes = [c for c in A.calls(n['args'][0]) if A.cshort(c) == 'size']
            src = None
            for c in arg_sizes:
                k2, r2 = A.root(c.get('obj'), self.linit) if c.get('obj') is not None else ('this', {})
                src = 'this' if k2 == 'this' else 'other'
            if src is not None and src != who:
                return [('n', s | {'adj:' + who})]
        return [('n', s)]


def each_other(progs):
    rr = RuleResult('EACH-OTHER', 'before a swap2 that is not a pure buffer exchange, the capacity of each operand is checked / adjusted against the '
                                  'size of the other one (both directions)')
    for prog in progs:
        for f in prog.amc_functions():
            if short(f['name']) != 'adjustEachOtherCapacity' or f.get('body') is None:
                continue
            linit = A.local_inits(f['body'])
            # only where a buffer exchange is possible at all: both operands dynamic vectors (canSwapDynStorage is consulted)
            dyn = f.get('clsq') == 'amc::vec::DynamicVector' and f.get('params') and 'DynamicGrowingPolicy' in f['params'][0]['t']
            cl = EachOtherClient(linit, dyn)
            o = Engine(cl).run(f['body'], frozenset(), f.get('inits'))
            finals = list(o.normal) + [s for s, _ in o.returns]
            for n_ in cl.unguarded[:1]:
                rr.add(Finding('EACH-OTHER', '%s|unguarded' % f['key'], prog.site(f, n_),
                               'a capacity adjustment runs although the two heap buffers could simply be exchanged (not conditioned on canSwapDynStorage being false): '
                               'swapping two heap-backed vectors then reallocates and relocates elements instead of handing the buffers over', where=f['pname'], unit=prog.uname))
            bad = [s for s in finals if 'canswap' not in s and not ({'adj:this', 'adj:other'} <= s)]
            rr.instance('%s|%s' % (f['key'], f['pname'][:160]), {'function': f['pname'][:200], 'paths': len(finals), 'paths_missing_a_direction': len(bad)})
            if bad:
                missing = sorted({'this' if 'adj:this' not in s else 'other' for s in bad})
                rr.add(Finding('EACH-OTHER', '%s|%s' % (f['key'], ','.join(missing)), f['loc'],
                               'there is a path on which the capacity of `%s` is not checked against the size of the other operand before the element-wise exchange'
                               % '/'.join(missing), where=f['pname'], unit=prog.uname))
    return rr


# ====================================================================================== BLOCK
class BlockClient(Client):
    """State: frozenset of ('blk', did): a block obtained from the allocator lives in local `did` and is not yet owned by the
    container (stored into a member / handed to setDyn / returned) nor given back to the allocator."""

    def __init__(self, f, may, bound):
        self.f, self.may, self.bound = f, may, bound
        self.eng = None

    def is_event(self, n):
        return n.get('k') in ('call', 'construct', 'new', 'throw') or (n.get('k') == 'bin' and n.get('op') == '=')

    def enter_handler(self, try_node, handler, state, thrower):
        return state

    @staticmethod
    def _locals_in(n):
        return {x.get('did') for x in walk(n or {}) if x.get('k') == 'ref' and x.get('dk') == 'local'}

    def event(self, n, s):
        k = n.get('k')
        if k == 'throw':
            return [('x', s)]
        out = []
        if k == 'bin':
            lhs = A.strip(n.get('lhs'))
            if isinstance(lhs, dict) and lhs.get('k') == 'mem':
                used = self._locals_in(n.get('rhs'))
                s = frozenset(o for o in s if o[1] not in used)          # stored into a member: owned
            return [('n', s)]
        # a second fault while the first one is being handled is outside the quantifier
        if self.may(n) and s and not self.eng.handler_depth > 0:
            out.append(('x', s))
        ns = s
        if k == 'call':
            sn = A.cshort(n)
            if id(n) in self.bound:
                ns = ns | {('blk', self.bound[id(n)])}
            elif n.get('method') and (sn == 'deallocate' or (n.get('obj') is not None and A.strip(n['obj']).get('k') == 'mem')):
                used = set()
                for a in n.get('args', []):
                    used |= self._locals_in(a)
                ns = frozenset(o for o in ns if o[1] not in used)        # given back, or handed to a member object (setDyn, ...)
        out.append(('n', ns))
        return out


def block(progs):
    rr = RuleResult('BLOCK', 'a block obtained from the allocator into a local variable is owned by the container (member store / setDyn / return) or '
                             'given back (deallocate) on every exit of the function, including the exceptional successor of every may-throw call in between')
    for prog in progs:
        may = MayThrow(prog)
        for f in prog.amc_functions():
            body = f.get('body')
            if body is None:
                continue
            bound = {}
            for n in walk(body):
                if n.get('k') == 'decl':
                    for v in n.get('vars', []):
                        ini = A.strip(v.get('init')) if v.get('init') else None
                        if isinstance(ini, dict) and ini.get('k') == 'call' and A.cshort(ini) == 'allocate' and ini.get('method'):
                            bound[id(ini)] = v['did']
                elif n.get('k') == 'bin' and n.get('op') == '=':
                    l, r = A.strip(n.get('lhs')), A.strip(n.get('rhs'))
                    if isinstance(l, dict) and l.get('k') == 'ref' and l.get('dk') == 'local' and isinstance(r, dict) and r.get('k') == 'call' \
                            and A.cshort(r) == 'allocate' and r.get('method'):
                        bound[id(r)] = l['did']
            # a block handed to a local scope guard (a local object whose destructor gives the block back unless dismissed) is owned
            # by the guard from its declaration on, provided nothing can throw between the request and that declaration
            if bound:
                order = A.eval_order(body, f.get('inits'))
                for n in walk(body):
                    if n.get('k') != 'decl':
                        continue
                    for v in n.get('vars', []):
                        ty = (v.get('t') or '').replace('const ', '').strip()
                        dt = next((g for g in prog.fns.values() if g.get('kind') == 'dtor' and g.get('cls') == ty), None)
                        if dt is None or v.get('init') is None:
                            continue
                        if not any(short((prog.fns.get(x) or {}).get('name', '')) == 'deallocate' for x in prog.reachable(dt['id'])):
                            continue
                        used = BlockClient._locals_in(v['init'])
                        for cid, did in list(bound.items()):
                            if did in used:
                                call = next((c for c in A.calls(body) if id(c) == cid), None)
                                between = [c for c in A.calls(body) if call is not None and id(c) in order and id(call) in order and
                                           order[id(call)] < order[id(c)] and (id(A.strip(v['init'])) not in order or order[id(c)] < order[id(A.strip(v['init']))]) and may(c)]
                                first_in_init = min([order[id(x)] for x in walk(v['init']) if id(x) in order] or [None])
                                between = [c for c in A.calls(body) if call is not None and id(c) in order and first_in_init is not None and
                                           order[id(call)] < order[id(c)] < first_in_init and may(c)]
                                if not between:
                                    del bound[cid]
                                    rr.instance('%s|guard|%s' % (f['key'], prog.uname), {'function': f['pname'][:150], 'unit': prog.uname,
                                                                                         'block_owned_by_scope_guard': ty[:80]})
            if not bound:
                continue
            cl = BlockClient(f, may, bound)
            eng = Engine(cl)
            cl.eng = eng
            o = eng.run(body, frozenset(), f.get('inits'))
            rr.instance('%s|%s' % (f['key'], prog.uname), {'function': f['pname'][:150], 'unit': prog.uname, 'blocks_in_locals': len(bound),
                                                           'exceptional_exit_states': len(o.throws)})
            for s, nid in o.returns:
                rn = eng.nodes.get(nid) or {}
                used = BlockClient._locals_in(rn.get('e'))
                for ob in s:
                    if ob[1] not in used:
                        rr.add(Finding('BLOCK', '%s|normal' % f['key'], f['loc'], 'a block obtained from the allocator is neither owned nor given back when the '
                                       'function returns', where=f['pname'], unit=prog.uname))
            for s in o.normal:
                for ob in s:
                    rr.add(Finding('BLOCK', '%s|normal' % f['key'], f['loc'], 'a block obtained from the allocator is neither owned nor given back when the '
                                   'function ends', where=f['pname'], unit=prog.uname))
            for s, thrower in o.throws:
                tn = eng.nodes.get(thrower)
                for ob in s:
                    rr.add(Finding('BLOCK', '%s|throw|%s' % (f['key'], short((tn or {}).get('name', '') or 'throw')),
                                   prog.site(f, tn) if tn is not None else f['loc'],
                                   '%s may throw while the block just obtained from the allocator is only held by a local variable and no handler gives it '
                                   'back: the block is leaked' % describe(tn)[:120], where=f['pname'], unit=prog.uname))
    return rr


# ====================================================================================== CHECK-FIRST
class CheckFirstClient(Client):
    """State: {'mut'} once the container has been modified on this path."""
    MUT_METHODS = {'clear', 'erase', 'pop_back', 'pop_back_val', 'resize', 'assign', 'shrink_to_fit', 'swap', 'swap2', 'setSize', 'incrSize', 'decrSize',
                   'destroyFreeStorage', 'freeStorage', 'resetToSmall'}

    def __init__(self, report, linit):
        self.report, self.linit = report, linit

    def is_event(self, n):
        return n.get('k') == 'call'

    def event(self, n, s):
        kind, det = R.role(n)
        sn = A.cshort(n)
        if kind == 'check':
            on_this = n.get('obj') is None or A.root(n.get('obj'), self.linit)[0] == 'this' or A.callee(n).endswith('GrowingPolicy::Check')
            if 'mut' in s and on_this:
                self.report(n)
            return [('n', s)]
        mut = kind in ('destroy', 'assign', 'construct', 'commit', 'erase', 'hole_open') or \
            (n.get('method') and n.get('amc') and sn in self.MUT_METHODS and (n.get('obj') is None or A.root(n.get('obj'), self.linit)[0] == 'this'))
        if mut and kind in ('destroy', 'assign', 'construct'):
            # only operations on this container's storage count (not on a local temporary)
            d = R.dest_arg(n) if kind == 'construct' else (n.get('args') or [None])[0]
            from .lifetime import dest_class
            dc = dest_class(d, self.linit, {}) if d is not None else 'unknown'
            mut = dc == 'inline' or (isinstance(dc, tuple) and dc[0] == 'storage' and dc[1] == 'this') or dc == 'unknown' and False
        return [('n', s | {'mut'} if mut else s)]


def check_first(progs):
    rr = RuleResult('CHECK-FIRST', 'in every operation that tests the capacity limit itself (adjustCapacity / Check / reserve / grow on this) the test '
                                   'comes before the first modification of the container on every path: a capacity-limit error leaves contents, size and '
                                   'capacity untouched')
    for prog in progs:
        for f in prog.amc_functions():
            body = f.get('body')
            if body is None or f.get('clsq') not in ('amc::vec::VectorImpl', 'amc::vec::StaticVector', 'amc::vec::DynamicVector', 'amc::Vector'):
                continue
            if not any(R.role(c)[0] == 'check' for c in A.calls(body)):
                continue
            linit = A.local_inits(body)
            sites = {}

            def report(n, sites=sites):
                sites[id(n)] = n
            Engine(CheckFirstClient(report, linit)).run(body, frozenset(), f.get('inits'))
            rr.instance('%s|%s' % (f['key'], prog.uname), {'function': f['pname'][:160], 'checks_after_modification': len(sites)})
            for n in sites.values():
                rr.add(Finding('CHECK-FIRST', '%s|%s' % (f['key'], A.cshort(n)), prog.site(f, n),
                               'the capacity test %s runs after the container has already been modified on some path: if it throws (capacity limit / size_type '
                               'overflow) the contents are not what they were before the call' % A.cshort(n), where=f['pname'], unit=prog.uname))
    return rr


# ====================================================================================== XALLOC
def xalloc(progs):
    rr = RuleResult('XALLOC', 'two vectors exchange their heap buffers only when allocator type and size_type are the same: for every other operand '
                              'combination canSwapDynStorage folds to the constant false in the instantiated program')
    for prog in progs:
        for f in prog.amc_functions():
            if short(f['name']) != 'canSwapDynStorage' or f.get('body') is None or f.get('clsq') not in BASES:
                continue
            own = prog.record(f.get('cls', ''))
            ps = f.get('params', [])
            if own is None or not ps:
                continue
            ot = ps[0]['t'].replace('&', '').replace('const ', '').strip()
            other = prog.record(ot)
            oa = (other or {}).get('targs') or []
            wa = own.get('targs') or []
            if 'StaticVectorBase' in ot:
                same = False
            elif len(oa) >= 3 and len(wa) >= 3:
                same = oa[1] == wa[1] and oa[2] == wa[2]
            else:
                rr.broken = rr.broken or 'XALLOC: cannot read the template arguments of %s / %s' % (f.get('cls'), ot)
                continue
            rets = [n for n in walk(f['body']) if n.get('k') == 'ret']
            folded = bool(rets) and all((A.strip(r.get('e')) or {}).get('cv') in (0, False) or ((A.strip(r.get('e')) or {}).get('k') == 'lit' and (A.strip(r.get('e')) or {}).get('v') is False)
                                        for r in rets)
            ok = same or folded
            rr.instance('%s|%s|%s' % (f['key'], f.get('cls', '')[:90], ot[:90]), {'receiver': f.get('cls', '')[:120], 'operand': ot[:120], 'same_allocator_and_size_type': same,
                                                                                  'folds_to_false': folded, 'ok': ok})
            if not ok:
                rr.add(Finding('XALLOC', '%s|%s' % (f['key'], 'static' if 'StaticVectorBase' in ot else 'dyn'), f['loc'],
                               'canSwapDynStorage does not fold to false for a receiver %s and an operand %s: swap2 would exchange heap buffers between vectors '
                               'whose allocator type or size_type differ (each block is later returned to the wrong allocator / with a count of the wrong type)'
                               % (f.get('cls', '')[:100], ot[:100]), where=f['pname'], unit=prog.uname))
        # who-may-call: inside swap2 the buffers are exchanged only under that predicate
        for f in prog.amc_functions():
            if short(f['name']) != 'swap2_impl' or f.get('body') is None:
                continue
            P = None
            for c in A.calls(f['body']):
                if A.cshort(c) not in ('swapDynStorage', 'SwapDynStorage'):
                    continue
                P = P or A.Parents(f['body'])
                ok = any(truth and any(A.cshort(x) == 'canSwapDynStorage' for x in walk(cond)) and
                         not any(x.get('k') == 'un' and x.get('op') == '!' for x in walk(cond)) for cond, truth in P.guards(c))
                rr.instance('%s|exchange|%s' % (f['key'], prog.uname), {'function': f['pname'][:140], 'guarded_by_canSwapDynStorage': ok})
                if not ok:
                    rr.add(Finding('XALLOC', '%s|unguarded' % f['key'], prog.site(f, c),
                                   'swap2 exchanges the heap buffers outside a branch guarded by canSwapDynStorage', where=f['pname'], unit=prog.uname))
    return rr
