"""Rules added after the fifth seeded round (DESIGN.md 10.11).  Each is a necessary condition of the property it is wired into and looks
at what the code does, not at how it is spelled."""
from ..lib.core import RuleResult, Finding, short, walk, rel
from ..lib import ast as A
from . import roles as R
from .sets import FS, SS, in_class, member_of, is_cmp_call, compare_types, LINEAR_ALGOS

VEC_CLASSES = ('amc::vec::VectorImpl', 'amc::vec::StaticVector', 'amc::vec::DynamicVector', 'amc::Vector')
SVB, STD = 'amc::vec::SmallVectorBase', 'amc::vec::StdVectorBase'


# ------------------------------------------------------------------------------ SIGN-DIFF (C01)
def sign_diff(progs):
    rr = RuleResult('SIGN-DIFF', 'no difference of two unsigned sizes is computed in the (narrower) unsigned type and then widened to a signed type: '
                                 'size() - o.size() wraps before the conversion and the sign of the result is lost')
    for prog in progs:
        for f in prog.amc_functions():
            body = f.get('body')
            if body is None or f.get('clsq') not in VEC_CLASSES + (FS, SS):
                continue
            for n in walk(body):
                if n.get('k') != 'cast':
                    continue
                tw, fw = A.width(n.get('t', '')), A.width(n.get('from', ''))
                t_signed = not n.get('t', '').startswith('unsigned') and 'unsigned' not in n.get('t', '')
                f_unsigned = 'unsigned' in n.get('from', '')
                sub = A.strip(n.get('sub'))
                if tw and fw and tw > fw and t_signed and f_unsigned and isinstance(sub, dict) and sub.get('k') == 'bin' and sub.get('op') == '-' and \
                        any(A.cshort(c) == 'size' for c in A.calls(sub)):
                    rr.add(Finding('SIGN-DIFF', '%s' % f['key'], prog.site(f, n),
                                   'a difference of sizes is computed in %s and converted to %s afterwards: when the left size is the smaller one the '
                                   'difference wraps to a large positive value (comparisons / orderings derived from it are inverted)' % (n.get('from'), n.get('t')),
                                   where=f['pname'], unit=prog.uname))
            if short(f['name']) in ('operator<', 'operator<=', 'operator>', 'operator>=', 'operator<=>', 'compare'):
                rr.instance('%s|%s' % (f['key'], prog.uname), {'function': f['pname'][:140], 'ordering_member': True})
    return rr


# ------------------------------------------------------------------------------ SHIFT-KEEP (C02)
def shift_keep(progs):
    """For element types that are not trivially relocatable shift_right leaves its source slots *alive* (moved-from): the consumers
    (fill_after_shift, copy_after_shift, relocate_after_shift) assign onto them.  It must therefore neither destroy nor relocate."""
    rr = RuleResult('SHIFT-KEEP', 'the overloads of shift_right selected for non trivially relocatable element types leave the vacated slots alive '
                                  '(no destroy, no relocate): their consumers assign onto those slots')
    from .. import gen
    for prog in progs:
        meta = getattr(prog, 'meta', {})
        elem, E = meta.get('elem'), meta.get('E')
        if not elem or elem in gen.RELOC:
            continue
        for f in prog.amc_functions():
            if f['name'] != 'amc::vec::shift_right' or f.get('body') is None or E not in (f.get('targs') or []):
                continue
            in_handler = {id(x) for t in walk(f['body']) if t.get('k') == 'try' for h in t.get('handlers', []) for x in walk(h.get('body') or {})}
            bad = [c for c in A.calls(f['body']) if id(c) not in in_handler and
                   (R.role(c)[0] == 'destroy' or A.cshort(c) in ('uninitialized_relocate', 'uninitialized_relocate_n', 'relocate_at'))]
            rr.instance('%s|%s' % (f['key'], prog.uname), {'function': f['pname'][:140], 'element': E, 'destroys_or_relocates_sources': len(bad)})
            if bad:
                rr.add(Finding('SHIFT-KEEP', '%s' % f['key'], prog.site(f, bad[0]),
                               'shift_right for %s (not trivially relocatable) destroys / relocates the slots it vacates (%s): the consumers assign onto '
                               'destroyed objects and the slots are destroyed a second time later' % (E, A.cshort(bad[0])), where=f['pname'], unit=prog.uname))
    return rr


# ------------------------------------------------------------------------------ EQ-ELEM (C03 / C04)
def eq_elem(progs):
    rr = RuleResult('EQ-ELEM', 'operator== / != of the sets compare elements with the elements\' own operator== (as std::set does), never with the '
                               'ordering comparator: equivalent but different elements are not equal')
    for prog in progs:
        cmps = compare_types(prog)
        for f in prog.amc_functions():
            if f.get('body') is None or not (in_class(f, FS) or in_class(f, SS)) or short(f['name']) not in ('operator==', 'operator!='):
                continue
            reach = prog.reachable(f['id'])
            used = None
            for fid in reach:
                g = prog.fns.get(fid)
                if not g or g.get('body') is None or not g.get('amc'):
                    continue
                for c in A.calls(g['body']):
                    if is_cmp_call(c, cmps) or (c.get('k') == 'call' and A.cshort(c) in ('compRef', 'key_comp', 'value_comp')):
                        used = (g, c)
            rr.instance('%s|%s' % (f['key'], prog.uname), {'function': f['pname'][:140], 'uses_ordering_comparator': used is not None})
            if used:
                rr.add(Finding('EQ-ELEM', '%s' % f['key'], prog.site(used[0], used[1]),
                               '%s decides equality with the ordering comparator: two sets holding different representatives of the same equivalence '
                               'classes compare equal (std::set compares the elements with ==)' % short(f['name']), where=f['pname'], unit=prog.uname))
    return rr


# ------------------------------------------------------------------------------ NEED-SIZE (C05 / C07)
def need_size(progs):
    rr = RuleResult('NEED-SIZE', 'capacity requests are derived from element counts, never from the capacity of another container: copying from a '
                                 'vector that once was large does not make the destination leave its inline storage')
    for prog in progs:
        for f in prog.amc_functions():
            body = f.get('body')
            if body is None or f.get('clsq') not in VEC_CLASSES + (SVB, STD):
                continue
            linit = A.local_inits(body)
            for c in A.calls(body):
                if not (R.role(c)[0] == 'check' or A.cshort(c) == 'reserve') or not c.get('args'):
                    continue
                rr.instance('%s|%s' % (f['key'], rel(prog.site(f, c))), {'function': f['pname'][:140], 'request': A.cshort(c)})
                for x in A.calls({'a': c['args']}):
                    if A.cshort(x) == 'capacity' and x.get('method') and x.get('obj') is not None and A.root(x['obj'], linit)[0] != 'this':
                        rr.add(Finding('NEED-SIZE', '%s|%s' % (f['key'], A.cshort(c)), prog.site(f, c),
                                       '%s is asked for the capacity() of another container: the destination allocates for room the source merely happened to '
                                       'have, although the elements would fit (inline storage left without need)' % A.cshort(c), where=f['pname'], unit=prog.uname))
    return rr


# ------------------------------------------------------------------------------ MAX-SIZE (C07)
def max_size(progs):
    rr = RuleResult('MAX-SIZE', 'max_size() of the dynamic vectors is the maximum of their size_type (the bound SafeNextCapacity clamps at), of the fixed '
                                'ones their capacity: capacity() <= max_size() always')
    for prog in progs:
        for f in prog.amc_functions():
            if f.get('body') is None or f.get('clsq') not in VEC_CLASSES or short(f['name']) != 'max_size':
                continue
            rets = [n for n in walk(f['body']) if n.get('k') == 'ret' and n.get('e') is not None]
            w = A.width(f.get('ret') or '')
            ok = bool(rets)
            for r in rets:
                e = A.strip(r['e'])
                is_cap = e.get('k') == 'call' and A.cshort(e) == 'capacity'
                unsigned = 'unsigned' in (f.get('ret') or '')
                is_max = w and e.get('cv') is not None and int(e['cv']) == ((1 << w) - 1 if unsigned else (1 << (w - 1)) - 1)
                ok = ok and (is_cap or is_max)
            rr.instance('%s|%s' % (f['key'], prog.uname), {'function': f['pname'][:140], 'is_size_type_max_or_capacity': ok})
            if not ok:
                rr.add(Finding('MAX-SIZE', '%s' % f['key'], f['loc'],
                               'max_size() is neither numeric_limits<size_type>::max() nor capacity(): growth is clamped at the size_type maximum, so '
                               'capacity() (and size()) can exceed what max_size() reports', where=f['pname'], unit=prog.uname))
    return rr


# ------------------------------------------------------------------------------ RANGE-MEASURE (C08)
def range_measure(progs):
    """A multi-pass range is measured and the capacity limit tested once, before anything is modified; only single-pass input
    iterators may be appended one by one."""
    rr = RuleResult('RANGE-MEASURE', 'the range members (assign / insert / append of [first, last)) instantiated with a multi-pass iterator test the capacity '
                                     'limit for the whole range up front (one capacity check, no element-by-element loop of checked appends)')
    for prog in progs:
        for f in prog.amc_functions():
            body = f.get('body')
            if body is None or f.get('clsq') != 'amc::vec::VectorImpl' or short(f['name']) not in ('assign_range', 'insert_range', 'append_range'):
                continue
            its = [p['t'] for p in f.get('params', []) if 'arch::FwdIt' in p['t'] or 'arch::BidirIt' in p['t'] or p['t'].rstrip().endswith('*')]
            tag = (f.get('params') or [{}])[-1].get('t', '')
            if not its or 'iterator_tag' not in tag:
                continue
            multipass = not any('arch::InputIt' in p['t'] for p in f.get('params', []))
            if not multipass:
                continue
            has_check = any(R.role(c)[0] == 'check' for c in A.calls(body))
            delegates_single = [c for c in A.calls(body) if A.cshort(c) in ('append_range', 'assign_range', 'insert_range') and (c.get('args') or [{}])[-1].get('t', '').endswith('input_iterator_tag')]
            loops_appending = [c for c in A.calls(body) if A.cshort(c) in ('emplace_back', 'push_back') and A.Parents(body).in_loop(c) is not None]
            ok = 'input_iterator_tag' not in tag and has_check and not delegates_single and not loops_appending
            rr.instance('%s|%s|%s' % (f['key'], tag[-26:], prog.uname), {'function': f['pname'][:150], 'selected_overload': tag, 'measures_and_checks_once': ok})
            if not ok:
                rr.add(Finding('RANGE-MEASURE', '%s|%s' % (f['key'], 'single-pass' if 'input_iterator_tag' in tag else 'loop'), f['loc'],
                               '%s of a multi-pass range (%s) %s: the capacity limit is hit in the middle of the operation, after elements were already '
                               'appended (and, for append, the strong guarantee is lost)'
                               % (short(f['name']), its[0][:60], 'selects the single-pass overload' if 'input_iterator_tag' in tag else 'appends element by element'),
                               where=f['pname'], unit=prog.uname))
    return rr


# ------------------------------------------------------------------------------ ERASE-RET (C11)
def erase_ret(progs):
    rr = RuleResult('ERASE-RET', 'in the inline state SmallSet::erase(position / range) returns what the erase of the inline vector returned (the elements '
                                 'after the erased ones have moved: the old `last` designates something else)')
    from .shape import unwrap_cond
    for prog in progs:
        for f in prog.amc_functions():
            body = f.get('body')
            if body is None or not in_class(f, SS) or short(f['name']) != 'erase' or not ('Iterator' in (f.get('ret') or '') or (f.get('ret') or '').rstrip().endswith('*')):
                continue
            linit = A.local_inits(body)
            lvals = A.local_values(body)
            P = A.Parents(body)
            for r in [n for n in walk(body) if n.get('k') == 'ret' and n.get('e') is not None]:
                small = None
                for cond, truth in P.guards(r):
                    cn, neg = unwrap_cond(cond)
                    if isinstance(cn, dict) and cn.get('k') == 'call' and A.callee(cn) == SS + '::isSmall':
                        small = (truth != neg)
                if small is False:
                    continue          # large-state return: ITER-ALT's business
                if small is None and not any(A.cshort(y) == 'erase' and member_of(y, linit) == ('this', '_vec') for y in A.calls(body)):
                    continue

                def from_vec_erase(x, depth=0):
                    for y in walk(x):
                        if y.get('k') == 'call' and A.cshort(y) == 'erase' and member_of(y, linit) == ('this', '_vec'):
                            return True
                        if depth < 3 and y.get('k') == 'ref' and y.get('dk') == 'local' and any(from_vec_erase(v, depth + 1) for v in lvals.get(y.get('did'), [])):
                            return True
                    return False
                ok = from_vec_erase(r['e'])
                rr.instance('%s|%s' % (f['key'], rel(prog.site(f, r))), {'function': f['pname'][:140], 'returns_result_of_vector_erase': ok})
                if not ok:
                    rr.add(Finding('ERASE-RET', '%s' % f['key'], prog.site(f, r),
                                   'in the inline state erase does not return the iterator the inline vector\'s erase returned: after the tail has shifted left '
                                   'the iterator handed back designates the wrong element, or no element', where=f['pname'], unit=prog.uname))
    return rr


# ------------------------------------------------------------------------------ SWAP-WHO (C13)
def swap_who(progs):
    rr = RuleResult('SWAP-WHO', 'swap_impl (the exchange that assumes both operands have the same inline capacity N) is only called with operands whose '
                                'static type carries N (amc::Vector<..., N>), or by the storage bases themselves')
    for prog in progs:
        for f in prog.amc_functions():
            body = f.get('body')
            if body is None:
                continue
            for c in A.calls(body):
                if A.cshort(c) != 'swap_impl' or not c.get('amc'):
                    continue
                arg_t = (A.strip((c.get('args') or [{}])[0]) or {}).get('t', '') if c.get('args') else ''
                param_ok = any(p['t'].startswith('amc::Vector<') for p in f.get('params', [])) or f.get('clsq') in (SVB, STD, 'amc::vec::StaticVectorBase')
                rr.instance('%s|%s' % (f['key'], rel(prog.site(f, c))), {'function': f['pname'][:140], 'operand_type_carries_N': param_ok})
                if not param_ok:
                    rr.add(Finding('SWAP-WHO', '%s' % f['key'], prog.site(f, c),
                                   'swap_impl is called with an operand of type %s, which does not determine the inline capacity: two vectors of different N '
                                   'exchange their inline encodings / overflow the smaller buffer without any capacity check' % (f.get('params') or [{}])[0].get('t', '?')[:90],
                                   where=f['pname'], unit=prog.uname))
    return rr


# ------------------------------------------------------------------------------ DIRECT-INIT (C15 / C16)
def direct_init(progs):
    rr = RuleResult('DIRECT-INIT', 'the construct_at emulation direct-initialises, `::new (p) T(args...)`, like std::construct_at: no list-initialisation '
                                   '(which would prefer initializer_list constructors and reject narrowing)')
    for prog in progs:
        for f in prog.amc_functions():
            if f.get('body') is None or not f['name'].startswith('amc::memory_details::construct_at'):
                continue
            for n in walk(f['body']):
                if n.get('k') == 'new' and n.get('reserved_placement'):
                    ok = n.get('style') != 'list'
                    rr.instance('%s|%s|%s' % (f['key'], rel(prog.site(f, n)), prog.uname), {'function': f['pname'][:140], 'initialisation': n.get('style')})
                    if not ok:
                        rr.add(Finding('DIRECT-INIT', '%s' % f['key'], prog.site(f, n),
                                       'the construct_at emulation list-initialises (`T{args...}`): for a type with an initializer_list constructor a different '
                                       'constructor than std::construct_at\'s `T(args...)` is selected (C++20 builds use std::construct_at)', where=f['pname'], unit=prog.uname))
    return rr


# ------------------------------------------------------------------------------ SHRINK-EMPTY (C18)
def shrink_all(progs):
    rr = RuleResult('SHRINK-ALL', 'shrink_to_fit of amc::vector reduces the capacity to size() whenever they differ - no further condition (an emptied '
                                  'vector gives its block back)')
    from .shape import unwrap_cond
    from .config import const_value
    for prog in progs:
        for f in prog.amc_functions():
            if f['name'] != STD + '::shrink_impl' or f.get('body') is None:
                continue
            P = A.Parents(f['body'])
            calls = [c for c in A.calls(f['body']) if A.cshort(c) == 'shrink' and c.get('method')]
            ok = bool(calls)
            for c in calls:
                for cond, truth in P.guards(c):
                    cn, neg = unwrap_cond(cond)
                    is_ne = isinstance(cn, dict) and cn.get('k') == 'bin' and cn.get('op') in ('!=', '==', '<', '>') and \
                        any(x.get('k') == 'mem' and x.get('name') == '_size' for x in walk(cn)) and any(x.get('k') == 'mem' and x.get('name') == '_capa' for x in walk(cn))
                    if not is_ne and const_value(cond) is None:
                        ok = False
            rr.instance('%s|%s' % (f['key'], prog.uname), {'function': f['pname'][:140], 'shrinks_whenever_size_differs_from_capacity': ok})
            if not ok:
                rr.add(Finding('SHRINK-ALL', '%s' % f['key'], f['loc'],
                               'shrink_impl reallocates only under a further condition than size != capacity: some vectors (e.g. emptied ones) keep their block '
                               'after shrink_to_fit', where=f['pname'], unit=prog.uname))
    return rr


# ------------------------------------------------------------------------------ ONE-SCAN (C19)
def one_scan(progs):
    rr = RuleResult('ONE-SCAN', 'every SmallSet operation that looks a key up in the inline vector scans it at most once on any path (2 comparator calls '
                                'per element: <= 2N + 2)')
    for prog in progs:
        for f in prog.amc_functions():
            body = f.get('body')
            if body is None or not in_class(f, SS) or f.get('access') != 'public' or f.get('lambda'):
                continue

            def scans_in(g, depth=0):
                """max number of inline scans on one path of g, following SmallSet members one level."""
                def is_scan(x):
                    return x.get('k') == 'call' and (A.callee(x) in LINEAR_ALGOS and any(y.get('name') == '_vec' for y in walk({'a': x.get('args', [])})))
                own = A.max_count(g['body'], is_scan)
                if depth >= 2:
                    return own
                # calls to other members: add their own maximum (upper bound: on one path at most the sum over the calls on that path)
                def via(x):
                    return x.get('k') == 'call' and x.get('amc') and A.callee(x).startswith(SS + '::') and x.get('fn') in prog.fns and prog.fns[x['fn']].get('body') is not None \
                        and x['fn'] != g['id']
                memo = {}

                def weight(x):
                    if is_scan(x):
                        return 1
                    if via(x):
                        if x['fn'] not in memo:
                            memo[x['fn']] = scans_in(prog.fns[x['fn']], depth + 1)
                        return memo[x['fn']]
                    return 0
                return _max_weight(g['body'], weight)
            m = scans_in(f)
            if m == 0:
                continue
            in_loop = short(f['name']) in ('merge', 'insert') and any(x.get('k') in A.LOOPS for x in walk(body))
            rr.instance('%s|%s' % (f['key'], prog.uname), {'function': f['pname'][:140], 'inline_scans_on_one_path': m})
            if m > 1 and not in_loop:
                rr.add(Finding('ONE-SCAN', '%s' % f['key'], f['loc'],
                               '%s scans the inline vector %d times on one path: up to %dN comparator calls where the inline bound is 2N + 2'
                               % (short(f['name']), m, 2 * m), where=f['pname'], unit=prog.uname))
    return rr


def _max_weight(node, weight):
    if isinstance(node, list):
        return sum(_max_weight(x, weight) for x in node)
    if not isinstance(node, dict):
        return 0
    kd = node.get('k')
    own = weight(node)
    if kd == 'if':
        return own + _max_weight(node.get('init'), weight) + _max_weight(node.get('c'), weight) + max(_max_weight(node.get('then'), weight), _max_weight(node.get('else'), weight))
    if kd == 'cond':
        return own + _max_weight(node.get('c'), weight) + max(_max_weight(node.get('a'), weight), _max_weight(node.get('b'), weight))
    tot = own
    for key, v in node.items():
        if isinstance(v, (dict, list)):
            tot += _max_weight(v, weight)
    return tot


# ------------------------------------------------------------------------------ CTOR-FWD (C15 / C16)
def ctor_fwd(progs):
    """amc::construct_at(p, args...) is `::new (p) T(std::forward<Args>(args)...)`: the constructor is selected by the value category of
    the arguments.  The driver constructs arch::ThreeWay from a non-const lvalue, a const lvalue and an rvalue and arch::Greedy (perfect
    forwarding constructor) from a non-const lvalue; each instantiation must reach exactly the constructor the standard one selects."""
    rr = RuleResult('CTOR-FWD', 'construct_at forwards the value category of its arguments: a non-const lvalue selects T(T&) / the forwarding '
                                'constructor, a const lvalue T(const T&), an rvalue T(T&&) - in every language standard')
    want = {('arch::ThreeWay', 'arch::ThreeWay &'): 'arch::ThreeWay &', ('arch::ThreeWay', 'const arch::ThreeWay &'): 'const arch::ThreeWay &',
            ('arch::ThreeWay', 'arch::ThreeWay'): 'arch::ThreeWay &&', ('arch::Greedy', 'arch::Greedy &'): 'arch::Greedy &'}
    for prog in progs:
        for f in prog.fns.values():
            if f.get('name') not in ('amc::construct_at', 'std::construct_at') or not f.get('targs'):
                continue
            ta = tuple(t.strip().strip('<>').strip() for t in f['targs'][:2])
            if ta not in want:
                continue
            ctors = set()
            for fid in prog.reachable(f['id']):
                g = prog.fns.get(fid)
                if g and g.get('kind') == 'ctor' and g.get('cls') == ta[0] and g.get('params'):
                    ctors.add(g['params'][0]['t'])
            ok = ctors == {want[ta]}
            rr.instance('%s|%s|%s' % (ta[0], ta[1], prog.uname), {'constructed': ta[0], 'argument': ta[1], 'constructors_reached': sorted(ctors), 'expected': want[ta], 'ok': ok})
            if not ok:
                rr.add(Finding('CTOR-FWD', 'construct_at|%s|%s' % ta, f['loc'],
                               'construct_at<%s>(p, %s) reaches the constructor(s) taking %s, std::construct_at selects the one taking %s: the value category of '
                               'the argument is not forwarded' % (ta[0], ta[1], sorted(ctors) or 'none (bytes copied)', want[ta]), where=f['pname'], unit=prog.uname))
    return rr
