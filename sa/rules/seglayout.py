"""SEG-LAYOUT: array-segmentation abstract interpretation of the element-moving members of the vector classes (DESIGN.md 10.12).

For every public member of the vector classes that inserts, removes or replaces elements, the instantiated body is interpreted over an
abstract storage: a partition of the slot indices [0, oo) into segments whose bounds are linear forms over the symbols

    N  size() on entry          P  index of the position argument (0 <= P <= N)        L  index of `last` (erase: P <= L <= N)
    C  the count argument       D  std::distance(first, last) of a multi-pass range     K  capacity() on entry (K >= N)

and whose content says what every slot of the segment holds:

    old(d)   the element that was at index (slot - d) on entry, alive          new(b)   element number (slot - b) of the source range
    val      a copy of the value argument / the emplaced element               vinit    a value-initialised element
    mf       an alive, moved-from object (unspecified value)                   raw      no object

Helpers of amc::vec (shift_right, fill_after_shift, erase_n, emplace_n, ...) and members called on `this` are *inlined*; the memory
algorithms (std:: / amc:: uninitialized_move_n, move_backward, fill_n, destroy_n, construct_at, uninitialized_relocate_n, ...) are the
primitive transformers, each with its precondition on the slots it touches (construct needs raw, assign / destroy / read need alive, the
direction of an overlapping assignment must not overwrite unread sources).  Branch conditions that are linear comparisons are decided by
the constraint store (Fourier-Motzkin elimination) or split the path; counted loops whose body moves its cursors by one are accelerated
after two probe iterations.  At every normal exit the storage must be exactly the std::vector result:

    insert(pos, n, v):  old(0) on [0,P) . val on [P,P+C) . old(C) on [P+C,N+C) . raw            size() == N + C          etc.

so a wrong count, a wrong bound, an off-by-one, a missing or doubled destroy, a fill of the wrong part, a stale `end()` ... all end as a
finding for every N, P, C at once.  Only normal paths are walked here (the exceptional ones are C09's HOLE / CLOSER / DEAD-TAIL).
Nothing is executed; a body the interpreter cannot read ends ANALYSIS-BROKEN."""
from math import gcd
from ..lib.core import RuleResult, Finding, short
from ..lib import ast as A

CLASSES = ('amc::vec::VectorImpl', 'amc::vec::StaticVector', 'amc::vec::DynamicVector', 'amc::Vector')
BEGIN = {'begin', 'cbegin', 'dynStorage', 'data', 'mbegin'}
END = {'end', 'cend', 'mend'}
TOP = ('top',)
RAW, MF, VAL, VINIT = ('raw',), ('mf',), ('val',), ('vinit',)


class Unknown(Exception):
    pass


class Split(Exception):
    def __init__(self, k):
        Exception.__init__(self)
        self.k = k


class Infeasible(Exception):
    pass


class Violation(Exception):
    def __init__(self, msg, node=None):
        Exception.__init__(self, msg)
        self.node = node


class _Thrown(Exception):
    pass


class _Ret(Exception):
    def __init__(self, v):
        Exception.__init__(self)
        self.v = v


# ---------------------------------------------------------------- linear forms and the constraint store

def ladd(a, b, sign=1):
    out = dict(a)
    for k, v in b.items():
        out[k] = out.get(k, 0) + sign * v
        if not out[k]:
            del out[k]
    return out


def lconst(c):
    return {'': c} if c else {}


def lneg(a):
    return {k: -v for k, v in a.items()}


def fmt(x):
    if x is None:
        return 'oo'
    out = []
    for k, v in sorted(x.items(), key=lambda kv: (kv[0] == '', kv[0])):
        if k == '':
            out.append('%+d' % v)
        elif v == 1:
            out.append('+' + k)
        elif v == -1:
            out.append('-' + k)
        else:
            out.append('%+d%s' % (v, k))
    s = ''.join(out) or '0'
    return s[1:] if s.startswith('+') else s


_SAT_CACHE = {}


def sat(cons):
    """Is the conjunction of `form >= 0` satisfiable?  Fourier-Motzkin elimination over the rationals, with the constants rounded down
    to integers after dividing by the gcd of the coefficients (the variables are integers).  Memoised."""
    key = frozenset(tuple(sorted(c.items())) for c in cons)
    r = _SAT_CACHE.get(key)
    if r is None:
        r = _SAT_CACHE[key] = _sat([dict(k) for k in key])
    return r


def _sat(cons):
    work = []
    for c in cons:
        if set(c) <= {''}:
            if c.get('', 0) < 0:
                return False
            continue
        work.append(_normv(c))
    cons = work
    while True:
        vars_ = {}
        for c in cons:
            for k in c:
                if k:
                    vars_[k] = vars_.get(k, 0) + 1
        if not vars_:
            return True
        # cheapest variable first
        best, cost = None, None
        for x in vars_:
            p_ = sum(1 for c in cons if c.get(x, 0) > 0)
            n_ = sum(1 for c in cons if c.get(x, 0) < 0)
            if cost is None or p_ * n_ < cost:
                best, cost = x, p_ * n_
        x = best
        pos, neg, rest = [], [], []
        for c in cons:
            a = c.get(x, 0)
            (pos if a > 0 else neg if a < 0 else rest).append(c)
        seen = set(tuple(sorted(c.items())) for c in rest)
        new = list(rest)
        for p in pos:
            for q in neg:
                a, b = p[x], -q[x]
                r = {}
                for k, v in p.items():
                    if k != x:
                        r[k] = r.get(k, 0) + v * b
                for k, v in q.items():
                    if k != x:
                        r[k] = r.get(k, 0) + v * a
                r = {k: v for k, v in r.items() if v != 0}
                if set(r) <= {''}:
                    if r.get('', 0) < 0:
                        return False
                    continue
                r = _normv(r)
                kk = tuple(sorted(r.items()))
                if kk not in seen:
                    seen.add(kk)
                    new.append(r)
        # keep, for identical variable parts, only the tightest constant
        tight = {}
        for c in new:
            vp = tuple(sorted((k, v) for k, v in c.items() if k))
            cst = c.get('', 0)
            if vp not in tight or cst < tight[vp]:
                tight[vp] = cst
        cons = []
        for vp, cst in tight.items():
            d = dict(vp)
            if cst:
                d[''] = cst
            cons.append(d)
        if len(cons) > 600:
            raise Unknown('constraint store too large')


def _normv(c):
    g = 0
    for k, v in c.items():
        if k:
            g = gcd(g, abs(v))
    if g > 1:
        c = {k: (v // g) for k, v in c.items()}      # floor division of the constant too: integer tightening
    return c


# ---------------------------------------------------------------- the abstract storage

def shift_content(c, d):
    if c[0] in ('old', 'new'):
        return (c[0], tuple(sorted(ladd(dict(c[1]), d).items())))
    return c


def old(d=None):
    return ('old', tuple(sorted((d or {}).items())))


def new(b):
    return ('new', tuple(sorted(b.items())))


def cfmt(c):
    if c[0] == 'old':
        d = dict(c[1])
        return 'old' if not d else 'old(shifted by %s)' % fmt(d)
    if c[0] == 'new':
        return 'range element (slot - (%s))' % fmt(dict(c[1]))
    return {'raw': 'raw memory', 'mf': 'moved-from object', 'val': 'copy of the value', 'vinit': 'value-initialised element'}[c[0]]


def alive(c):
    return c[0] != 'raw'


class Machine:
    trivial_default = False
    """One path of one entry point.  `trail` holds the decisions already taken on this path (restart-based case splitting)."""

    def __init__(self, prog, f, E, trail):
        self.prog, self.f, self.E = prog, f, E
        self.trail, self.tpos = trail, 0
        self.cons = []
        self.bounds = [{}]                 # lower bounds of the segments; the last segment extends to infinity
        self.cont = [RAW]
        self.size = {}
        self.depth = 0
        self.cur = None                    # node being interpreted (for the finding site)
        self.frames = []                   # functions being inlined
        self.nsym = 0
        self.memalg = False
        self.obj = None
        self.words = {}                    # two-storage members: the `_size` words of this and of the other vector
        from .. import gen
        self.trivial = prog.meta.get('elem') in gen.TRIV_COPY

    # ---- decisions
    def assume(self, c):
        self.cons.append(c)

    def feasible(self, cs):
        return sat(self.cons + cs)

    def choose(self, alts):
        """alts: list of (tag, [constraints]).  Returns the tag of the alternative this path takes."""
        ok = [(t, cs) for t, cs in alts if self.feasible(cs)]
        if not ok:
            raise Infeasible()
        if len(ok) == 1:
            return ok[0][0]                # the only feasible alternative: already implied by the store (the alternatives are exhaustive)
        else:
            if self.tpos >= len(self.trail):
                raise Split(len(ok))
            t, cs = ok[self.trail[self.tpos]]
            self.tpos += 1
        self.cons += cs
        return t

    def compare(self, a, b):
        """-1 / 0 / 1 for a < b / a == b / a > b (b None: infinity)."""
        if b is None:
            return -1
        d = ladd(a, b, -1)
        if not d:
            return 0
        if set(d) == {''}:
            return (d[''] > 0) - (d[''] < 0)
        return self.choose([(-1, [ladd(lneg(d), lconst(-1))]), (0, [d, lneg(d)]), (1, [ladd(d, lconst(-1))])])

    def entails_eq(self, a, b):
        d = ladd(a, b, -1)
        return not d or (not self.feasible([ladd(d, lconst(-1))]) and not self.feasible([ladd(lneg(d), lconst(-1))]))

    # ---- segments
    def split_at(self, x):
        """Index of the segment that starts at x (created if needed)."""
        i = 0
        while True:
            nxt = self.bounds[i + 1] if i + 1 < len(self.bounds) else None
            c = self.compare(x, self.bounds[i])
            if c == 0:
                # several (empty) segments may start here: take the last one so that [x, ...) starts with real content
                j = i
                while j + 1 < len(self.bounds) and self.entails_eq(self.bounds[j + 1], x):
                    j += 1
                return j
            if c < 0:
                raise Violation('a slot before begin() is accessed (index %s)' % fmt(x), self.cur)
            if self.compare(x, nxt) < 0:
                self.bounds.insert(i + 1, dict(x))
                self.cont.insert(i + 1, self.cont[i])
                return i + 1
            i += 1

    def pieces(self, lo, hi):
        """Non-empty pieces (lo, hi, content) of [lo, hi); hi None = infinity."""
        c = self.compare(lo, hi)
        if c > 0:
            raise Violation('a range with a negative length is accessed: [%s, %s)' % (fmt(lo), fmt(hi)), self.cur)
        if c == 0:
            return []
        i = self.split_at(lo)
        j = self.split_at(hi) if hi is not None else len(self.bounds)
        out = []
        for k in range(i, j):
            a = self.bounds[k]
            b = self.bounds[k + 1] if k + 1 < len(self.bounds) else None
            if b is not None and self.compare(a, b) == 0:
                continue
            out.append((a, b, self.cont[k]))
        return out

    def write(self, lo, hi, content):
        if self.compare(lo, hi) == 0:
            return
        i = self.split_at(lo)
        j = self.split_at(hi)
        # segments i..j-1 are replaced by one
        del self.bounds[i + 1:j]
        del self.cont[i + 1:j]
        self.cont[i] = content

    def need(self, lo, hi, want_alive, what):
        if self.trivial:
            return                         # trivially copyable elements: no constructor / destructor to pair, any slot may be overwritten
        for a, b, c in self.pieces(lo, hi):
            if want_alive and not alive(c):
                raise Violation('%s: slots [%s, %s) hold no object (raw memory)' % (what, fmt(a), fmt(b)), self.cur)
            if not want_alive and alive(c):
                raise Violation('%s: slots [%s, %s) already hold objects (%s) - they would be overwritten without being destroyed'
                                % (what, fmt(a), fmt(b), cfmt(c)), self.cur)

    def count(self, n, what):
        c = self.compare(n, {})
        if c < 0:
            raise Violation('%s with a negative count (%s)' % (what, fmt(n)), self.cur)
        return c

    # ---- range transformers
    def transfer(self, s, n, t, mode, what, backward=False):
        """Move / relocate / copy the elements of [s, s+n) to [t, t+n).  mode: 'umove' (construct from rvalue), 'reloc', 'amove' (assign
        from rvalue), 'acopy', 'ucopy'."""
        if self.count(n, what) == 0:
            return
        d = ladd(t, s, -1)
        src = self.pieces(s, ladd(s, n))
        for a, b, c in src:
            if not alive(c):
                raise Violation('%s reads slots [%s, %s) which hold no object' % (what, fmt(a), fmt(b)), self.cur)
        if mode == 'amove' and self.compare(t, s) == 0:
            raise Violation('%s move-assigns the %s elements of [%s, %s) onto themselves' % (what, fmt(n), fmt(s), fmt(ladd(s, n))), self.cur)
        if mode in ('amove', 'acopy') and d:
            # direction: an ascending assignment must not start inside the source range, a descending one must not end inside it
            cmp_ = self.compare(t, s)
            if not backward and cmp_ > 0 and self.compare(t, ladd(s, n)) < 0:
                raise Violation('%s assigns forwards onto a destination that starts inside the source range: sources are overwritten before they are read' % what, self.cur)
            if backward and cmp_ < 0 and self.compare(ladd(t, n), s) > 0:
                raise Violation('%s assigns backwards onto a destination that ends inside the source range: sources are overwritten before they are read' % what, self.cur)
        if mode in ('umove', 'amove'):
            for a, b, c in src:
                self.write(a, b, MF)
        elif mode == 'reloc':
            for a, b, c in src:
                self.write(a, b, RAW)
        self.need(t, ladd(t, n), mode in ('amove', 'acopy'), what + ' (destination)')
        for a, b, c in src:
            self.write(ladd(a, d), ladd(b, d), shift_content(c, d))

    def fill(self, t, n, content, assign, what):
        if self.count(n, what) == 0:
            return
        self.need(t, ladd(t, n), assign, what)
        self.write(t, ladd(t, n), content)

    def destroy(self, t, n, what):
        if self.count(n, what) == 0:
            return
        self.need(t, ladd(t, n), True, what)
        self.write(t, ladd(t, n), RAW)

    def realloc(self, what):
        for a, b, c in self.pieces(self.size, None):
            if alive(c) and not self.trivial:
                raise Violation('%s while slots [%s, %s) beyond size() hold objects (%s): a reallocation carries only [0, size()) over'
                                % (what, fmt(a), fmt(b), cfmt(c)), self.cur)


class Frame:
    def __init__(self, f):
        self.f, self.env = f, {}


class Interp:
    def __init__(self, m):
        self.m = m
        self.probe = None

    # ------------------------------------------------------------ expressions
    def key(self, n):
        n = A.strip(n)
        if isinstance(n, dict) and n.get('k') == 'ref':
            if n.get('dk') == 'param':
                return ('p', n.get('idx'))
            if n.get('dk') == 'local':
                return ('l', n.get('did'))
        return None

    def is_this(self, obj):
        return obj is None or A.root(obj, {})[0] == 'this'

    def is_elem_t(self, t):
        t = (t or '').replace('const ', '').replace('&', '').strip()
        return t == self.m.E

    def ev(self, n, fr):
        n = A.strip(n)
        if not isinstance(n, dict):
            return TOP
        m = self.m
        m.cur = n if n.get('l') else m.cur
        k = n.get('k')
        if k == 'ref':
            kk = self.key(n)
            return fr.env.get(kk, TOP) if kk else TOP
        if k == 'lit':
            v = n.get('v')
            if isinstance(v, bool):
                return ('int', lconst(int(v)))
            if isinstance(v, int):
                return ('int', lconst(v))
            return TOP
        if k == 'this':
            return ('this',)
        if k == 'paren':
            return self.ev(n.get('sub'), fr)
        if k == 'bin':
            return self.binop(n, fr)
        if k == 'un':
            return self.unop(n, fr)
        if k == 'cond':
            t = self.cond(n.get('c'), fr)
            return self.ev(n.get('a') if t else n.get('b'), fr)
        if k == 'call':
            return self.call(n, fr)
        if k == 'construct':
            vals = [self.ev(a, fr) for a in n.get('args', []) or []]
            if 'std::pair' in (n.get('cls') or n.get('t') or '') and len(vals) == 2:
                return ('pair', vals[0], vals[1])
            if self.is_elem_t(n.get('t')) or self.is_elem_t(n.get('cls')):
                if len(vals) == 1 and vals[0][0] == 'xelem':
                    self.moved_from(vals[0])
                if not vals:
                    return ('vinitval',)
                return VAL
            if len(vals) == 1 and vals[0][0] in ('src', 'ptr', 'int', 'mptr', 'pair'):
                return vals[0]
            return TOP
        if k == 'new' and n.get('placement'):
            t = self.ev(n['placement'][0], fr)
            if t[0] != 'ptr':
                raise Unknown('placement new at a pointer the interpreter does not follow')
            if self.probe is not None:
                self.probe.append(('construct', t[1], ('vinitval',)))
            else:
                m.fill(t[1], lconst(1), VINIT, False, 'placement new at %s' % fmt(t[1]))
            return t
        if k == 'valueinit':
            return ('vinitval',)
        if k == 'mem' and n.get('name') in ('first', 'second') and not n.get('field_of_this'):
            b = self.ev(n.get('base'), fr)
            if b[0] == 'pair':
                return b[1] if n['name'] == 'first' else b[2]
        if k == 'mem':
            w = self.word(n, fr)
            if w is not None:
                return ('int', dict(self.m.words[w]))
            self.ev(n.get('base'), fr)
            return TOP
        if k == 'idx':
            b, i = self.ev(n.get('base'), fr), self.ev(n.get('index') or n.get('idx'), fr)
            if b[0] == 'ptr' and i[0] == 'int':
                return ('elem', ladd(b[1], i[1]))
            return TOP
        for key in ('sub', 'lhs', 'rhs', 'base', 'obj'):
            if isinstance(n.get(key), dict):
                self.ev(n[key], fr)
        for a in n.get('args', []) or []:
            self.ev(a, fr)
        return TOP

    def word(self, n, fr):
        """'this' / 'other' if n designates the `_size` word of this vector / of the other vector (two-storage members), else None."""
        n = A.strip(n)
        if not self.m.words or not isinstance(n, dict) or n.get('k') != 'mem' or n.get('name') != '_size' or not n.get('field'):
            return None
        kind, r = A.root(n.get('base'), {})
        if kind == 'this':
            return 'this'
        if kind == 'param' and fr.env.get(('p', r.get('idx'))) == ('othervec',):
            return 'other'
        return None

    def moved_from(self, v):
        """The value of slot v was moved out (by a constructor): the slot stays alive with an unspecified value."""
        if self.probe is not None:
            self.probe.append(('mf', v[1]))
            return
        self.m.need(v[1], ladd(v[1], lconst(1)), True, 'a move from a slot')
        self.m.write(v[1], ladd(v[1], lconst(1)), MF)

    def binop(self, n, fr):
        op = n.get('op')
        if op == ',':
            self.ev(n.get('lhs'), fr)
            return self.ev(n.get('rhs'), fr)
        if op in ('=', '+=', '-='):
            return self.assign(n.get('lhs'), n.get('rhs'), fr, op)
        if op in ('<', '>', '<=', '>=', '==', '!=', '&&', '||'):
            return ('int', lconst(1 if self.cond(n, fr) else 0))
        a, b = self.ev(n.get('lhs'), fr), self.ev(n.get('rhs'), fr)
        if op in ('+', '-'):
            s = 1 if op == '+' else -1
            if a[0] in ('ptr', 'src') and b[0] == 'int':
                return (a[0], ladd(a[1], b[1], s))
            if a[0] == 'int' and b[0] in ('ptr', 'src') and op == '+':
                return (b[0], ladd(b[1], a[1]))
            if a[0] == b[0] and a[0] in ('ptr', 'src') and op == '-':
                return ('int', ladd(a[1], b[1], -1))
            if a[0] == 'int' and b[0] == 'int':
                return ('int', ladd(a[1], b[1], s))
            return TOP
        if op == '*' and a[0] == 'int' and b[0] == 'int':
            if set(a[1]) <= {''}:
                return ('int', {k: v * a[1].get('', 0) for k, v in b[1].items() if v * a[1].get('', 0)})
            if set(b[1]) <= {''}:
                return ('int', {k: v * b[1].get('', 0) for k, v in a[1].items() if v * b[1].get('', 0)})
        return TOP

    def store_var(self, lhs, v, fr):
        kk = self.key(lhs)
        if kk is None:
            return False
        fr.env[kk] = v
        return True

    def assign(self, lhs, rhs, fr, op='='):
        l = A.strip(lhs)
        kk = self.key(l)
        if kk is not None:
            v = self.ev(rhs, fr)
            if op != '=':
                cur = fr.env.get(kk, TOP)
                if cur[0] in ('ptr', 'src', 'int') and v[0] == 'int':
                    v = (cur[0], ladd(cur[1], v[1], 1 if op == '+=' else -1))
                else:
                    v = TOP
            fr.env[kk] = v
            return v
        w = self.word(lhs, fr)
        if w is not None:
            v = self.ev(rhs, fr)
            if v[0] != 'int' or op != '=':
                raise Unknown('size word assigned a value the interpreter does not follow')
            self.no_probe('store to a size word')
            self.m.words[w] = dict(v[1])
            return v
        src = self.ev(rhs, fr)
        dst = self.ev(lhs, fr)
        if dst[0] in ('elem', 'xelem'):
            self.elem_assign(dst[1], src)
            return dst
        if dst[0] == 'tmpelem':
            if src[0] == 'xelem':
                self.moved_from(src)
            return dst
        return TOP

    def content_of(self, slot, src):
        """Content that slot gets from a source value."""
        if src[0] == 'srcelem':
            return new(ladd(slot, src[1], -1))
        if src[0] in ('val', 'tmpelem', 'xtmpelem'):
            return VAL
        if src[0] == 'vinitval':
            return VINIT
        return None

    def elem_assign(self, slot, src):
        one = lconst(1)
        if self.probe is not None:
            self.probe.append(('assign', slot, src))
            return
        m = self.m
        if src[0] in ('elem', 'xelem'):
            m.transfer(src[1], one, slot, 'amove' if src[0] == 'xelem' else 'acopy', 'element assignment')
            return
        c = self.content_of(slot, src)
        if c is None:
            raise Unknown('element assigned from a value the interpreter does not follow')
        m.fill(slot, one, c, True, 'element assignment')

    def elem_construct(self, slot, src):
        one = lconst(1)
        if self.probe is not None:
            self.probe.append(('construct', slot, src))
            return
        m = self.m
        if src is not None and src[0] in ('elem', 'xelem'):
            m.transfer(src[1], one, slot, 'umove' if src[0] == 'xelem' else 'ucopy', 'construct_at')
            return
        c = VAL if src is None else self.content_of(slot, src)
        if c is None:
            c = VAL
        if src is None and getattr(m, 'memalg', False):
            c = VINIT                                  # construct_at(p) in the memory algorithms: value-initialisation
        m.fill(slot, one, c, False, 'construct_at')

    def unop(self, n, fr):
        op = n.get('op')
        if op in ('++', '--'):
            kk = self.key(n.get('sub'))
            cur = self.ev(n.get('sub'), fr)
            if kk is None:
                return TOP
            if cur[0] in ('ptr', 'src', 'int'):
                nv = (cur[0], ladd(cur[1], lconst(1 if op == '++' else -1)))
            else:
                nv = TOP
            fr.env[kk] = nv
            return cur if n.get('post') else nv
        v = self.ev(n.get('sub'), fr)
        if op == '*':
            if v[0] == 'ptr':
                return ('elem', v[1])
            if v[0] == 'src':
                return ('srcelem', v[1])
            if v[0] == 'tmpptr':
                return ('tmpelem',)
            return TOP
        if op == '&':
            if v[0] in ('elem', 'xelem'):
                return ('ptr', v[1])
            if v[0] == 'tmpelem':
                return ('tmpptr',)
            kk = self.key(n.get('sub'))
            if kk is not None:
                return ('addr', kk)
            return TOP
        if op == '-' and v[0] == 'int':
            return ('int', lneg(v[1]))
        if op == '+':
            return v
        if op == '!':
            return ('int', lconst(0 if self.cond(n.get('sub'), fr) else 1))
        return TOP

    # ------------------------------------------------------------ conditions
    def cond(self, n, fr):
        """Decides the condition on this path (splitting if needed) and records what it implies.  Returns True / False."""
        n = A.strip(n)
        if not isinstance(n, dict):
            raise Unknown('empty condition')
        if n.get('cv') is not None and n.get('k') != 'bin':
            return bool(n['cv'])
        k = n.get('k')
        if k == 'paren':
            return self.cond(n.get('sub'), fr)
        if k == 'call' and A.callee(n) == '__builtin_expect' and n.get('args'):
            return self.cond(n['args'][0], fr)
        if k == 'un' and n.get('op') == '!':
            return not self.cond(n.get('sub'), fr)
        if k == 'bin' and n.get('op') == '&&':
            return self.cond(n.get('lhs'), fr) and self.cond(n.get('rhs'), fr)
        if k == 'bin' and n.get('op') == '||':
            return self.cond(n.get('lhs'), fr) or self.cond(n.get('rhs'), fr)
        op = n.get('op') if k in ('bin', 'call') else None
        if op in ('<', '>', '<=', '>=', '==', '!='):
            if k == 'bin':
                a, b = self.ev(n.get('lhs'), fr), self.ev(n.get('rhs'), fr)
            else:
                ops = ([n.get('obj')] if n.get('obj') is not None else []) + list(n.get('args', []))
                if len(ops) != 2:
                    raise Unknown('comparison operator with %d operands' % len(ops))
                a, b = self.ev(ops[0], fr), self.ev(ops[1], fr)
            if {a[0], b[0]} == {'this', 'addr'} and op in ('==', '!='):
                oth = a if a[0] == 'addr' else b
                if fr.env.get(oth[1]) == ('other',):
                    # self-assignment is the identity; the paths of interest are those with two distinct vectors
                    return self.m.choose([(op == '!=', [])])
            if a[0] == b[0] and a[0] in ('int', 'ptr', 'src'):
                d = ladd(a[1], b[1], -1)          # a - b
                one = lconst(-1)
                lt, gt = [ladd(lneg(d), one)], [ladd(d, one)]
                le, ge, eq = [lneg(d)], [d], [d, lneg(d)]
                alts = {'<': [(True, lt), (False, ge)], '>': [(True, gt), (False, le)], '<=': [(True, le), (False, gt)],
                        '>=': [(True, ge), (False, lt)], '==': [(True, eq), (False, lt), (False, gt)],
                        '!=': [(False, eq), (True, lt), (True, gt)]}[op]
                return self.m.choose(alts)
            return self.m.choose([(True, []), (False, [])])
        v = self.ev(n, fr)
        if v[0] == 'int':
            if set(v[1]) <= {''}:
                return bool(v[1].get('', 0))
            d = v[1]
            return self.m.choose([(False, [d, lneg(d)]), (True, [ladd(d, lconst(-1))]), (True, [ladd(lneg(d), lconst(-1))])])
        return self.m.choose([(True, []), (False, [])])

    # ------------------------------------------------------------ calls
    def rng(self, a, b):
        if a[0] == b[0] and a[0] in ('ptr', 'src', 'mptr'):
            return ladd(b[1], a[1], -1)
        raise Unknown('range whose ends the interpreter does not follow')

    def call(self, n, fr):
        m = self.m
        nm, sn, args = A.callee(n), A.cshort(n), n.get('args', []) or []
        if 'assert' in (n.get('mac') or []):
            return TOP
        op = n.get('op')
        # operators of iterator / element classes
        if n.get('method') and op:
            obj = n.get('obj')
            if op in ('<', '>', '<=', '>=', '==', '!='):
                return ('int', lconst(1 if self.cond(n, fr) else 0))
            if op == '=':
                src = self.ev(args[0], fr) if args else TOP
                dst = self.ev(obj, fr)
                if dst[0] in ('elem', 'xelem'):
                    self.elem_assign(dst[1], src)
                    return dst
                if dst[0] == 'tmpelem' or (dst[0] == 'val'):
                    if src[0] == 'xelem':
                        self.moved_from(src)
                    return dst
                kk = self.key(obj)
                if kk is not None and src[0] in ('src', 'ptr', 'int'):
                    fr.env[kk] = src
                    return src
                return TOP
            if op == '*' and not args:
                v = self.ev(obj, fr)
                if v[0] == 'src':
                    return ('srcelem', v[1])
                if v[0] == 'ptr':
                    return ('elem', v[1])
                return TOP
            if op in ('++', '--'):
                kk = self.key(obj)
                cur = self.ev(obj, fr)
                if kk is not None and cur[0] in ('src', 'ptr', 'int'):
                    nv = (cur[0], ladd(cur[1], lconst(1 if op == '++' else -1)))
                    fr.env[kk] = nv
                    return cur if args else nv
                return TOP
            if op in ('+', '-') and len(args) == 1:
                a, b = self.ev(obj, fr), self.ev(args[0], fr)
                if a[0] in ('src', 'ptr') and b[0] == 'int':
                    return (a[0], ladd(a[1], b[1], 1 if op == '+' else -1))
                if a[0] == b[0] and a[0] in ('src', 'ptr') and op == '-':
                    return ('int', ladd(a[1], b[1], -1))
                return TOP
            if op in ('+=', '-=') and len(args) == 1:
                kk = self.key(obj)
                a, b = self.ev(obj, fr), self.ev(args[0], fr)
                if kk is not None and a[0] in ('src', 'ptr') and b[0] == 'int':
                    fr.env[kk] = (a[0], ladd(a[1], b[1], 1 if op == '+=' else -1))
                    return fr.env[kk]
                return TOP
        # members of the vector called on this
        on_this = n.get('method') and self.is_this(n.get('obj')) and (n.get('clsq') or '').startswith(('amc::vec::', 'amc::Vector'))
        if on_this:
            if sn in BEGIN and not args:
                return ('ptr', {})
            if sn in END and not args:
                return ('ptr', dict(m.size))
            if sn == 'size' and not args:
                return ('int', dict(m.size))
            if sn == 'capacity' and not args:
                return ('int', {'K': 1})
            if sn == 'empty' and not args:
                return ('int', lconst(1 if self.m.choose([(True, [lneg(m.size)]), (False, [ladd(m.size, lconst(-1))])]) else 0))
            if sn == 'setSize' and len(args) == 1:
                v = self.ev(args[0], fr)
                if v[0] != 'int':
                    raise Unknown('setSize with a value the interpreter does not follow')
                self.no_probe('setSize')
                m.size = dict(v[1])
                return TOP
            if sn in ('incrSize', 'decrSize') and not args:
                self.no_probe(sn)
                m.size = ladd(m.size, lconst(1 if sn == 'incrSize' else -1))
                return TOP
            if sn in ('adjustCapacity', 'grow', 'reserve'):
                vals = [self.ev(a, fr) for a in args]
                self.no_probe(sn)
                m.realloc('%s()' % sn)
                for a, v in zip(args, vals):
                    if v[0] == 'addr':
                        pass                         # the position handed over by address is re-based: same index
                t = (n.get('t') or '').rstrip()
                if t.endswith('*'):
                    return next((v for v in vals if v[0] == 'ptr'), TOP)
                if n.get('lv') or t.endswith('&'):
                    return next((v for v in vals if v[0] in ('val', 'elem', 'srcelem')), VAL)
                return TOP
            if sn in ('back', 'front') and not args:
                return ('elem', ladd(m.size, lconst(-1))) if sn == 'back' else ('elem', {})
        if sn == 'ptr' and n.get('method') and not args and (n.get('clsq') or '').startswith('amc::vec::ElemStorage'):
            return ('tmpptr',)
        if nm.endswith('::Check') or sn in ('Check',):
            for a in args:
                self.ev(a, fr)
            return TOP
        # the other vector of a copy constructor / copy assignment: a source range of D elements
        if n.get('method') and not args and n.get('obj') is not None and sn in BEGIN | END | {'size'}:
            o = self.ev(n.get('obj'), fr)
            if o == ('other',):
                return ('src', {}) if sn in BEGIN else (('src', {'D': 1}) if sn in END else ('int', {'D': 1}))
        # initializer_list
        if n.get('method') and (n.get('clsq') or '') == 'std::initializer_list' and not args:
            o = self.ev(n.get('obj'), fr)
            if o[0] == 'ilist':
                if sn == 'begin':
                    return ('src', {})
                if sn == 'end':
                    return ('src', {'D': 1})
                if sn == 'size':
                    return ('int', {'D': 1})
        if m.words:
            if sn == 'exchange' and len(args) == 2 and self.word(args[0], fr):
                w = self.word(args[0], fr)
                oldv = ('int', dict(m.words[w]))
                nv = self.ev(args[1], fr)
                if nv[0] != 'int':
                    raise Unknown('exchange of a size word with a value the interpreter does not follow')
                m.words[w] = dict(nv[1])
                return oldv
            if sn == 'swap' and len(args) == 2 and self.word(args[0], fr) and self.word(args[1], fr):
                a, b = self.word(args[0], fr), self.word(args[1], fr)
                m.words[a], m.words[b] = m.words[b], m.words[a]
                return TOP
            if n.get('method') and not args and n.get('obj') is not None and self.ev(n.get('obj'), fr) == ('othervec',):
                if sn in BEGIN:
                    return ('ptr', dict(Y_))
                if sn == 'size':
                    return ('int', dict(m.words['other']))
                if sn in END:
                    return ('ptr', ladd(Y_, m.words['other']))
            if on_this and sn in BEGIN and not args:
                return ('ptr', {})
            if on_this and sn == 'size' and not args:
                return ('int', dict(m.words['this']))
            if on_this and sn in END and not args:
                return ('ptr', dict(m.words['this']))
        prim = self.primitive(n, nm, sn, args, fr)
        if prim is not NotImplemented:
            return prim
        # inline amc callees (helpers of amc::vec and members on this)
        fid = n.get('fn')
        callee = m.prog.fns.get(fid) if fid else None
        if callee is not None and callee.get('body') is not None and callee.get('name', '').startswith('amc::') and (not n.get('method') or on_this):
            return self.inline(callee, n, args, fr)
        vals = [self.ev(a, fr) for a in args]
        if n.get('method') and n.get('obj') is not None:
            self.ev(n.get('obj'), fr)
        if any(v[0] in ('ptr', 'elem', 'xelem') for v in vals) and not nm.startswith('std::'):
            raise Unknown('call of %s with a pointer into the storage' % (nm or sn))
        return TOP

    def no_probe(self, what):
        if self.probe is not None:
            raise Unknown('%s inside a loop' % what)

    def inline(self, callee, n, args, fr):
        m = self.m
        if m.depth > 12:
            raise Unknown('inlining too deep')
        nf = Frame(callee)
        vals = [self.ev(a, fr) for a in args]
        for i, v in enumerate(vals):
            if v[0] == 'xelem' and i < len(callee.get('params', [])) and not callee['params'][i]['t'].rstrip().endswith('&'):
                self.moved_from(v)
                v = VAL
            nf.env[('p', i)] = v
        for i, p in enumerate(callee.get('params', [])):
            if ('p', i) not in nf.env or nf.env[('p', i)] == TOP:
                if 'initializer_list' in p['t']:
                    nf.env[('p', i)] = ('ilist',)
        m.depth += 1
        m.frames.append(callee)
        try:
            self.run(callee['body'], nf)
            res = TOP
        except _Ret as r:
            res = r.v
        finally:
            m.depth -= 1
            m.frames.pop()
        return res

    def primitive(self, n, nm, sn, args, fr):
        m = self.m
        one = lconst(1)
        if sn in ('memcpy', 'memmove', '__builtin_memcpy', '__builtin_memmove') and len(args) == 3:
            t, sv = self.ev(args[0], fr), self.ev(args[1], fr)
            sz = A.strip(args[2])
            cnt = None
            if isinstance(sz, dict) and sz.get('k') == 'sizeof':
                cnt = lconst(1)
            elif isinstance(sz, dict) and sz.get('k') == 'bin' and sz.get('op') == '*':
                l, r = A.strip(sz.get('lhs')), A.strip(sz.get('rhs'))
                other = r if (isinstance(l, dict) and l.get('k') == 'sizeof') else (l if (isinstance(r, dict) and r.get('k') == 'sizeof') else None)
                if other is not None:
                    v = self.ev(other, fr)
                    cnt = v[1] if v[0] == 'int' else None
            if t[0] != 'ptr' or sv[0] != 'ptr' or cnt is None:
                if t[0] == 'ptr' or sv[0] == 'ptr':
                    raise Unknown('%s the interpreter does not follow' % sn)
                return TOP
            if self.probe is not None:
                if cnt != lconst(1):
                    raise Unknown('%s of several elements inside a loop' % sn)
                self.probe.append(('construct', t[1], ('elem', sv[1])))
                return t
            m.transfer(sv[1], cnt, t[1], 'ucopy', '%s(%s <- %s, %s elements)' % (sn, fmt(t[1]), fmt(sv[1]), fmt(cnt)))
            return t
        std_or_amc = nm.startswith(('std::', 'amc::')) and not nm.startswith('amc::vec::')
        if not std_or_amc:
            return NotImplemented
        if sn in ('move', 'forward', '__addressof', 'addressof', 'launder', 'as_const') and len(args) == 1:
            v = self.ev(args[0], fr)
            if sn == 'move' and v[0] == 'elem':
                return ('xelem', v[1])
            if sn == 'move' and v[0] == 'tmpelem':
                return ('xtmpelem',)
            if sn in ('addressof', '__addressof'):
                if v[0] in ('elem', 'xelem'):
                    return ('ptr', v[1])
                if v[0] == 'tmpelem':
                    return ('tmpptr',)
                kk = self.key(args[0])
                return ('addr', kk) if kk else TOP
            return v
        if sn == 'make_move_iterator' and len(args) == 1:
            v = self.ev(args[0], fr)
            return ('mptr', v[1]) if v[0] == 'ptr' else v
        if sn == 'advance' and len(args) == 2:
            kk = self.key(args[0])
            a, d = self.ev(args[0], fr), self.ev(args[1], fr)
            if kk is None or a[0] not in ('ptr', 'src') or d[0] != 'int':
                raise Unknown('std::advance the interpreter does not follow')
            fr.env[kk] = (a[0], ladd(a[1], d[1]))
            return TOP
        if sn == 'distance' and len(args) == 2:
            a, b = self.ev(args[0], fr), self.ev(args[1], fr)
            return ('int', self.rng(a, b))
        if sn in ('next', 'prev') and args:
            a = self.ev(args[0], fr)
            d = self.ev(args[1], fr) if len(args) > 1 else ('int', one)
            if a[0] in ('ptr', 'src') and d[0] == 'int':
                return (a[0], ladd(a[1], d[1], 1 if sn == 'next' else -1))
            return TOP
        if sn in ('min', 'max') and len(args) == 2:
            a, b = self.ev(args[0], fr), self.ev(args[1], fr)
            if a[0] == 'int' and b[0] == 'int':
                c = self.m.compare(a[1], b[1])
                return a if (c <= 0) == (sn == 'min') else b
            return TOP
        table = {
            'uninitialized_move_n': ('n', 'umove'), 'uninitialized_move': ('r', 'umove'),
            'uninitialized_relocate_n': ('n', 'reloc'), 'uninitialized_relocate': ('r', 'reloc'),
            'uninitialized_copy_n': ('n', 'ucopy'), 'uninitialized_copy': ('r', 'ucopy'),
            'copy_n': ('n', 'acopy'), 'copy': ('r', 'acopy'), 'move': ('r', 'amove'),
            'move_backward': ('b', 'amove'), 'copy_backward': ('b', 'acopy'),
        }
        if sn in table and len(args) == 3:
            self.no_probe(sn)
            shape, mode = table[sn]
            v = [self.ev(a, fr) for a in args]
            if shape == 'n':
                s, cnt, t = v[0], v[1], v[2]
                if cnt[0] != 'int':
                    raise Unknown('%s with a count the interpreter does not follow' % sn)
                cnt = cnt[1]
            else:
                s, cnt = v[0], self.rng(v[0], v[1])
                t = v[2]
            if s[0] == 'mptr':
                s = ('ptr', s[1])
                mode = {'ucopy': 'umove', 'acopy': 'amove'}.get(mode, mode)
            if t[0] != 'ptr':
                if s[0] == 'ptr':
                    raise Unknown('%s out of the storage' % sn)
                return TOP
            if shape == 'b':
                t = ('ptr', ladd(t[1], cnt, -1))
            what = '%s(%s, %s -> %s)' % (sn, fmt(s[1]) if s[0] in ('ptr', 'src') else '?', fmt(cnt), fmt(t[1]))
            if s[0] == 'ptr':
                m.transfer(s[1], cnt, t[1], mode, what, backward=(shape == 'b'))
            elif s[0] == 'src':
                if m.count(cnt, what):
                    m.fill(t[1], cnt, new(ladd(t[1], s[1], -1)), mode.startswith('a'), what)
            else:
                raise Unknown('%s from a source the interpreter does not follow' % sn)
            if shape == 'b':
                return ('ptr', t[1])
            if sn in ('uninitialized_move_n', 'uninitialized_relocate_n') and s[0] == 'ptr':
                return ('pair', ('ptr', ladd(s[1], cnt)), ('ptr', ladd(t[1], cnt)))
            return ('ptr', ladd(t[1], cnt))
        if sn in ('fill_n', 'uninitialized_fill_n') and len(args) == 3:
            self.no_probe(sn)
            t, cnt, v = [self.ev(a, fr) for a in args]
            if t[0] != 'ptr' or cnt[0] != 'int':
                raise Unknown('%s on a range the interpreter does not follow' % sn)
            m.fill(t[1], cnt[1], VINIT if v == ('vinitval',) else VAL, sn == 'fill_n', '%s(%s, %s)' % (sn, fmt(t[1]), fmt(cnt[1])))
            return ('ptr', ladd(t[1], cnt[1]))
        if sn in ('fill', 'uninitialized_fill') and len(args) == 3:
            self.no_probe(sn)
            a, b, v = [self.ev(x, fr) for x in args]
            if a[0] != 'ptr':
                raise Unknown('%s on a range the interpreter does not follow' % sn)
            m.fill(a[1], self.rng(a, b), VINIT if v == ('vinitval',) else VAL, sn == 'fill', '%s(%s, %s)' % (sn, fmt(a[1]), fmt(b[1])))
            return TOP
        if sn in ('uninitialized_value_construct_n', 'uninitialized_default_construct_n') and len(args) >= 2 and all((a.get('defarg') if isinstance(a, dict) else False) for a in args[2:]):
            # (the pre-C++17 emulations carry a defaulted enable_if parameter)
            self.no_probe(sn)
            t, cnt = [self.ev(a, fr) for a in args[:2]]
            if t[0] != 'ptr' or cnt[0] != 'int':
                raise Unknown('%s on a range the interpreter does not follow' % sn)
            m.fill(t[1], cnt[1], VINIT, False, '%s(%s, %s)' % (sn, fmt(t[1]), fmt(cnt[1])))
            return ('ptr', ladd(t[1], cnt[1]))
        if sn == 'destroy_n' and len(args) == 2:
            self.no_probe(sn)
            t, cnt = [self.ev(a, fr) for a in args]
            if t[0] == 'tmpptr':
                return TOP
            if t[0] != 'ptr' or cnt[0] != 'int':
                raise Unknown('destroy_n on a range the interpreter does not follow')
            m.destroy(t[1], cnt[1], 'destroy_n(%s, %s)' % (fmt(t[1]), fmt(cnt[1])))
            return ('ptr', ladd(t[1], cnt[1]))
        if sn == 'destroy' and len(args) == 2:
            self.no_probe(sn)
            a, b = [self.ev(x, fr) for x in args]
            if a[0] != 'ptr':
                raise Unknown('destroy on a range the interpreter does not follow')
            m.destroy(a[1], self.rng(a, b), 'destroy(%s, %s)' % (fmt(a[1]), fmt(b[1])))
            return TOP
        if sn == 'destroy_at' and len(args) >= 1:
            t = self.ev(args[0], fr)
            if t[0] == 'tmpptr':
                return TOP
            if t[0] != 'ptr':
                raise Unknown('destroy_at on a pointer the interpreter does not follow')
            if self.probe is not None:
                self.probe.append(('destroy', t[1]))
                return TOP
            m.destroy(t[1], one, 'destroy_at(%s)' % fmt(t[1]))
            return TOP
        if sn == 'construct_at' and len(args) >= 1:
            t = self.ev(args[0], fr)
            vals = [self.ev(a, fr) for a in args[1:]]
            if t[0] == 'tmpptr':
                for v in vals:
                    if v[0] == 'xelem':
                        self.moved_from(v)
                return ('tmpptr',)
            if t[0] != 'ptr':
                raise Unknown('construct_at on a pointer the interpreter does not follow')
            self.elem_construct(t[1], vals[0] if len(vals) == 1 else None)
            return t
        if sn == 'relocate_at' and len(args) == 2:
            s, t = self.ev(args[0], fr), self.ev(args[1], fr)
            if t[0] != 'ptr':
                if s[0] == 'ptr':
                    raise Unknown('relocate_at out of the storage')
                return TOP
            self.no_probe(sn)
            if s[0] == 'ptr':
                m.transfer(s[1], one, t[1], 'reloc', 'relocate_at(%s -> %s)' % (fmt(s[1]), fmt(t[1])))
            else:
                m.fill(t[1], one, VAL, False, 'relocate_at(pending element -> %s)' % fmt(t[1]))
            return t
        if sn == 'swap_ranges' and len(args) == 3:
            self.no_probe(sn)
            a, b, c = [self.ev(x, fr) for x in args]
            if a[0] != 'ptr' or c[0] != 'ptr':
                raise Unknown('swap_ranges over ranges the interpreter does not follow')
            cnt = self.rng(a, b)
            what = 'swap_ranges(%s, %s <-> %s)' % (fmt(a[1]), fmt(cnt), fmt(c[1]))
            if m.count(cnt, what):
                d = ladd(c[1], a[1], -1)
                if m.compare(ladd(a[1], cnt), c[1]) > 0 and m.compare(ladd(c[1], cnt), a[1]) > 0:
                    raise Violation('%s: the two ranges overlap' % what, self.m.cur)
                p1 = m.pieces(a[1], ladd(a[1], cnt))
                p2 = m.pieces(c[1], ladd(c[1], cnt))
                for lo, hi, ct in p1 + p2:
                    if not alive(ct):
                        raise Violation('%s: slots [%s, %s) hold no object' % (what, fmt(lo), fmt(hi)), self.m.cur)
                for lo, hi, ct in p1:
                    m.write(ladd(lo, d), ladd(hi, d), shift_content(ct, d))
                for lo, hi, ct in p2:
                    m.write(ladd(lo, d, -1), ladd(hi, d, -1), shift_content(ct, lneg(d)))
            return ('ptr', ladd(c[1], cnt))
        if sn in ('rotate', 'sort', 'swap', 'swap_ranges', 'iter_swap', 'reverse') and any(self.ev(a, fr)[0] in ('ptr', 'elem') for a in args):
            raise Unknown('%s over the storage' % sn)
        return NotImplemented

    # ------------------------------------------------------------ statements
    def run(self, n, fr):
        if n is None:
            return
        if isinstance(n, list):
            for s in n:
                self.run(s, fr)
            return
        k = n.get('k')
        if 'assert' in (n.get('mac') or []) or 'arg:assert' in (n.get('mac') or []):
            return
        if k == 'block':
            self.run(n.get('s', []), fr)
        elif k == 'decl':
            for v in n.get('vars', []):
                val = TOP
                if v.get('init') is not None:
                    val = self.ev(v['init'], fr)
                    if val[0] == 'xelem' and self.is_elem_t(v.get('t')):
                        self.moved_from(val)
                        val = VAL
                    elif val[0] in ('elem', 'srcelem', 'tmpelem', 'xtmpelem') and self.is_elem_t(v.get('t')) and not v.get('t', '').rstrip().endswith('&'):
                        val = VAL
                elif (v.get('t') or '').startswith('amc::vec::ElemStorage'):
                    val = ('tmpobj',)
                fr.env[('l', v['did'])] = val
        elif k == 'if':
            if isinstance(n.get('var'), dict) and n['var'].get('init') is not None:
                fr.env[('l', n['var']['did'])] = self.ev(n['var']['init'], fr)
            if self.cond(n.get('c'), fr):
                self.run(n.get('then'), fr)
            else:
                self.run(n.get('else'), fr)
        elif k == 'ret':
            raise _Ret(self.ev(n.get('e'), fr) if n.get('e') is not None else TOP)
        elif k == 'try':
            self.run(n.get('body'), fr)              # normal paths only: handlers are C09's
        elif k == 'throw':
            raise _Thrown()
        elif k in ('for', 'while'):
            self.loop(n, fr)
        elif k in A.LOOPS:
            raise Unknown('loop the interpreter does not accelerate')
        elif k in ('null', 'break', 'continue'):
            if k != 'null':
                raise Unknown(k)
        else:
            self.ev(n, fr)

    def loop(self, n, fr):
        """Counted loops - `for (i = a; i < b; ++i)`, `while (p != q)` ... - in which one iteration moves every cursor it uses by exactly
        one slot (up or down): two probe iterations give the per-iteration effects and the step of the controlling variable, the effects
        are then applied to the whole ranges at once."""
        if self.probe is not None:
            raise Unknown('nested loop')
        k = n.get('k')
        if k == 'for':
            self.run(n.get('init'), fr)
        elif k != 'while':
            raise Unknown('loop the interpreter does not accelerate')
        c = A.strip(n.get('c'))
        inc = n.get('inc') if k == 'for' else None
        if not isinstance(c, dict):
            raise Unknown('loop without a condition')
        if c.get('k') == 'call' and c.get('op') in ('<', '!=', '>') and c.get('method'):
            sides = [c.get('obj')] + list(c.get('args', []))
        elif c.get('k') == 'bin' and c.get('op') in ('<', '!=', '>'):
            sides = [c.get('lhs'), c.get('rhs')]
        else:
            raise Unknown('loop the interpreter does not accelerate')
        if len(sides) != 2:
            raise Unknown('loop the interpreter does not accelerate')

        def gap():
            a, b_ = self.ev(sides[0], fr), self.ev(sides[1], fr)
            if a[0] != b_[0] or a[0] not in ('int', 'ptr', 'src'):
                raise Unknown('loop bounds the interpreter does not follow')
            return ladd(b_[1], a[1], -1)
        saved = dict(fr.env)
        effects, envs, gaps = [], [], []
        self.probe = []
        try:
            gaps.append(gap())
        finally:
            pre, self.probe = self.probe, None
        if pre:
            raise Unknown('loop condition with effects on elements')
        after_first_test = dict(fr.env)                   # the condition may step a cursor (`while (++p != e)`): that happens even for zero iterations
        for it in range(2):
            self.probe = []
            before = dict(fr.env)
            try:
                self.run(n.get('body'), fr)
                if inc is not None:
                    self.ev(inc, fr)
                gaps.append(gap())
            finally:
                effects.append(self.probe)
                self.probe = None
            envs.append((before, dict(fr.env)))
        step = ladd(gaps[0], gaps[1], -1)
        if step != ladd(gaps[1], gaps[2], -1) or set(step) - {''} or step.get('', 0) not in (1, -1):
            raise Unknown('loop whose controlling variable does not move by one per iteration')
        sgn = step['']
        iters = {k2: v * sgn for k2, v in gaps[0].items()}
        cnt = self.m.compare(iters, {})
        if cnt <= 0:
            if cnt < 0 and c.get('op') == '!=':
                raise Violation('loop runs from %s with != although the end is behind the start: it never terminates inside the range' % fmt(gaps[0]), n)
            if cnt < 0 and (c.get('op') == '<') != (sgn > 0):
                raise Unknown('loop whose controlling variable moves away from its bound')
            fr.env.clear()
            fr.env.update(after_first_test)
            return
        e0, e1 = effects
        if len(e0) != len(e1):
            raise Unknown('loop body with iteration-dependent effects')
        one = lconst(1)

        def delta(x, y):
            d = ladd(y, x, -1)
            if set(d) - {''} or d.get('', 0) not in (1, -1):
                raise Unknown('loop body whose effects do not advance by one slot per iteration')
            return d['']
        plan = []
        for x, y in zip(e0, e1):
            if x[0] != y[0]:
                raise Unknown('loop body with iteration-dependent effects')
            e = delta(x[1], y[1])
            src = x[2] if len(x) > 2 else None
            if src is not None and src[0] in ('elem', 'xelem', 'srcelem'):
                if y[2][0] != src[0] or delta(src[1], y[2][1]) != e:
                    raise Unknown('loop that walks source and destination in different directions')
            elif src is not None and src != y[2]:
                raise Unknown('loop body with iteration-dependent effects')
            plan.append((x, e))
        # cursors: variables changed by the body advance by the same delta every iteration
        (b0, a0), (b1, a1) = envs
        for kk in a0:
            v0, v1, v2 = b0.get(kk, TOP), a0.get(kk, TOP), a1.get(kk, TOP)
            if v0 == v1 == v2:
                continue
            if not (v0[0] == v1[0] == v2[0] and v0[0] in ('int', 'ptr', 'src') and ladd(v1[1], v0[1], -1) == ladd(v2[1], v1[1], -1)):
                raise Unknown('loop variable that does not advance uniformly')
            d = ladd(v1[1], v0[1], -1)
            if set(d) - {''}:
                raise Unknown('loop variable with a symbolic step')
            fr.env[kk] = (v0[0], ladd(v0[1], {k2: v * d.get('', 0) for k2, v in iters.items()}))
        m = self.m
        back = ladd(lconst(1), iters, -1)                     # 1 - iters
        for x, e in plan:
            lo = x[1] if e > 0 else ladd(x[1], back)
            if x[0] == 'destroy':
                m.destroy(lo, iters, 'loop of destroy_at')
            elif x[0] == 'mf':
                m.need(lo, ladd(lo, iters), True, 'loop moving from slots')
                m.write(lo, ladd(lo, iters), MF)
            else:
                src = x[2]
                assign = x[0] == 'assign'
                what = 'loop of element %s' % ('assignments' if assign else 'constructions')
                if src is not None and src[0] in ('elem', 'xelem'):
                    mode = ('amove' if src[0] == 'xelem' else 'acopy') if assign else ('umove' if src[0] == 'xelem' else 'ucopy')
                    slo = src[1] if e > 0 else ladd(src[1], back)
                    m.transfer(slo, iters, lo, mode, what, backward=(e < 0))
                elif src is not None and src[0] == 'srcelem':
                    if e < 0:
                        raise Unknown('loop reading the source range backwards')
                    m.fill(lo, iters, new(ladd(x[1], src[1], -1)), assign, what)
                elif (src is not None and src[0] == 'vinitval') or (src is None and getattr(m, 'memalg', False)):
                    m.fill(lo, iters, VINIT, assign, what)
                else:
                    m.fill(lo, iters, VAL, assign, what)


# ---------------------------------------------------------------- specifications

def spec_of(f, E):
    """(kind, roles of the parameters) for an entry point, or None.  Roles: 'pos', 'last', 'count', 'val', 'first', 'srclast', 'ilist'."""
    nm = short(f['name'])
    ps = f.get('params', [])

    def isptr(p):
        t = p['t'].replace('const ', '').strip()
        return t.endswith('*') and not t.endswith('**')

    def isint(p):
        return A.width(p['t']) is not None

    def isil(p):
        return 'initializer_list' in p['t']
    n = len(ps)

    def isother(p):
        t = p['t'].replace('const ', '').strip()
        return t.startswith('amc::Vector<') and t.endswith('&') and not t.endswith('&&')

    def isalloc(p):
        return 'lloc' in p['t'] and not isother(p)
    if f.get('clsq') == 'amc::Vector':
        q = [p for p in ps if not isalloc(p)]
        tail = ['alloc'] * (len(ps) - len(q))
        if len(ps) != len(q) and ps[:len(q)] != q:
            return None
        if f.get('kind') == 'ctor':
            if len(q) == 1 and isother(q[0]):
                return 'ctor_range', ['other'] + tail
            if len(q) == 1 and isil(q[0]):
                return 'ctor_range', ['ilist'] + tail
            if len(q) == 1 and isint(q[0]):
                return 'ctor_vinit', ['count'] + tail
            if len(q) == 2 and isint(q[0]) and not isint(q[1]):
                return 'ctor_n', ['count', 'val'] + tail
            if len(q) == 2 and not isint(q[0]) and not isother(q[0]) and q[0]['t'] == q[1]['t'] and '&&' not in q[0]['t']:
                return 'ctor_range', ['first', 'srclast'] + tail
            return None
        if nm == 'operator=' and len(ps) == 1 and isother(ps[0]):
            return 'assign_range', ['other']
        if nm == 'operator=' and len(ps) == 1 and isil(ps[0]):
            return 'assign_range', ['ilist']
        return None
    if nm in ('end', 'cend', 'data', 'empty', 'front', 'back', 'rbegin', 'rend', 'crbegin', 'crend') and n == 0:
        return 'acc_' + {'cend': 'end', 'crbegin': 'rbegin', 'crend': 'rend'}.get(nm, nm), []
    if nm in ('operator[]', 'at') and n == 1 and isint(ps[0]):
        return 'acc_' + ('index' if nm == 'operator[]' else 'at'), ['index']
    if nm == 'insert':
        if n == 2 and isptr(ps[0]) and isil(ps[1]):
            return 'insert_range', ['pos', 'ilist']
        if n == 2 and isptr(ps[0]):
            return 'insert_one', ['pos', 'val']
        if n == 3 and isptr(ps[0]) and isint(ps[1]):
            return 'insert_n', ['pos', 'count', 'val']
        if n == 3 and isptr(ps[0]):
            return 'insert_range', ['pos', 'first', 'srclast']
    if nm == 'emplace' and n >= 1 and isptr(ps[0]):
        return 'insert_one', ['pos'] + ['val'] * (n - 1)
    if nm in ('emplace_back', 'push_back'):
        return 'push', ['val'] * n
    if nm == 'erase' and n == 1 and isptr(ps[0]):
        return 'erase_one', ['pos']
    if nm == 'erase' and n == 2 and isptr(ps[0]) and isptr(ps[1]):
        return 'erase_range', ['pos', 'last']
    if nm == 'pop_back' and n == 0:
        return 'pop', []
    if nm == 'clear' and n == 0:
        return 'clear', []
    if nm == 'resize' and n == 1:
        return 'resize', ['count']
    if nm == 'resize' and n == 2:
        return 'resize_v', ['count', 'val']
    if nm == 'assign':
        if n == 1 and isil(ps[0]):
            return 'assign_range', ['ilist']
        if n == 2 and isint(ps[0]):
            return 'assign_n', ['count', 'val']
        if n == 2:
            return 'assign_range', ['first', 'srclast']
    if nm == 'append':
        if n == 1 and isil(ps[0]):
            return 'append_range', ['ilist']
        if n == 1 and isint(ps[0]):
            return 'append_vinit', ['count']
        if n == 2 and isint(ps[0]):
            return 'append_n', ['count', 'val']
        if n == 2:
            return 'append_range', ['first', 'srclast']
    return None


Y_ = {'Y': 1}          # base index of the second storage: both live in one index space, Y beyond every index of the first


def helper_spec(f):
    nm = f.get('name')
    ps = f.get('params', [])
    if nm == 'amc::vec::swap_deep' and len(ps) == 4:
        return 'h_swap_deep', ['ptrX', 'cntX', 'ptrY', 'cntY']
    if nm == 'amc::vec::move_n' and len(ps) == 4:
        return 'h_move_n', ['ptrY', 'cntY', 'ptrX', 'cntX']
    if f.get('clsq') == 'amc::vec::StaticVectorBase' and short(nm) in ('swap_impl', 'move_construct', 'move_assign') and ps and 'StaticVectorBase' in ps[0]['t']:
        return 'm_' + short(nm), ['othervec'] + ['ignored'] * (len(ps) - 1)
    return None


def S(**kw):
    return {k: v for k, v in kw.items() if v}


N_, P_, L_, C_, D_ = {'N': 1}, {'P': 1}, {'L': 1}, {'C': 1}, {'D': 1}


def expected(kind, m):
    """[(lo, hi, content)], final size - possibly depending on a case decided on the path."""
    Z = {}
    if kind == 'insert_one':
        return [(Z, P_, old()), (P_, ladd(P_, lconst(1)), VAL), (ladd(P_, lconst(1)), ladd(N_, lconst(1)), old(lconst(1)))], ladd(N_, lconst(1))
    if kind == 'insert_n':
        return [(Z, P_, old()), (P_, ladd(P_, C_), VAL), (ladd(P_, C_), ladd(N_, C_), old(C_))], ladd(N_, C_)
    if kind == 'insert_range':
        return [(Z, P_, old()), (P_, ladd(P_, D_), new(P_)), (ladd(P_, D_), ladd(N_, D_), old(D_))], ladd(N_, D_)
    if kind == 'push':
        return [(Z, N_, old()), (N_, ladd(N_, lconst(1)), VAL)], ladd(N_, lconst(1))
    if kind == 'erase_one':
        return [(Z, P_, old()), (P_, ladd(N_, lconst(-1)), old(lconst(-1)))], ladd(N_, lconst(-1))
    if kind == 'erase_range':
        k = ladd(L_, P_, -1)
        return [(Z, P_, old()), (P_, ladd(N_, k, -1), old(lneg(k)))], ladd(N_, k, -1)
    if kind == 'pop':
        return [(Z, ladd(N_, lconst(-1)), old())], ladd(N_, lconst(-1))
    if kind == 'clear':
        return [], Z
    if kind in ('resize', 'resize_v'):
        if m.compare(C_, N_) <= 0:
            return [(Z, C_, old())], C_
        return [(Z, N_, old()), (N_, C_, VINIT if kind == 'resize' else VAL)], C_
    if kind == 'assign_n':
        return [(Z, C_, VAL)], C_
    if kind == 'assign_range':
        return [(Z, D_, new(Z))], D_
    if kind in ('ctor_vinit', 'ctor_n', 'ctor_range'):
        kind = {'ctor_vinit': 'append_vinit', 'ctor_n': 'append_n', 'ctor_range': 'append_range'}[kind]
    if kind == 'append_vinit':
        return [(Z, N_, old()), (N_, ladd(N_, C_), VINIT)], ladd(N_, C_)
    if kind == 'append_n':
        return [(Z, N_, old()), (N_, ladd(N_, C_), VAL)], ladd(N_, C_)
    if kind == 'append_range':
        return [(Z, N_, old()), (N_, ladd(N_, D_), new(N_))], ladd(N_, D_)
    if kind == 'acc':
        return [(Z, N_, old())], N_
    CX, CY = {'CX': 1}, {'CY': 1}
    if kind == 'h_swap_deep':
        # the first storage receives the CY elements of the second, the second the CX elements of the first
        return [(Z, CY, old(lneg(Y_))), (CY, Y_, RAW), (Y_, ladd(Y_, CX), old(Y_))], None
    if kind == 'm_swap_impl':
        return [(Z, CY, old(lneg(Y_))), (CY, Y_, RAW), (Y_, ladd(Y_, CX), old(Y_))], None
    if kind in ('m_move_construct', 'm_move_assign'):
        return [(Z, CY, old(lneg(Y_))), (CY, Y_, RAW)], None
    if kind == 'h_move_n':
        # destination (first storage) holds the CY source elements, everything else - the surplus destination elements, the sources - is gone
        return [(Z, CY, old(lneg(Y_))), (CY, Y_, RAW)], None
    raise Unknown('no specification for ' + kind)


SPEC_TEXT = {
    'm_swap_impl': 'each vector holds exactly the elements the other had, in order, and its size',
    'm_move_construct': 'this holds exactly the elements the other had, in order, and its size; the other is empty',
    'm_move_assign': 'this holds exactly the elements the other had, in order, and its size; its former elements are destroyed; the other is empty',
    'h_swap_deep': 'the first range holds exactly the count2 elements of the second in order, the second exactly the count1 elements of the first, nothing else alive',
    'h_move_n': 'the destination holds exactly the n source elements in order; surplus destination elements and all sources destroyed',
    'acc_end': 'begin() + size()', 'acc_rbegin': 'reverse iterator of end()', 'acc_rend': 'reverse iterator of begin()', 'acc_data': 'begin()',
    'acc_empty': 'size() == 0', 'acc_front': 'the element at index 0', 'acc_back': 'the element at index size()-1',
    'acc_index': 'the element at the index', 'acc_at': 'the element at the index, out_of_range exactly when index >= size()',
    'ctor_vinit': 'C value-initialised elements, size C', 'ctor_n': 'C copies of the value, size C',
    'ctor_range': 'the D elements of the range / of the other vector in order, size D',
    'insert_one': 'old [0,P) . the new element at P . old shifted by one [P+1,N+1), size N+1',
    'insert_n': 'old [0,P) . C copies of the value [P,P+C) . old shifted by C [P+C,N+C), size N+C',
    'insert_range': 'old [0,P) . the D elements of the range in order [P,P+D) . old shifted by D [P+D,N+D), size N+D',
    'push': 'old [0,N) . the new element at N, size N+1',
    'erase_one': 'old [0,P) . old shifted down by one [P,N-1), size N-1',
    'erase_range': 'old [0,P) . old shifted down by L-P [P,N-(L-P)), size N-(L-P)',
    'pop': 'old [0,N-1), size N-1',
    'clear': 'nothing alive, size 0',
    'resize': 'old [0,min(N,C)) . value-initialised [N,C), size C',
    'resize_v': 'old [0,min(N,C)) . copies of the value [N,C), size C',
    'assign_n': 'C copies of the value, size C',
    'assign_range': 'the D elements of the range in order, size D',
    'append_vinit': 'old [0,N) . value-initialised [N,N+C), size N+C',
    'append_n': 'old [0,N) . copies of the value [N,N+C), size N+C',
    'append_range': 'old [0,N) . the D elements of the range in order [N,N+D), size N+D',
}


def same_content(m, a, b):
    if a[0] != b[0]:
        return False
    if a[0] in ('old', 'new'):
        return m.entails_eq(dict(a[1]), dict(b[1]))
    return True


def check_post(m, kind):
    exp, size = expected(kind, m)
    if size is None:
        if m.words:
            CX, CY = {'CX': 1}, {'CY': 1}
            want = {'this': CY, 'other': CX if kind == 'm_swap_impl' else {}}
            for w in ('this', 'other'):
                if not m.entails_eq(m.words[w], want[w]):
                    raise Violation('on return the size of %s is %s; expected %s (CX / CY: the sizes of this / the other vector on entry)'
                                    % ('this vector' if w == 'this' else 'the other vector', fmt(m.words[w]), fmt(want[w])), None)
        last = exp[-1][1]
        for lo, hi, c in exp:
            for a, b, got in m.pieces(lo, hi):
                if not same_content(m, got, c) and not (m.trivial and c == RAW):
                    raise Violation('on return slots [%s, %s) hold %s; expected %s (Y = start of the second range)' % (fmt(a), fmt(b), cfmt(got), cfmt(c)), None)
        for a, b, got in m.pieces(last, None):
            if alive(got) and not m.trivial:
                raise Violation('on return slots [%s, %s) still hold objects (%s): never destroyed' % (fmt(a), fmt(b), cfmt(got)), None)
        return
    if not m.entails_eq(m.size, size):
        raise Violation('size() on return is %s, std::vector gives %s' % (fmt(m.size), fmt(size)), None)
    for lo, hi, c in exp:
        for a, b, got in m.pieces(lo, hi):
            if not same_content(m, got, c):
                raise Violation('on return slots [%s, %s) hold %s; std::vector has %s there' % (fmt(a), fmt(b), cfmt(got), cfmt(c)), None)
    for a, b, got in m.pieces(size, None):
        if alive(got) and not m.trivial:
            raise Violation('on return slots [%s, %s) beyond size() still hold objects (%s): never destroyed' % (fmt(a), fmt(b), cfmt(got)), None)


def check_access(m, kind, res):
    """Accessors: the position / element designated, as std::vector; the storage is untouched."""
    I_ = {'I': 1}
    want = {'acc_end': ('ptr', N_), 'acc_rbegin': ('ptr', N_), 'acc_rend': ('ptr', {}), 'acc_data': ('ptr', {}), 'acc_front': ('elem', {}),
            'acc_back': ('elem', ladd(N_, lconst(-1))), 'acc_index': ('elem', I_), 'acc_at': ('elem', I_)}.get(kind)
    if kind == 'acc_empty':
        if res[0] != 'int' or set(res[1]) - {''}:
            raise Unknown('empty() returns a value the interpreter does not follow')
        if bool(res[1].get('', 0)) and m.feasible([ladd(N_, lconst(-1))]):
            raise Violation('empty() returns true although size() may be positive', None)
        if not bool(res[1].get('', 0)) and m.feasible([lneg(N_)]):
            raise Violation('empty() returns false although size() may be zero', None)
    else:
        if res[0] != want[0] or not m.entails_eq(res[1], want[1]):
            raise Violation('designates %s %s; std::vector designates %s %s' % ('the element at index' if res[0] == 'elem' else 'the position' if res[0] == 'ptr' else 'a value',
                                                                             fmt(res[1]) if len(res) > 1 and isinstance(res[1], dict) else '?',
                                                                             'the element at index' if want[0] == 'elem' else 'the position', fmt(want[1])), None)
        if kind == 'acc_at' and m.feasible([ladd({'I': 1}, N_, -1)]):
            raise Violation('at() returns a reference although the index may be >= size() (no exception)', None)
    for a, b, c in m.pieces({}, None):
        pass
    check_post(m, 'acc')


def explore(prog, f, E, kind, roles, limit=4000):
    """Walks every path of the entry point.  Returns (number of paths, violation or None)."""
    stack, paths = [[]], 0
    while stack:
        trail = stack.pop()
        m = Machine(prog, f, E, trail)
        m.cons += [{'N': 1}, {'K': 1, 'N': -1}]
        m.bounds, m.cont = [{}, dict(N_)], [old(), RAW]
        m.size = dict(N_)
        fr = Frame(f)
        for i, r in enumerate(roles):
            if r == 'pos':
                fr.env[('p', i)] = ('ptr', dict(P_))
                m.cons += [dict(P_), ladd(N_, P_, -1)]
                if kind == 'erase_one':
                    m.cons.append(ladd(ladd(N_, P_, -1), lconst(-1)))
            elif r == 'last':
                fr.env[('p', i)] = ('ptr', dict(L_))
                m.cons += [ladd(L_, P_, -1), ladd(N_, L_, -1)]
            elif r == 'count':
                fr.env[('p', i)] = ('int', dict(C_))
                m.cons.append(dict(C_))
            elif r == 'val':
                fr.env[('p', i)] = VAL
            elif r == 'first':
                fr.env[('p', i)] = ('src', {})
            elif r == 'srclast':
                fr.env[('p', i)] = ('src', dict(D_))
                m.cons.append(dict(D_))
            elif r == 'ilist':
                fr.env[('p', i)] = ('ilist',)
                m.cons.append(dict(D_))
            elif r == 'other':
                fr.env[('p', i)] = ('other',)
                m.cons.append(dict(D_))
            elif r in ('ptrX', 'ptrY', 'cntX', 'cntY'):
                CX, CY = {'CX': 1}, {'CY': 1}
                fr.env[('p', i)] = {'ptrX': ('ptr', {}), 'ptrY': ('ptr', dict(Y_)), 'cntX': ('int', CX), 'cntY': ('int', CY)}[r]
                if r == 'ptrX':
                    m.cons = [CX, CY, ladd(ladd(Y_, ladd(CX, CY), -1), lconst(-1))]
                    m.bounds, m.cont = [{}, dict(CX), dict(Y_), ladd(Y_, CY)], [old(), RAW, old(), RAW]
                    m.size = {}
            elif r == 'othervec':
                CX, CY = {'CX': 1}, {'CY': 1}
                fr.env[('p', i)] = ('othervec',)
                m.cons = [CX, CY, ladd(ladd(Y_, ladd(CX, CY), -1), lconst(-1))]
                if kind == 'm_move_construct':
                    m.cons.append(lneg(CX))             # the vector under construction is empty
                m.bounds, m.cont = [{}, dict(CX), dict(Y_), ladd(Y_, CY)], [old(), RAW, old(), RAW]
                m.size = {}
                m.words = {'this': dict(CX), 'other': dict(CY)}
            elif r == 'index':
                fr.env[('p', i)] = ('int', {'I': 1})
                m.cons.append({'I': 1})
                if kind == 'acc_index':
                    m.cons.append(ladd(ladd(N_, {'I': 1}, -1), lconst(-1)))      # precondition of operator[]: idx < size()
        if kind == 'pop':
            m.cons.append(ladd(N_, lconst(-1)))
        if kind.startswith('ctor_'):
            m.cons.append(lneg(N_))                       # a vector under construction is empty
        if kind in ('acc_front', 'acc_back'):
            m.cons.append(ladd(N_, lconst(-1)))            # precondition: not empty
        ip = Interp(m)
        try:
            res = TOP
            try:
                ip.run(f['body'], fr)
            except _Ret as r_:
                res = r_.v
            except _Thrown:
                if kind == 'acc_at' and m.feasible([ladd(ladd(N_, {'I': 1}, -1), lconst(-1))]):
                    raise Violation('throws although the index may be smaller than size()', None)
                raise Infeasible()
            if kind.startswith('acc_'):
                check_access(m, kind, res)
            else:
                check_post(m, kind)
            paths += 1
        except Split as s:
            for i in range(s.k):
                stack.append(trail + [i])
        except Infeasible:
            pass
        except Violation as v:
            where = [short(x['name']) for x in m.frames]
            return paths, (str(v), v.node, where, [fmt(c) + ' >= 0' for c in m.cons[2:]])
        if paths + len(stack) > limit:
            raise Unknown('too many paths')
    return paths, None


def seg_layout(progs):
    rr = RuleResult('SEG-LAYOUT', 'on every normal path of every inserting / removing / replacing member of the vector classes the storage ends exactly as '
                                  'std::vector leaves it - which slots hold which old element, the new elements, nothing alive beyond size() - for every size, '
                                  'position and count (array-segmentation abstract interpretation, helpers inlined, memory algorithms as transformers with '
                                  'their liveness preconditions)')
    seen = set()
    for prog in progs:
        E = prog.meta.get('E')
        if not E:
            continue
        for f in prog.amc_functions():
            body = f.get('body')
            if body is not None and helper_spec(f) is not None:
                sp = helper_spec(f)
            elif body is None or f.get('clsq') not in CLASSES or f.get('access') not in ('public', None):
                continue
            else:
                sp = spec_of(f, E)
            if sp is None:
                continue
            kind, roles = sp
            if 'arch::InputIt' in f['pname'] or 'arch::InIt' in f['pname']:
                continue                     # single-pass ranges are appended one by one: unbounded loop, not a layout question (ITER1, RANGE-MEASURE)
            key = f['key']
            try:
                paths, bad = explore(prog, f, E, kind, roles)
            except Unknown as e:
                rr.broken = rr.broken or 'SEG-LAYOUT: cannot interpret %s: %s' % (f['pname'][:110], e)
                continue
            rr.instance('%s|%s' % (key, prog.uname), {'function': f['pname'][:140], 'operation': kind, 'paths': paths,
                                                     'expected': SPEC_TEXT[kind], 'verdict': 'violated' if bad else 'as std::vector'})
            if bad and key not in seen:
                seen.add(key)
                msg, node, where, cons = bad
                rr.add(Finding('SEG-LAYOUT', key, prog.site(f, node) if isinstance(node, dict) and node.get('l') and not where else f['loc'],
                               '%s (%s)%s: %s - on the path where %s.  %s: %s' % (short(f['name']), kind, (' in ' + ' > '.join(where)) if where else '', msg,
                                                                              ', '.join(cons) or 'no condition', 'contract' if kind.startswith(('h_', 'm_')) else 'std::vector', SPEC_TEXT[kind]),
                               where=f['pname'], unit=prog.uname))
    return rr


# ---------------------------------------------------------------- MEMALG-LAYOUT (C15)

MEMALG = {
    # name: (kind, roles of the leading parameters)
    'uninitialized_copy': ('a_copy', ['sbeg', 'send', 'dst']), 'uninitialized_copy_n': ('a_copy', ['sbeg', 'scnt', 'dst']),
    'uninitialized_move': ('a_move', ['sbeg', 'send', 'dst']), 'uninitialized_move_n': ('a_move_n', ['sbeg', 'scnt', 'dst']),
    'uninitialized_relocate': ('a_reloc', ['sbeg', 'send', 'dst']), 'uninitialized_relocate_n': ('a_reloc_n', ['sbeg', 'scnt', 'dst']),
    'relocate_at': ('a_reloc_at', ['sbeg', 'dst']),
    'destroy': ('a_destroy', ['dbeg', 'dend']), 'destroy_n': ('a_destroy_n', ['dbeg', 'dcnt']),
    'uninitialized_value_construct': ('a_vinit', ['dbeg', 'dend']), 'uninitialized_value_construct_n': ('a_vinit_n', ['dbeg', 'dcnt']),
    'uninitialized_default_construct': ('a_vinit', ['dbeg', 'dend']), 'uninitialized_default_construct_n': ('a_vinit_n', ['dbeg', 'dcnt']),
}
MEMALG_TEXT = {
    'a_copy': 'the destination holds copies of the n source elements in order, the sources are untouched, dest + n is returned',
    'a_move': 'the destination holds the n source elements in order (moved), dest + n is returned',
    'a_move_n': 'the destination holds the n source elements in order (moved), (first + n, dest + n) is returned',
    'a_reloc': 'the destination holds the n source elements in order, the sources are gone, dest + n is returned',
    'a_reloc_n': 'the destination holds the n source elements in order, the sources are gone, (first + n, dest + n) is returned',
    'a_reloc_at': 'the destination holds the element, the source is gone, dest is returned',
    'a_destroy': 'exactly the n elements of the range are destroyed', 'a_destroy_n': 'exactly the n elements are destroyed, first + n is returned',
    'a_vinit': 'exactly the n slots of the range hold new objects', 'a_vinit_n': 'exactly the n slots hold new objects, first + n is returned',
}


def memalg_explore(prog, f, E, kind, roles, reloc, limit=400):
    CX, CY = {'CX': 1}, {'CY': 1}
    stack, paths = [[]], 0
    src_kinds = kind in ('a_copy', 'a_move', 'a_move_n', 'a_reloc', 'a_reloc_n', 'a_reloc_at')
    while stack:
        trail = stack.pop()
        m = Machine(prog, f, E, trail)
        m.memalg = True
        m.size = {}
        fr = Frame(f)
        if src_kinds:
            m.cons = [CY, ladd(ladd(Y_, CY, -1), lconst(-1))]
            if kind == 'a_reloc_at':
                m.cons += [ladd(CY, lconst(-1)), ladd(lconst(1), CY, -1)]
            m.bounds, m.cont = [{}, dict(Y_), ladd(Y_, CY)], [RAW, old(), RAW]
        elif kind in ('a_destroy', 'a_destroy_n'):
            m.cons = [CX]
            m.bounds, m.cont = [{}, dict(CX)], [old(), RAW]
        else:
            m.cons = [CX]
            m.bounds, m.cont = [{}], [RAW]
        for i, r in enumerate(roles):
            if r == 'ignored':
                continue
            fr.env[('p', i)] = {'sbeg': ('ptr', dict(Y_)), 'send': ('ptr', ladd(Y_, CY)), 'scnt': ('int', dict(CY)), 'dst': ('ptr', {}),
                                'dbeg': ('ptr', {}), 'dend': ('ptr', dict(CX)), 'dcnt': ('int', dict(CX))}[r]
        ip = Interp(m)
        try:
            res = TOP
            try:
                ip.run(f['body'], fr)
            except _Ret as r_:
                res = r_.v
            except _Thrown:
                raise Infeasible()

            def want_seg(lo, hi, pred, text):
                for a, b, got in m.pieces(lo, hi):
                    if not pred(got):
                        raise Violation('on return slots [%s, %s) hold %s; expected %s (Y = start of the source range)' % (fmt(a), fmt(b), cfmt(got), text), None)
            if src_kinds:
                want_seg({}, CY, lambda c: same_content(m, c, old(lneg(Y_))), 'the source elements in order')
                want_seg(CY, Y_, lambda c: not alive(c) or m.trivial, 'raw memory')
                if kind == 'a_copy':
                    want_seg(Y_, ladd(Y_, CY), lambda c: same_content(m, c, old()), 'the untouched source elements')
                elif kind in ('a_move', 'a_move_n'):
                    # a byte copy is a move only for trivially copyable types; any other type must have been move-constructed from
                    want_seg(Y_, ladd(Y_, CY), lambda c: c[0] == 'mf' or (m.trivial and same_content(m, c, old())),
                             'moved-from source elements (the element type is not trivially copyable: copying its bytes leaves two owners)')
                else:
                    want_seg(Y_, ladd(Y_, CY), lambda c: not alive(c) or reloc, 'no object (relocated away)')
                want_seg(ladd(Y_, CY), None, lambda c: not alive(c) or m.trivial, 'raw memory')
            elif kind in ('a_destroy', 'a_destroy_n'):
                want_seg({}, None, lambda c: not alive(c) or m.trivial, 'no object')
            else:
                want_seg({}, CX, lambda c: c == VINIT or Machine.trivial_default, 'new objects')
                want_seg(CX, None, lambda c: not alive(c) or m.trivial, 'raw memory')
            wret = {'a_copy': ('ptr', CY), 'a_move': ('ptr', CY), 'a_reloc': ('ptr', CY), 'a_reloc_at': ('ptr', {}),
                    'a_move_n': ('pair', ('ptr', ladd(Y_, CY)), ('ptr', CY)), 'a_reloc_n': ('pair', ('ptr', ladd(Y_, CY)), ('ptr', CY)),
                    'a_destroy_n': ('ptr', CX), 'a_vinit_n': ('ptr', CX)}.get(kind)

            def same_val(a, b):
                if a[0] != b[0]:
                    return False
                if a[0] == 'pair':
                    return same_val(a[1], b[1]) and same_val(a[2], b[2])
                return m.entails_eq(a[1], b[1])

            def sh(v):
                if v[0] == 'pair':
                    return '(%s, %s)' % (sh(v[1]), sh(v[2]))
                return fmt(v[1]) if len(v) > 1 and isinstance(v[1], dict) else 'a value the interpreter does not follow'
            if wret is not None and not same_val(res, wret):
                raise Violation('returns %s; the standard algorithm returns %s (positions: destination from 0, source from Y)' % (sh(res), sh(wret)), None)
            paths += 1
        except Split as sp:
            for i in range(sp.k):
                stack.append(trail + [i])
        except Infeasible:
            pass
        except Violation as v:
            return paths, (str(v), v.node, [short(x['name']) for x in m.frames], [fmt(c) + ' >= 0' for c in m.cons])
        if paths + len(stack) > limit:
            raise Unknown('too many paths')
    return paths, None


def memalg_layout(progs):
    rr = RuleResult('MEMALG-LAYOUT', 'every amc:: memory algorithm that has its own body in the analysed standard (the pre-C++17 emulations; relocate in every standard), '
                                     'instantiated with raw pointers, leaves on every normal path exactly what the standard algorithm leaves - which slots hold which source '
                                     'element, what happened to the sources, nothing else alive - and returns the same position(s), for every count (array-segmentation '
                                     'interpretation, implementation modes Default / MemMove / MemMoveInALoop inlined, memcpy / placement new / construct_at as transformers)')
    from .. import gen
    seen = set()
    for prog in progs:
        E = prog.meta.get('E')
        if not E:
            continue
        for f in prog.amc_functions():
            nm = f.get('name', '')
            sn = short(nm)
            if f.get('body') is None or nm != 'amc::' + sn or sn not in MEMALG:
                continue
            kind, roles = MEMALG[sn]
            ps = f.get('params', [])
            if len(ps) < len(roles):
                continue
            ptr_roles = [i for i, r in enumerate(roles) if r in ('sbeg', 'send', 'dst', 'dbeg', 'dend')]
            if not all(ps[i]['t'].replace('const ', '').strip() == E + ' *' for i in ptr_roles):
                continue
            roles_full = roles + ['ignored'] * (len(ps) - len(roles))
            key = f['key']
            try:
                # archetypes with a trivial default constructor get no object from default-initialisation: nothing to see there
                Machine.trivial_default = prog.meta.get('elem') in gen.TRIV_COPY and 'default_construct' in sn
                paths, bad = memalg_explore(prog, f, E, kind, roles_full, prog.meta.get('elem') in gen.RELOC)
            except Unknown as e:
                rr.broken = rr.broken or 'MEMALG-LAYOUT: cannot interpret %s: %s' % (f['pname'][:110], e)
                continue
            finally:
                Machine.trivial_default = False
            rr.instance('%s|%s' % (key, prog.uname), {'function': f['pname'][:140], 'contract': MEMALG_TEXT[kind], 'paths': paths, 'verdict': 'violated' if bad else 'as the standard algorithm'})
            if bad and key not in seen:
                seen.add(key)
                msg, node, where, cons = bad
                rr.add(Finding('MEMALG-LAYOUT', key, f['loc'], '%s%s: %s - on the path where %s.  Contract: %s'
                               % (sn, (' in ' + ' > '.join(where)) if where else '', msg, ', '.join(cons) or 'no condition', MEMALG_TEXT[kind]),
                               where=f['pname'], unit=prog.uname))
    return rr
