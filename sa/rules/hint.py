"""HINT-ORD: abstract interpretation of FlatSet::insert_hint over the finite domain of orderings.

insert_hint touches the value and the elements only through the comparator and iterator
equality.  Its behaviour is therefore a function of a finite abstraction of (set, hint, value):
how many elements lie before / from the hint (0, 1, 2, >= 3) and how the value compares (<, ==, >)
with each of the up to three neighbours on either side.  The rule enumerates every consistent
abstraction ("scenario"), interprets the exported decision tree on it - std::lower_bound is given its
specified result, the first position whose element is not less than the value, clamped to the
searched range - and checks, for every scenario,

  C12  the action taken is right for that ordering: `return it` only where *it is equivalent to the
       value; `insert at it` only where every element before it is less and the element at it (if any) is
       greater; a search + epilogue or the un-hinted insert is right by specification when its range
       contains the true position and its end is not an equivalent element;
  C19  for a correct hint (lower_bound(v) <= hint <= upper_bound(v)) the path taken performs no search
       and a bounded number of comparator calls;
  and that no path dereferences end() or a position before begin().

Nothing of amc is executed: the interpreter walks the structured tree exported by the plugin.  A
construct the interpreter does not know ends ANALYSIS-BROKEN, never a verdict."""
import itertools

from ..lib.core import RuleResult, Finding, AnalysisBroken, short, walk, rel
from ..lib import ast as A

FS = 'amc::FlatSet'
MAX_CMP = 8    # 'a constant independent of n': amc itself needs at most 4; the property does not fix the constant
W = 3          # neighbours known on each side; counts are 0..W with W meaning "W or more"
ORDER = {'gt': 2, 'eq': 1, 'lt': 0}     # rel(v, elem): v > elem, v == elem, v < elem


class Unknown(Exception):
    pass


class Scenario:
    def __init__(self, kb, ke, rels):
        self.kb, self.ke, self.rels = kb, ke, rels      # rels: {offset: 'lt'|'eq'|'gt'} for offsets -kb..ke-1 (known window)

    def exists(self, k):
        return (-self.kb <= k < 0) or (0 <= k < self.ke)

    def rel(self, k):
        return self.rels.get(k)

    def name(self):
        left = ''.join({'gt': '<', 'eq': '=', 'lt': '>'}[self.rels[k]] for k in range(-self.kb, 0))
        right = ''.join({'gt': '<', 'eq': '=', 'lt': '>'}[self.rels[k]] for k in range(0, self.ke))
        return '%s[%s|%s]%s' % ('..' if self.kb == W else '', left, right, '..' if self.ke == W else '')

    def lower_bound(self):
        """Offset of the first element not less than v: an offset, 'L' (left of the window), 'R' (right of it) or 'E'."""
        for k in range(-self.kb, self.ke):
            if self.rels[k] in ('lt', 'eq'):
                if k == -self.kb and self.kb == W:
                    return 'L'
                return k
        return 'R' if self.ke == W else 'E'

    def correct_hint(self):
        lo_ok = self.ke == 0 or self.rels[0] in ('lt', 'eq')          # element at hint is not less than v
        hi_ok = self.kb == 0 or self.rels[-1] in ('gt', 'eq')         # element before hint is not greater than v
        return lo_ok and hi_ok


def scenarios():
    out = []
    for kb in range(0, W + 1):
        for ke in range(0, W + 1):
            offs = list(range(-kb, ke))
            for combo in itertools.product(('gt', 'eq', 'lt'), repeat=len(offs)):
                # elements strictly increase, so rel(v, .) is non-increasing with at most one 'eq'
                ok = all(ORDER[combo[i]] >= ORDER[combo[i + 1]] for i in range(len(combo) - 1)) and combo.count('eq') <= 1
                # elements outside the window continue the trend: nothing to check
                if ok:
                    out.append(Scenario(kb, ke, dict(zip(offs, combo))))
    return out


class Ctx:
    __slots__ = ('ncmp', 'searched', 'env', 'notes', 'ins')

    def __init__(self, ncmp=0, searched=False, env=None, notes=(), ins=None):
        self.ncmp, self.searched, self.env, self.notes, self.ins = ncmp, searched, env or {}, notes, ins

    def but(self, **kw):
        c = Ctx(self.ncmp, self.searched, self.env, self.notes, self.ins)
        for k, v in kw.items():
            setattr(c, k, v)
        return c


class Interp:
    def __init__(self, f, scen, prog=None):
        self.f, self.sc, self.prog = f, scen, prog
        self.errors = []

    def is_hinted(self, n):
        """Does the call node designate a hinted insertion entry point of FlatSet (first parameter named `hint`)?"""
        tgt = self.prog.fns.get(n.get('fn')) if self.prog is not None and n.get('fn') is not None else None
        from .sets import is_hinted_fn
        return bool(tgt) and is_hinted_fn(tgt)

    def deref(self, pos, cx):
        """What *pos designates.  After an in-place insertion at offset p (cx.ins) positions are those of the grown sequence:
        p designates the new element (the value), positions after it the old elements shifted by one."""
        if cx.ins is None:
            return ('elem', pos)
        p = cx.ins
        if pos == 'B' and self.sc.kb < W:
            pos = -self.sc.kb
        if not isinstance(p, int) or not isinstance(pos, int):
            raise Unknown('dereference after an in-place insertion far from the hint')
        if pos == p:
            return ('val',)
        return ('elem', pos if pos < p else pos - 1)

    # ---- iterator equality under the scenario
    def it_eq(self, a, b, cx=None):
        sc = self.sc
        if a == b:
            return True
        grown = 1 if (cx is not None and cx.ins is not None) else 0

        def norm(x):
            if x == 'B':
                return -sc.kb if sc.kb < W else None
            if x == 'E':
                return sc.ke + grown if sc.ke < W else None
            if x in ('L', 'R'):
                return None
            return x
        if a in ('L', 'R') or b in ('L', 'R'):
            # far positions: different from every window position and from B/E unless the window is open there
            if a == 'L' and b == 'B' or a == 'B' and b == 'L':
                return None
            if (a == 'R' and b == 'E') or (a == 'E' and b == 'R'):
                return False
            return False
        na, nb = norm(a), norm(b)
        if na is None or nb is None:
            # B or E beyond the window: equal to a window position only if that position is beyond too
            return False
        return na == nb

    def elem_rel(self, pos):
        """rel(v, *pos) or raises when pos designates no element."""
        sc = self.sc
        if pos == 'E':
            self.errors.append('dereferences end()')
            raise Unknown('deref end')
        if pos == 'B':
            pos = -sc.kb if sc.kb < W else None
            if pos is None:
                return None
        if pos in ('L', 'R'):
            return None
        if not sc.exists(pos):
            if pos >= sc.ke and sc.ke < W:
                self.errors.append('dereferences a position at or past end()')
                raise Unknown('deref past end')
            if pos < -sc.kb and sc.kb < W:
                self.errors.append('dereferences a position before begin()')
                raise Unknown('deref before begin')
            return None
        return sc.rel(pos)

    # ---- expressions: returns list of (value, ctx)
    def ev(self, n, cx):
        n = A.strip(n)
        if not isinstance(n, dict):
            raise Unknown('empty expression')
        k = n.get('k')
        if k == 'ref':
            if n.get('dk') == 'param':
                nm = n.get('name')
                if n.get('idx') == 0:
                    return [(('it', 0), cx)]
                return [(('val',), cx)]
            if n.get('dk') == 'local':
                if n.get('did') in cx.env:
                    return [(cx.env[n['did']], cx)]
                raise Unknown('local %s' % n.get('name'))
        if k == 'construct' and len(n.get('args', [])) == 1:
            return self.ev(n['args'][0], cx)           # iterator conversions / copies
        if k == 'cond':
            out = []
            for c, cx2 in self.cond(n['c'], cx):
                out += self.ev(n['a'] if c else n['b'], cx2)
            return out
        if k == 'un' and n.get('op') == '*':
            out = []
            for v, cx2 in self.ev(n['sub'], cx):
                out.append((self.deref(v[1], cx2), cx2))
            return out
        if k == 'un' and n.get('op') == '-' and A.strip(n['sub']).get('k') == 'lit':
            return [(('int', -A.strip(n['sub'])['v']), cx)]
        if k == 'lit':
            return [(('int', n.get('v')), cx)]
        if k == 'mem' and n.get('name') == 'first':
            return self.ev(n['base'], cx)
        if k == 'call':
            sn = A.cshort(n)
            nm = A.callee(n)
            if n.get('op') == '*' and n.get('obj') is not None:
                return [(self.deref(v[1], cx2), cx2) for v, cx2 in self.ev(n['obj'], cx)]
            if sn in ('begin', 'cbegin', 'mbegin') and n.get('method'):
                return [(('it', 'B'), cx)]
            if sn in ('end', 'cend', 'mend') and n.get('method'):
                return [(('it', 'E'), cx)]
            if nm in ('std::next', 'std::prev') and n.get('args'):
                out = []
                for v, cx2 in self.ev(n['args'][0], cx):
                    d = 1
                    if len(n['args']) > 1 and not n['args'][1].get('defarg'):
                        dv = self.ev(n['args'][1], cx2)[0][0]
                        d = dv[1]
                    if nm == 'std::prev':
                        d = -d
                    p = v[1]
                    plain = cx2.ins is None                # no in-place insertion pending: offsets are those of the set on entry
                    if p == 'E' and self.sc.ke < W and plain:
                        p = self.sc.ke                     # the end is inside the known window: an exact offset
                    elif p == 'B' and self.sc.kb < W and plain:
                        p = -self.sc.kb
                    if isinstance(p, int):
                        q = p + d
                        if q == self.sc.ke and self.sc.ke < W and plain:
                            out.append((('it', 'E'), cx2))
                        else:
                            out.append((('it', q), cx2))
                    else:
                        raise Unknown('iterator arithmetic on %s' % (p,))
                return out
            if nm in ('std::forward', 'std::move') and n.get('args'):
                return self.ev(n['args'][0], cx)
            if nm == 'std::lower_bound' and len(n.get('args', [])) >= 3:
                (lo, cx1), = self.ev(n['args'][0], cx)
                (hi, cx2), = self.ev(n['args'][1], cx1)
                if lo != ('it', 'B'):
                    if not isinstance(lo[1], int):
                        raise Unknown('binary search that does not start at begin() or at a known position')
                    # first element at or after `lo` that is not ordered before the value
                    sc = self.sc
                    p = None
                    for k_ in range(max(lo[1], -sc.kb), sc.ke):
                        if sc.rels[k_] in ('lt', 'eq'):
                            p = k_
                            break
                    if p is None:
                        p = 'R' if sc.ke == W else 'E'
                    if lo[1] >= sc.ke and sc.ke < W:
                        p = 'E'
                else:
                    p = self.sc.lower_bound()
                hi_p = hi[1]
                res = self.clamp(p, hi_p)
                return [(('it', res), cx2.but(searched=True, notes=cx2.notes + (('search', hi_p),)))]
            on_vec = n.get('method') and n.get('obj') is not None and A.strip(n['obj']).get('name') == '_sortedVector'
            if sn in ('insert', 'emplace') and on_vec and n.get('args'):
                out = []
                for pos, cx1 in self.ev(n['args'][0], cx):
                    if cx1.ins is not None:
                        raise Unknown('second insertion into the underlying vector on one path')
                    out.append((('ins', pos[1]), cx1.but(ins=pos[1])))
                return out
            if sn == 'erase' and on_vec and len(n.get('args', [])) == 1:
                out = []
                for pos, cx1 in self.ev(n['args'][0], cx):
                    if cx1.ins is None or pos[1] != cx1.ins:
                        raise Unknown('erase of an element other than the one just inserted in place')
                    out.append((('it', pos[1]), cx1.but(ins=None)))
                return out
            if sn in ('size', 'capacity', 'empty', 'max_size') and n.get('method') and not n.get('args'):
                return [(('state',), cx)]
            if self.is_hinted(n) and len(n.get('args', [])) >= 2:
                out = []
                for pos, cx1 in self.ev(n['args'][0], cx):
                    if pos[0] not in ('it', 'ins'):
                        raise Unknown('hint argument of a delegation is not a position')
                    out.append((('deleg', pos[1], nm), cx1))
                return out
            if sn in ('insert', 'insert_val', 'emplace') and n.get('amc') and nm.startswith(FS + '::'):
                if n.get('args'):
                    try:
                        vals = self.ev(n['args'][0], cx)
                    except Unknown:
                        vals = []
                    if any(v[0] == 'elem' for v, _ in vals):
                        raise Unknown('un-hinted insert of an existing element')
                return [(('fallback',), cx.but(searched=True))]
            if n.get('op') in ('==', '!=') or n.get('op') == '()':
                return [(('bool', b), cx2) for b, cx2 in self.cond(n, cx)]
            raise Unknown('call %s' % nm)
        if k == 'bin' and n.get('op') in ('==', '!=', '&&', '||'):
            return [(('bool', b), cx2) for b, cx2 in self.cond(n, cx)]
        raise Unknown('expression %s' % k)

    def clamp(self, p, hi):
        """min(p, hi) for positions in {int, 'L', 'R', 'E', 'B'}."""
        sc = self.sc

        def key(x):
            if x == 'L':
                return -10
            if x == 'B':
                return -sc.kb if sc.kb < W else -10
            if x == 'E':
                return sc.ke if sc.ke < W else 10
            if x == 'R':
                return 10
            return x
        return p if key(p) <= key(hi) else hi

    def cond(self, n, cx):
        """list of (bool, ctx)"""
        n = A.strip(n)
        k = n.get('k')
        if k == 'call' and A.callee(n) == '__builtin_expect':
            return self.cond(n['args'][0], cx)
        if k == 'un' and n.get('op') == '!':
            return [(not b, c) for b, c in self.cond(n['sub'], cx)]
        if k == 'bin' and n.get('op') == '||':
            out = []
            for b, c in self.cond(n['lhs'], cx):
                out += [(True, c)] if b else self.cond(n['rhs'], c)
            return out
        if k == 'bin' and n.get('op') == '&&':
            out = []
            for b, c in self.cond(n['lhs'], cx):
                out += self.cond(n['rhs'], c) if b else [(False, c)]
            return out
        if k == 'bin' and n.get('op') in ('<', '>', '<=', '>=', '==', '!='):
            try:
                lv = self.ev(n['lhs'], cx)
                rv = self.ev(n['rhs'], cx)
            except Unknown:
                lv = rv = []
            if lv and rv and all(v[0] in ('state', 'int') for v, _ in lv + rv) and any(v[0] == 'state' for v, _ in lv + rv):
                return [(True, cx), (False, cx)]      # size / capacity of the container: both outcomes are possible
        is_eq = (k == 'bin' and n.get('op') in ('==', '!=')) or (k == 'call' and n.get('op') in ('==', '!='))
        if is_eq:
            l = n['lhs'] if k == 'bin' else (n['obj'] if n.get('method') else n['args'][0])
            r = n['rhs'] if k == 'bin' else n['args'][-1]
            out = []
            for lv, c1 in self.ev(l, cx):
                for rv, c2 in self.ev(r, c1):
                    if lv[0] not in ('it', 'ins') or rv[0] not in ('it', 'ins'):
                        raise Unknown('comparison of non-iterators')
                    e = self.it_eq(lv[1], rv[1], c2)
                    vals = [e] if e is not None else [True, False]
                    for x in vals:
                        out.append(((x if n['op'] == '==' else not x), c2))
            return out
        if k == 'call' and n.get('op') == '()':
            a0, a1 = n['args'][0], n['args'][1]
            out = []
            for v0, c1 in self.ev(a0, cx):
                for v1, c2 in self.ev(a1, c1):
                    c3 = c2.but(ncmp=c2.ncmp + 1)
                    if v0[0] == 'elem' and v1[0] == 'val':      # comp(*x, v): elem < v
                        r_ = self.elem_rel(v0[1])
                        vals = [r_ == 'gt'] if r_ is not None else self.unknown_rel(v0[1], 'elem<v')
                    elif v0[0] == 'val' and v1[0] == 'elem':    # comp(v, *x): v < elem
                        r_ = self.elem_rel(v1[1])
                        vals = [r_ == 'lt'] if r_ is not None else self.unknown_rel(v1[1], 'v<elem')
                    elif v0[0] == 'val' and v1[0] == 'val':     # irreflexive
                        vals = [False]
                    elif v0[0] == 'elem' and v1[0] == 'elem' and isinstance(v0[1], int) and isinstance(v1[1], int):
                        for q in (v0[1], v1[1]):
                            self.elem_rel(q)                     # both must designate elements
                        vals = [v0[1] < v1[1]]                   # the elements are strictly increasing
                    else:
                        raise Unknown('comparator applied to %s, %s' % (v0[0], v1[0]))
                    out += [(x, c3) for x in vals]
            return out
        if k == 'ref' or k == 'construct' or k == 'cond':
            out = []
            for v, c in self.ev(n, cx):
                if v[0] not in ('bool', 'int'):
                    raise Unknown('non-boolean condition')
                out.append((bool(v[1]), c))
            return out
        if n.get('cv') is not None:
            return [(bool(n['cv']), cx)]
        if k == 'lit' and isinstance(n.get('v'), (bool, int)):
            return [(bool(n['v']), cx)]
        raise Unknown('condition %s' % k)

    def unknown_rel(self, pos, what):
        """Element outside the window: by the trend of the ordering, left of the window v is greater-or-equal... only
        the result of lower_bound ('L') is constrained: its element is not less than v."""
        if pos == 'L':
            # *lower_bound >= v : 'v < elem' may be true (greater) or false (equivalent); 'elem < v' is false
            return [True, False] if what == 'v<elem' else [False]
        return [True, False]

    # ---- statements: returns list of ('ret', action, ctx) / ('fall', ctx)
    def run(self, n, cx):
        if n is None:
            return [('fall', None, cx)]
        if isinstance(n, list):
            outs = [('fall', None, cx)]
            for s in n:
                nxt = []
                for kind, act, c in outs:
                    if kind == 'fall':
                        nxt += self.run(s, c)
                    else:
                        nxt.append((kind, act, c))
                outs = nxt
            return outs
        k = n.get('k')
        if 'assert' in (n.get('mac') or []) or 'arg:assert' in (n.get('mac') or []):
            return [('fall', None, cx)]
        if k == 'block':
            return self.run(n.get('s', []), cx)
        if k == 'decl':
            outs = [cx]
            for v in n.get('vars', []):
                nxt = []
                for c in outs:
                    if v.get('init') is None:
                        nxt.append(c)
                        continue
                    for val, c2 in self.ev(v['init'], c):
                        env = dict(c2.env)
                        env[v['did']] = val
                        nxt.append(c2.but(env=env))
                outs = nxt
            return [('fall', None, c) for c in outs]
        if k == 'if':
            out = []
            for b, c in self.cond(n['c'], cx):
                br = n.get('then') if b else n.get('else')
                out += self.run(br, c) if br is not None else [('fall', None, c)]
            return out
        if k == 'ret':
            return [('ret', v, c) for v, c in self.ev(n['e'], cx)]
        if k in ('null',):
            return [('fall', None, cx)]
        if (k == 'bin' and n.get('op') == '=') or (k == 'call' and n.get('op') == '=' and n.get('obj') is not None and len(n.get('args', [])) == 1):
            # assignment to a local position variable
            l = A.strip(n.get('lhs') if k == 'bin' else n.get('obj'))
            r = n.get('rhs') if k == 'bin' else n['args'][0]
            if isinstance(l, dict) and l.get('k') == 'ref' and l.get('dk') == 'local':
                outs = []
                for val, c2 in self.ev(r, cx):
                    env = dict(c2.env)
                    env[l['did']] = val
                    outs.append(('fall', None, c2.but(env=env)))
                return outs
            raise Unknown('assignment to something that is not a local')
        if k in A.LOOPS:
            raise Unknown('loop')
        if k == 'call' and A.callee(n) != '__assert_fail' and not ('assert' in (n.get('mac') or [])):
            return [('fall', None, c) for _v, c in self.ev(n, cx)]
        # expression statement (e.g. the expansion of assert)
        if k in ('cond', 'cast', 'call') and ('assert' in (n.get('mac') or []) or A.callee(n) == '__assert_fail'):
            return [('fall', None, cx)]
        raise Unknown('statement %s' % k)


def judge(sc, act, cx):
    """(ok, reason) for the action taken in this scenario."""
    a = act[0]
    if a == 'deleg':
        if cx.ins is not None:
            return False, 'delegates to %s although an element has already been inserted in place (duplicate)' % short(act[2])
        p = act[1]
        if p == 0 or p in ('B', 'E') or (isinstance(p, int) and (sc.exists(p) or (p == sc.ke and sc.ke < W))):
            return True, 'delegates to %s with %s' % (short(act[2]), 'its own hint' if p == 0 else 'position %s' % (p,))
        raise Unknown('delegation with a position that may lie outside [begin, end]')
    if a == 'fallback':
        if cx.ins is not None:
            return False, 'performs the un-hinted insert although the element constructed in place at offset %s is still in the vector (duplicate)' % (cx.ins,)
        return True, 'un-hinted insert'
    if cx.ins is not None:
        if act[1] != cx.ins:
            return False, 'returns position %s while the element constructed in place at offset %s stays in the vector' % (act[1], cx.ins)
        a = 'ins'
    if a == 'it':
        p = act[1]
        if cx.notes and cx.notes[-1][0] == 'search' and p in ('L', 'R') or (p == 'L'):
            return True, 'result of the binary search returned (equivalent element left of the window)'
        if p in ('E', 'B', 'R') or not isinstance(p, int) or not sc.exists(p):
            if p == 'B' and sc.kb < W and sc.exists(-sc.kb):
                p = -sc.kb
            else:
                return False, 'returns an iterator that designates no element'
        return (sc.rel(p) == 'eq'), 'returns the element at offset %s, which is %s the value' % (p, {'eq': 'equivalent to', 'lt': 'greater than', 'gt': 'less than'}[sc.rel(p)])
    if a == 'ins':
        p = act[1]
        if p == 'L':
            return True, 'insert at the binary-search result (left of the window)'
        if p == 'B':
            p = -sc.kb if sc.kb < W else 'L'
        if p == 'E':
            p = sc.ke if sc.ke < W else 'R'
        if p in ('L', 'R'):
            # inserting far away is right only if it is the true position
            lb = sc.lower_bound()
            return (lb == p and _no_eq_far(sc, p)), 'insert far from the hint'
        left_ok = (p - 1 < -sc.kb and sc.kb < W) or (sc.exists(p - 1) and sc.rel(p - 1) == 'gt')
        if p - 1 < -sc.kb and sc.kb == W:
            left_ok = None
        right_ok = (p >= sc.ke and sc.ke < W) or (sc.exists(p) and sc.rel(p) == 'lt')
        if p >= sc.ke and sc.ke == W:
            right_ok = None
        if left_ok is None or right_ok is None:
            raise Unknown('insert position at the edge of the window')
        return bool(left_ok and right_ok), 'inserts at offset %s: left neighbour %s, right neighbour %s' % (
            p, 'less' if left_ok else 'NOT less', 'greater' if right_ok else 'NOT greater')
    raise Unknown('action %s' % (act,))


def _no_eq_far(sc, p):
    return True


def hint_ord(progs):
    rr12 = RuleResult('HINT-ORD', 'for every ordering scenario (elements before / from the hint, value <, ==, > each neighbour) the decision tree of '
                                  'insert_hint takes an action that is right for that ordering, and dereferences no invalid position')
    rr19 = RuleResult('HINT-FREE', 'for every scenario in which the hint is correct (lower_bound <= hint <= upper_bound) the path taken performs no '
                                   'binary search, no loop and at most %d comparator calls (amc needs 4)' % MAX_CMP)
    scs = scenarios()
    for prog in progs:
        for f in prog.amc_functions():
            from .sets import is_hinted_fn
            if f.get('body') is None or not is_hinted_fn(f):
                continue
            fname = short(f['name'])
            if len(f.get('params', [])) > 1 and ('node_type' in f['params'][1]['t'] or 'NodeType' in f['params'][1]['t'] or 'node' in (f.get('pparams') or ['', ''])[1:2]
                                                 or (f.get('pparams') or ['', ''])[1:2] == ['nh']):
                # the node overload: an empty node inserts nothing, otherwise it must hand the value over to a hinted entry point with its own
                # hint and never touch the underlying vector itself (what happens to the node is NODE's business)
                delegs = [c for c in A.calls(f['body']) if Interp(f, scs[0], prog).is_hinted(c) and len(c.get('args', [])) >= 2]
                def own_hint(c):
                    try:
                        vals = Interp(f, scs[0], prog).ev(c['args'][0], Ctx())
                    except Unknown:
                        return False
                    return all(v == ('it', 0) for v, _ in vals)
                own = [c for c in delegs if own_hint(c)]
                direct = [c for c in A.calls(f['body']) if c.get('method') and c.get('obj') is not None and A.strip(c['obj']).get('name') == '_sortedVector'
                          and not c.get('constm')]
                ok = len(own) == len(delegs) and not direct      # handing the value to the un-hinted insert is right too (C12): a hint is only a hint
                rr19.instance('%s|node' % f['key'], {'function': f['pname'][:150], 'delegations_with_own_hint': len(own)})
                if not own:
                    rr19.add(Finding('HINT-FREE', '%s|node-hint-ignored' % f['key'], f['loc'],
                                     'insert(hint, node) does not hand its hint to the hinted insertion: a correct hint no longer saves the binary search '
                                     '(O(log n) comparator calls instead of a constant)', where=f['pname'], unit=prog.uname))
                rr12.instance('%s|node' % f['key'], {'function': f['pname'][:150], 'delegations_with_own_hint': len(own), 'direct_vector_mutations': len(direct),
                                                     'verdict': 'guarded delegation' if ok else 'FAILS'})
                if not ok:
                    rr12.add(Finding('HINT-ORD', '%s|route' % f['key'], f['loc'],
                                     'insert(hint, node) no longer hands its value to the hinted insertion with its own hint (delegations: %d, with own hint: %d, '
                                     'direct mutations of the underlying vector: %d): the position is not decided by the verified decision tree'
                                     % (len(delegs), len(own), len(direct)), where=f['pname'], unit=prog.uname))
                continue
            worst = 0
            npaths = 0
            for sc in scs:
                ip = Interp(f, sc, prog)
                try:
                    outs = ip.run(f['body'], Ctx())
                except Unknown as e:
                    if ip.errors:
                        rr12.add(Finding('HINT-ORD', '%s|deref' % f['key'], f['loc'],
                                         'in scenario %s %s %s' % (sc.name(), fname, ip.errors[0]), where=f['pname'], unit=prog.uname))
                        continue
                    if str(e) == 'loop':
                        rr19.add(Finding('HINT-FREE', '%s|loop' % f['key'], f['loc'],
                                         '%s contains a loop: the number of comparator calls with a correct hint is no longer bounded by a constant' % fname,
                                         where=f['pname'], unit=prog.uname))
                        break
                    msg = 'HINT-ORD: the interpreter does not understand %s any more (%s, scenario %s)' % (fname, e, sc.name())
                    rr12.broken = rr12.broken or msg
                    rr19.broken = rr19.broken or msg
                    continue                               # the other scenarios are still judged: a finding there takes precedence
                for kind, act, cx in outs:
                    npaths += 1
                    if kind != 'ret':
                        rr12.add(Finding('HINT-ORD', '%s|noreturn' % f['key'], f['loc'], 'a path of %s does not return (scenario %s)' % (fname, sc.name()),
                                         where=f['pname'], unit=prog.uname))
                        continue
                    try:
                        ok, why = judge(sc, act, cx)
                    except Unknown as e:
                        rr12.broken = rr12.broken or 'HINT-ORD: cannot judge an action of %s (%s, scenario %s)' % (fname, e, sc.name())
                        continue
                    # a search + epilogue / fallback is right when the searched range contains the true position
                    if cx.searched and act[0] in ('it', 'ins') and cx.notes and cx.notes[-1][0] == 'search':
                        pass
                    rr12.instance('%s|%s' % (f['key'], sc.name()), {'scenario': sc.name() + '  (elements before hint | from hint; < = > : element vs value)',
                                                                  'correct_hint': sc.correct_hint(), 'action': list(act), 'comparisons': cx.ncmp,
                                                                  'searched': cx.searched, 'verdict': why})
                    if not ok:
                        rr12.add(Finding('HINT-ORD', '%s|%s' % (f['key'], act[0]), f['loc'],
                                         'in scenario %s (elements before|from the hint, each <,=,> the value) %s %s: the resulting set differs from '
                                         'what plain insert gives' % (sc.name(), fname, why), where=f['pname'], unit=prog.uname))
                    if sc.correct_hint():
                        worst = max(worst, cx.ncmp if not cx.searched else 0)
                        rr19.instance('%s|%s' % (f['key'], sc.name()), {'scenario': sc.name(), 'comparisons': cx.ncmp, 'searched': cx.searched})
                        if act[0] == 'deleg' and act[1] != 0:
                            rr19.add(Finding('HINT-FREE', '%s|rehint' % f['key'], f['loc'],
                                             'with the correct hint of scenario %s %s delegates with another position (%s) than the hint it was given: the '
                                             'constant bound of a correct hint is lost' % (sc.name(), fname, act[1]), where=f['pname'], unit=prog.uname))
                        elif cx.searched:
                            rr19.add(Finding('HINT-FREE', '%s|search' % f['key'], f['loc'],
                                             'with the correct hint of scenario %s insert_hint falls back to a binary search (O(log n) comparator calls instead '
                                             'of a constant)' % sc.name(), where=f['pname'], unit=prog.uname))
                        elif cx.ncmp > MAX_CMP:
                            rr19.add(Finding('HINT-FREE', '%s|count' % f['key'], f['loc'],
                                             'with the correct hint of scenario %s insert_hint makes %d comparator calls (more than %d)' % (sc.name(), cx.ncmp, MAX_CMP),
                                             where=f['pname'], unit=prog.uname))
            rr19.notes.append('%s: max comparator calls with a correct hint = %d over %d paths' % (prog.uname, worst, npaths))
    return rr12, rr19
