"""The helper-role table (DESIGN.md 3.0): how calls are classified.  Names are short names within
namespaces std, amc, amc::vec, amc::memory_details.  A role that no longer resolves to any function
in the analysed units makes the rules that need it end ANALYSIS-BROKEN (floors)."""
from ..lib import ast as A
from ..lib.core import short

NS_OK = ('std::', 'amc::')

# construct family: short name -> index of the destination argument
CONSTRUCT_DEST = {
    'construct_at': 0, 'uninitialized_fill_n': 0, 'uninitialized_fill': 0,
    'uninitialized_copy': 2, 'uninitialized_copy_n': 2, 'uninitialized_move': 2, 'uninitialized_move_n': 2,
    'uninitialized_value_construct': 0, 'uninitialized_value_construct_n': 0,
    'uninitialized_default_construct': 0, 'uninitialized_default_construct_n': 0,
    'uninitialized_relocate': 2, 'uninitialized_relocate_n': 2, 'relocate_at': 1,
    # amc::vec helpers that construct (part of) their destination range
    'fill': 0, 'assign_n': 2, 'move_n': 2, 'emplace_n': 0, 'insert_n': 0,
    'uninitialized_copy_impl': 2, 'uninitialized_copy_n_impl': 2, 'uninitialized_move_impl': 2, 'uninitialized_move_n_impl': 2,
    'uninitialized_relocate_impl': 2, 'uninitialized_relocate_n_impl': 2, 'relocate_at_impl': 1, 'construct_at_impl': 0,
}
VEC_ONLY = {'fill', 'assign_n', 'move_n', 'emplace_n', 'insert_n'}   # these short names count only in amc::vec
DESTROY = {'destroy_at', 'destroy_n', 'destroy'}
ASSIGN_ALGOS = {'fill_n', 'fill', 'copy', 'copy_n', 'copy_backward', 'move', 'move_backward', 'swap_ranges', 'swap', 'iter_swap'}
HOLE_OPEN = {'shift_right'}
HOLE_RAW = {'destroy_after_shift'}
HOLE_CONSUME = {'assign_after_shift', 'fill_after_shift', 'copy_after_shift', 'relocate_after_shift'}
HOLE_CLOSE = {'shift_left': 'open', 'unshift_right': 'open', 'uninitialized_shift_left': 'raw'}
ERASE_FAMILY = {'erase_at', 'erase_n'}
SIZE_COMMIT = {'incrSize', 'decrSize', 'setSize'}
SIZE_LVALUE = {'msize', 'mcapacity'}
CAP_CHECK = {'adjustCapacity', 'adjustEachOtherCapacity', 'Check', 'reserve', 'grow'}
BASE_CLASSES = ('amc::vec::SmallVectorBase', 'amc::vec::StdVectorBase', 'amc::vec::StaticVectorBase')


def ns_ok(name):
    return name.startswith(NS_OK)


def role(n):
    """Role of a call node: (kind, detail) or (None, None)."""
    if not isinstance(n, dict) or n.get('k') != 'call':
        if isinstance(n, dict) and n.get('k') == 'new' and n.get('reserved_placement'):
            return 'construct', 'new'
        return None, None
    name = A.callee(n)
    sn = short(name)
    if not ns_ok(name):
        return None, None
    if sn in HOLE_OPEN and name.startswith('amc::vec::'):
        return 'hole_open', sn
    if sn in HOLE_RAW and name.startswith('amc::vec::'):
        return 'hole_raw', sn
    if sn in HOLE_CONSUME and name.startswith('amc::vec::'):
        return 'hole_consume', sn
    if sn in HOLE_CLOSE and name.startswith('amc::vec::'):
        return 'hole_close', HOLE_CLOSE[sn]
    if sn in ERASE_FAMILY and name.startswith('amc::vec::'):
        return 'erase', sn
    if sn in CONSTRUCT_DEST:
        if sn in VEC_ONLY and not name.startswith('amc::vec::'):
            if sn == 'fill' and name == 'std::fill':
                return 'assign', sn
            return None, None
        return 'construct', sn
    if sn in DESTROY:
        return 'destroy', sn
    if name.startswith('std::') and sn in ASSIGN_ALGOS:
        return 'assign', sn
    if sn in SIZE_COMMIT and n.get('method'):
        return 'commit', sn
    if sn in CAP_CHECK and (n.get('method') or name.endswith('GrowingPolicy::Check')):
        return 'check', sn
    return None, None


def role_via(prog, n, depth=0):
    """role(n), or - for a call to a private amc helper that is not a role function itself - the lifetime role its body performs
    (one level of helper extraction: `destroyFrom(n)` whose body is a destroy_n is a destroy)."""
    kd, det = role(n)
    if kd is not None or prog is None or not isinstance(n, dict) or n.get('k') != 'call' or not n.get('amc') or depth > 1:
        return kd, det
    g = prog.fns.get(n.get('fn'))
    if g is None or g.get('body') is None:
        return kd, det
    kinds = {}
    for c in A.calls(g['body']):
        k2, d2 = role_via(prog, c, depth + 1)
        if k2 in ('destroy', 'construct', 'erase', 'assign', 'hole_open', 'hole_consume', 'hole_close', 'commit', 'check'):
            kinds.setdefault(k2, d2)
    life = {k: v for k, v in kinds.items() if k in ('destroy', 'construct', 'erase', 'hole_open', 'hole_consume', 'hole_close')}
    if len(life) == 1 and 'commit' not in kinds:
        k2 = list(life)[0]
        return k2, life[k2]
    if 'commit' not in kinds and {'hole_open', 'hole_consume'} <= set(life) <= {'hole_open', 'hole_consume', 'hole_close'}:
        # the helper opens the hole and fills it (rolling back with the closer on failure): for its caller it constructs the new elements
        return 'hole_consume', life['hole_consume']
    return kd, det


def dest_arg(n):
    sn = A.cshort(n)
    i = CONSTRUCT_DEST.get(sn)
    if i is None:
        return None
    args = n.get('args', [])
    return args[i] if i < len(args) else None


def elem_storage_local(arg, linit=None):
    """did of the local ElemStorage<E> object if arg is `<local>.ptr()` (possibly through local pointer variables
    initialised with it), else None."""
    a = A.strip(arg)
    hops = 0
    while linit and isinstance(a, dict) and a.get('k') == 'ref' and a.get('dk') == 'local' and '*' in a.get('t', '') and hops < 4:
        ini = linit.get(a.get('did'))
        if not ini or ini[0] is None:
            return None
        a = A.strip(ini[0])
        hops += 1
    if isinstance(a, dict) and a.get('k') == 'call' and A.cshort(a) == 'ptr' and a.get('obj') is not None:
        o = A.strip(a['obj'])
        if o.get('k') == 'ref' and o.get('dk') == 'local' and 'ElemStorage<' in o.get('t', ''):
            return o.get('did')
    return None
