"""Lifetime typestate inside one operation (DESIGN.md 3.B): HOLE, TEMP, RAWTAIL, TAIL, STRONG, CHECK-DOM.

All run on the structured tree of every amc function of the vector layer and of memory.hpp, in the
instantiations whose element operations may throw.  `may throw` is not a guess: a call may throw iff a
throw source is reachable from its resolved callee without crossing a noexcept(true) function."""
from ..lib.core import RuleResult, Finding, short, walk, rel
from ..lib import ast as A
from ..lib.flow import Engine, Client
from . import roles as R
from . import callgraph as CG

LAYER_FILES = ('vectorcommon.hpp', 'memory.hpp', 'smallvector.hpp', 'allocator.hpp')


def in_layer(f):
    return any(f['loc'].split(':')[0].endswith(x) for x in LAYER_FILES)


class MayThrow:
    def __init__(self, prog):
        self.prog = prog
        self.may, self.src = CG.may_throw_set(prog)

    def __call__(self, n):
        k = n.get('k')
        if k == 'throw':
            return True
        if k in ('call', 'construct'):
            fid = n.get('fn')
            if fid is None:
                return not n.get('nothrow', False)
            if n.get('nothrow') and fid not in self.src:
                return False
            if fid in self.may:
                return True
            fx = self.prog.fns.get(fid)
            if fx is None:
                return not n.get('nothrow', False)
            return False
        if k == 'new':
            ini = A.strip(n.get('init')) if n.get('init') else None
            if isinstance(ini, dict) and ini.get('k') == 'construct':
                return self(ini)
            return False
        return False


class ObligationClient(Client):
    """State: frozenset of obligations
         ('hole','open'|'raw')   slots opened by shift_right and not yet re-filled / closed
         ('temp', did)           object constructed in a local ElemStorage, not yet destroyed / relocated
         ('raw',)                objects constructed in raw storage that no size commit covers yet"""

    def __init__(self, prog, f, may):
        self.prog = prog
        self.f = f
        self.may = may
        self.is_ctor_like = False
        self.dead_destroys = []
        self.linit = dict(A.local_inits(f.get('body') or {}))
        for st, lhs in A.stores(f.get('body') or {}):         # a re-assigned pointer local is not a stable alias
            l = A.strip(lhs)
            if isinstance(l, dict) and l.get('k') == 'ref' and l.get('dk') == 'local':
                self.linit.pop(l.get('did'), None)

    def is_event(self, n):
        return n.get('k') in ('call', 'construct', 'new', 'throw') or (n.get('k') == 'bin' and n.get('op') == '=')

    def enter_handler(self, try_node, handler, state, thrower):
        return state

    def event(self, n, s):
        k = n.get('k')
        if k == 'throw':
            return [('x', s)]
        if k == 'bin':
            # raw store to a size word commits
            lhs = A.strip(n.get('lhs'))
            if isinstance(lhs, dict) and ((lhs.get('k') == 'mem' and lhs.get('name') in ('_size', '_capa')) or
                                          (lhs.get('k') == 'call' and A.cshort(lhs) in R.SIZE_LVALUE)):
                return [('n', frozenset(o for o in s if o[0] != 'raw'))]
            return [('n', s)]
        kind, det = R.role(n)
        # a throwing destructor is outside the property (C09 does not quantify over it); so is a second exception
        # thrown by the roll-back itself while the first one is being handled (single-fault quantifier)
        may = self.may(n) and kind != 'destroy' and not (self.eng.handler_depth > 0 and n.get('k') != 'throw')
        out = []
        if may:
            out.append(('x', s))
        ns = s
        if kind == 'hole_open':
            ns = s | {('hole', 'open')}
        elif kind == 'hole_raw':
            if ('hole', 'open') in s:
                ns = (s - {('hole', 'open')}) | {('hole', 'raw')}
        elif kind == 'hole_consume':
            ns = frozenset(o for o in s if o[0] != 'hole')
            if det == 'relocate_after_shift' and n.get('args'):
                did = R.elem_storage_local(n['args'][0], self.linit)
                if did is not None:
                    ns = ns - {('temp', did)}
        elif kind == 'hole_close':
            ns = s - {('hole', det)}
        elif kind == 'construct':
            dest = R.dest_arg(n) if n.get('k') == 'call' else (n.get('placement') or [None])[0]
            did = R.elem_storage_local(dest, self.linit) if dest is not None else None
            if did is not None:
                ns = s | {('temp', did)}
            elif ('hole', 'raw') in s and det in ('construct_at', 'new'):
                ns = s - {('hole', 'raw')}      # the raw slot is re-filled
            else:
                ns = s | {('raw',)}
            if det == 'relocate_at' and n.get('args'):
                src = R.elem_storage_local(n['args'][0], self.linit)
                if src is not None:
                    ns = ns - {('temp', src)}
        elif kind == 'destroy':
            did = R.elem_storage_local(n['args'][0], self.linit) if n.get('args') else None
            if did is not None:
                if ('temp', did) not in s:
                    self.dead_destroys.append((n, did))      # destroys an object that was never constructed on this path
                ns = s - {('temp', did)}
            elif self.eng.handler_depth > 0:
                ns = frozenset(o for o in s if o[0] != 'raw')
            else:
                ns = s | {('dead',)}       # elements inside [begin, end) are gone: the size must follow before anything can throw
        elif kind == 'commit':
            ns = frozenset(o for o in s if o[0] not in ('raw', 'dead'))
        out.append(('n', ns))
        return out

    eng = None


def describe(node):
    if node is None:
        return '?'
    if node.get('k') == 'throw':
        return 'throw'
    return node.get('pname') or node.get('name') or node.get('k')


def obligations(progs, rule_filter=None):
    """HOLE / TEMP / RAWTAIL in one pass.  Returns {rule: RuleResult}."""
    res = {
        'HOLE': RuleResult('HOLE', 'every slot range opened by shift_right is re-filled on the normal path and closed by a handler '
                                   '(shift_left / uninitialized_shift_left + rethrow) on every exceptional path'),
        'TEMP': RuleResult('TEMP', 'an object constructed in a local ElemStorage is destroyed or relocated on every exit, including the '
                                   'exceptional successor of each may-throw call in between'),
        'DEAD-TAIL': RuleResult('DEAD-TAIL', 'between the destruction of elements that are still counted by size() and the size commit that stops counting them no '
                                             'may-throw call runs: an exception never leaves destroyed elements inside [begin, end)'),
        'RAWTAIL': RuleResult('RAWTAIL', 'between a construct into raw storage and the size commit covering it no may-throw call runs '
                                         'outside a handler that destroys the new objects'),
    }
    for prog in progs:
        may = MayThrow(prog)
        for f in prog.amc_functions():
            if f.get('body') is None or not in_layer(f):
                continue
            if short(f['name']) in R.HOLE_CLOSE and f['name'].startswith('amc::vec::'):
                continue    # the closers only run while an exception is being handled: a throw there is a second fault
            body = f['body']
            # only functions that contain a relevant primitive
            prims = [n for n in A.calls(body) if R.role(n)[0] in ('hole_open', 'hole_raw', 'hole_consume', 'hole_close', 'construct') or
                     (R.role(n)[0] == 'destroy' and f.get('clsq') in VEC_CLASSES[:4])] + \
                    [n for n in walk(body) if n.get('k') == 'new' and n.get('reserved_placement')]
            if not prims:
                continue
            cl = ObligationClient(prog, f, may)
            eng = Engine(cl)
            cl.eng = eng
            o = eng.run(body, frozenset(), f.get('inits'))
            site_base = '%s' % f['key']
            kinds_present = set()
            for n in prims:
                kd = R.role(n)[0]
                if kd and kd.startswith('hole'):
                    kinds_present.add('HOLE')
                if kd == 'construct' or n.get('k') == 'new':
                    d = R.dest_arg(n) if n.get('k') == 'call' else (n.get('placement') or [None])[0]
                    kinds_present.add('TEMP' if (d is not None and R.elem_storage_local(d, cl.linit) is not None) else 'RAWTAIL')
            if f.get('clsq') in VEC_CLASSES[:4] and any(R.role(n)[0] == 'destroy' for n in A.calls(body)):
                kinds_present.add('DEAD-TAIL')
            for kp in kinds_present:
                res[kp].instance('%s|%s' % (kp, site_base), {'function': f['pname'][:150], 'unit': prog.uname,
                                                             'normal_exit_states': len(o.normal) + len(o.returns),
                                                             'exceptional_exit_states': len(o.throws)})
            for n_, did_ in cl.dead_destroys:
                res['TEMP'].add(Finding('TEMP', '%s|destroy-nonlive' % f['key'], prog.site(f, n_),
                                        'the object in the local ElemStorage is destroyed on a path on which it was never constructed (e.g. its own constructor '
                                        'threw): a destructor runs on raw storage', where=f['pname'], unit=prog.uname))
            # normal exits
            for s in list(o.normal) + [st for st, _ in o.returns]:
                for ob in s:
                    if ob[0] == 'hole':
                        res['HOLE'].add(Finding('HOLE', '%s|normal|%s' % (f['key'], ob[1]), f['loc'],
                                                'a slot opened by shift_right is still %s when the function returns normally' % ob[1],
                                                where=f['pname'], unit=prog.uname))
                    elif ob[0] == 'temp':
                        res['TEMP'].add(Finding('TEMP', '%s|normal' % f['key'], f['loc'],
                                                'the object built in a local ElemStorage is neither destroyed nor relocated on a normal path',
                                                where=f['pname'], unit=prog.uname))
            # exceptional exits
            for s, thrower in o.throws:
                tn = eng.nodes.get(thrower)
                tdesc = describe(tn)
                tshort = short((tn or {}).get('name', '') or 'throw')
                for ob in s:
                    site = prog.site(f, tn) if tn is not None else f['loc']
                    if ob[0] == 'hole':
                        res['HOLE'].add(Finding('HOLE', '%s|throw|%s|%s' % (f['key'], ob[1], tshort), site,
                                                '%s may throw while the slots opened by shift_right are %s and no handler closes them: '
                                                'moved-from / raw slots stay inside [begin,end) and the shifted tail is lost' % (tdesc[:120], ob[1]),
                                                where=f['pname'], unit=prog.uname))
                    elif ob[0] == 'temp':
                        res['TEMP'].add(Finding('TEMP', '%s|throw|%s' % (f['key'], tshort), site,
                                                '%s may throw while the object built in a local ElemStorage is alive and no handler destroys it (leak)'
                                                % tdesc[:120], where=f['pname'], unit=prog.uname))
                    elif ob[0] == 'dead' and f.get('clsq') in VEC_CLASSES[:4]:
                        res['DEAD-TAIL'].add(Finding('DEAD-TAIL', '%s|throw|%s' % (f['key'], tshort), site,
                                                     '%s may throw after elements still counted by size() were destroyed and before the size is updated: the '
                                                     'container is left with destroyed elements inside [begin, end) (they are destroyed again later)' % tdesc[:120],
                                                     where=f['pname'], unit=prog.uname))
                    elif ob[0] == 'raw':
                        res['RAWTAIL'].add(Finding('RAWTAIL', '%s|throw|%s' % (f['key'], tshort), site,
                                                   '%s may throw after objects were constructed in raw storage that no size commit covers and no handler '
                                                   'destroys (leak)' % tdesc[:120], where=f['pname'], unit=prog.uname))
    return res


# ====================================================================================== CHECK-DOM
VEC_CLASSES = ('amc::vec::VectorImpl', 'amc::vec::StaticVector', 'amc::vec::DynamicVector', 'amc::Vector',
               'amc::vec::SmallVectorBase', 'amc::vec::StdVectorBase', 'amc::vec::StaticVectorBase')
STORAGE_ACCESSORS = {'begin', 'end', 'cbegin', 'cend', 'dyn', 'dynStorage', 'data'}


def dest_class(arg, linit, f, depth=0):
    """Where does a destination pointer expression point?  'fresh' (block just obtained from the
    allocator), 'inline' (the inline buffer member of an object of the function's own class), 'temp' (a local
    ElemStorage), ('storage', who) (the container's element storage: own / other operand), ('param', idx), 'unknown'."""
    n = arg
    while isinstance(n, dict) and depth < 40:
        depth += 1
        n = A.strip(n)
        k = n.get('k')
        if k == 'call':
            sn = A.cshort(n)
            if sn in ('allocate', 'reallocate', 'Reallocate'):
                return 'fresh'
            if sn == 'ptr' and n.get('obj') is not None:
                o = A.strip(n['obj'])
                if o.get('k') == 'ref' and o.get('dk') == 'local':
                    return 'temp'
                if o.get('k') == 'mem' and o.get('field'):
                    return 'inline'
                return 'unknown'
            if sn in STORAGE_ACCESSORS and n.get('obj') is not None:
                if A.callee(n).startswith('amc::vec::StaticVectorBase::') and f.get('clsq') == 'amc::vec::StaticVectorBase':
                    return 'inline'
                kind, r = A.root(n['obj'], linit)
                return ('storage', 'this' if kind == 'this' else (r.get('name') or kind))
            if sn in ('addressof', '__addressof', 'move', 'forward', 'next', 'prev', 'launder') and n.get('args'):
                n = n['args'][0]
                continue
            if n.get('method') and n.get('obj') is not None:
                n = n['obj']
                continue
            return 'unknown'
        if k == 'bin' and n.get('op') in ('+', '-'):
            l, r = n.get('lhs'), n.get('rhs')
            n = l if '*' in (A.strip(l) or {}).get('t', '') else r
            continue
        if k == 'un' and n.get('op') in ('&', '*', '++', '--'):
            n = n.get('sub')
            continue
        if k == 'idx':
            n = n.get('base')
            continue
        if k == 'ref':
            if n.get('dk') == 'local':
                ini = linit.get(n.get('did'))
                if ini and ini[0] is not None:
                    n = ini[0]
                    continue
                # assigned later: look for the (unique) assignment in the function
                asg = linit.get(('asg', n.get('did')))
                if asg:
                    classes = {repr(dest_class(a, linit, f, depth)) for a in asg}
                    vals = [dest_class(a, linit, f, depth) for a in asg]
                    # the weakest classification wins
                    for v in vals:
                        if isinstance(v, tuple):
                            return v
                    return vals[0]
                return 'unknown'
            if n.get('dk') == 'param':
                return ('param', n.get('idx'))
            return 'unknown'
        if k == 'mem':
            if n.get('field') and '*' in n.get('t', ''):
                kind, r = A.root(n.get('base'), linit)
                return ('storage', 'this' if kind == 'this' else (r.get('name') or kind))
            n = n.get('base')
            continue
        if k == 'cond':
            a = dest_class(n.get('a'), linit, f, depth)
            b = dest_class(n.get('b'), linit, f, depth)
            return a if isinstance(a, tuple) else b
        return 'unknown'
    return 'unknown'


def locals_with_assignments(body):
    li = dict(A.local_inits(body))
    for st, lhs in A.stores(body):
        l = A.strip(lhs)
        if isinstance(l, dict) and l.get('k') == 'ref' and l.get('dk') == 'local' and st.get('k') == 'bin' and st.get('op') == '=':
            li.setdefault(('asg', l.get('did')), []).append(st.get('rhs'))
    return li


def is_capacity_cmp(cond):
    from .shape import unwrap_cond, has_call
    cn, neg = unwrap_cond(cond)
    if not isinstance(cn, dict) or cn.get('k') != 'bin' or cn.get('op') not in ('<', '>', '<=', '>=', '==', '!='):
        return False
    return has_call(cn, 'capacity')


class CheckDomClient(Client):
    def __init__(self, prog, f, linit, report):
        self.prog, self.f, self.linit, self.report = prog, f, linit, report

    def is_event(self, n):
        return n.get('k') in ('call', 'new') or (n.get('k') == 'bin' and n.get('op') == '=')

    def assume(self, cond, truth, s):
        from .shape import unwrap_cond, has_call
        cn, neg = unwrap_cond(cond)
        truth = truth != neg
        if isinstance(cn, dict) and cn.get('k') == 'bin' and cn.get('op') in ('==', '!=') and has_call(cn, 'capacity') and has_call(cn, 'size'):
            eq = truth if cn['op'] == '==' else not truth
            if not eq:
                return s | {'room'}     # size() != capacity(): there is room for one more element
        # `capacity() < needed` false: the capacity of this container was compared and is sufficient
        if isinstance(cn, dict) and cn.get('k') == 'bin' and cn.get('op') in ('<', '>', '<=', '>='):
            l, r = cn.get('lhs'), cn.get('rhs')
            cap_l = has_call(l, 'capacity') and not has_call(r, 'capacity')
            cap_r = has_call(r, 'capacity') and not has_call(l, 'capacity')
            insufficient = (cn['op'] in ('<',) and cap_l) or (cn['op'] in ('>',) and cap_r)
            sufficient = (cn['op'] in ('>=',) and cap_l) or (cn['op'] in ('<=',) and cap_r)
            if (insufficient and not truth) or (sufficient and truth):
                return s | {'chk:this'}
        return s

    def event(self, n, s):
        if n.get('k') == 'bin':
            # re-initialisation to the empty inline state: (_capa, _size) <- (0, inplaceCapa); the inline capacity is a type fact
            lhs = A.strip(n.get('lhs') or {})
            rhs = A.strip(n.get('rhs') or {})
            if lhs.get('k') == 'mem' and lhs.get('field') and A.root(lhs, self.linit)[0] == 'this':
                if lhs.get('name') == '_capa' and (rhs.get('v') == 0 or rhs.get('cv') == 0):
                    return [('n', s | {'zero'})]
                if lhs.get('name') == '_size' and 'zero' in s and rhs.get('k') == 'ref' and rhs.get('dk') == 'param':
                    return [('n', (s - {'zero'}) | {'chk:this'})]
            return [('n', s)]
        kind, det = R.role(n)
        if kind == 'check':
            who = 'this'
            if n.get('obj') is not None:
                rk, r = A.root(n['obj'], self.linit)
                who = 'this' if rk == 'this' else (r.get('name') or rk)
            if det == 'adjustEachOtherCapacity':
                return [('n', s | {'chk:this', 'chk:*'})]
            return [('n', s | {'chk:' + who})]
        dests = []
        if kind in ('construct', 'hole_open'):
            if kind == 'hole_open':
                dests = n.get('args', [])[:1]
            else:
                d = R.dest_arg(n) if n.get('k') == 'call' else (n.get('placement') or [None])[0]
                dests = [d] if d is not None else []
        elif n.get('k') == 'call' and A.callee(n) == 'amc::vec::swap_deep':
            a = n.get('args', [])
            dests = [a[0], a[2]] if len(a) >= 4 else []
        for d in dests:
            dc = dest_class(d, self.linit, self.f)
            need = None
            if isinstance(dc, tuple) and dc[0] == 'storage':
                need = dc[1]
            elif isinstance(dc, tuple) and dc[0] == 'param':
                ps = self.f.get('params', [])
                pt = ps[dc[1]]['t'] if dc[1] is not None and dc[1] < len(ps) else ''
                if pt.rstrip().endswith('*'):
                    need = 'this'
            if need is not None:
                ok = ('chk:' + need) in s or 'chk:*' in s or (need == 'this' and 'room' in s and det in ('construct_at', 'new', 'emplace_n', 'insert_n'))
                self.report(n, need, ok, d)
        return [('n', s)]


def check_dom(progs, callers_establish=None):
    rr = RuleResult('CHECK-DOM', 'every construct / slot opening into a container\'s element storage is dominated by a capacity check of '
                                 'that container (or the destination is an inline buffer of the same class / a fresh block)')
    for prog in progs:
        for f in prog.amc_functions():
            if f.get('body') is None or f.get('clsq') not in VEC_CLASSES:
                continue
            body = f['body']
            has = any(R.role(n)[0] in ('construct', 'hole_open') or A.callee(n) == 'amc::vec::swap_deep' for n in A.calls(body)) or \
                any(n.get('k') == 'new' and n.get('reserved_placement') for n in walk(body))
            if not has:
                continue
            linit = locals_with_assignments(body)
            init = frozenset()
            # swap2_impl is only ever entered from swap2 after adjustEachOtherCapacity (checked as who-may-call); a private helper
            # extracted from it (or from any member entered that way) inherits the established check from all its callers

            def checked_entry(h, depth=0):
                if depth > 3:
                    return False
                callers = [g for g in prog.amc_functions() if h['id'] in g.get('calls', []) and g['id'] != h['id']]
                if not callers:
                    return False
                if short(h['name']) == 'swap2_impl':
                    return all(short(g['name']) == 'swap2' and _call_precedes(g, 'adjustEachOtherCapacity', h['id']) for g in callers)
                if h.get('access') == 'public':
                    return False
                # a private helper: every caller has run a capacity check of the container before it calls the helper, or is itself such a helper
                return all(_check_precedes(g, h['id']) or checked_entry(g, depth + 1) for g in callers)
            if checked_entry(f):
                init = frozenset({'chk:this', 'chk:*'})
            seen = {}

            def report(n, need, ok, d, f=f, prog=prog, seen=seen):
                key = (id(n), need)
                seen[key] = seen.get(key, True) and ok
                seen[('node', id(n))] = n

            cl = CheckDomClient(prog, f, linit, report)
            eng = Engine(cl)
            eng.run(body, init, f.get('inits'))
            i = 0
            for key, ok in list(seen.items()):
                if key[0] == 'node':
                    continue
                n = seen[('node', key[0])]
                rr.instance('%s|%s|%s' % (f['key'], A.cshort(n) or 'new', rel(prog.site(f, n))),
                            {'function': f['pname'][:150], 'construct': A.cshort(n) or 'placement new', 'destination_of': key[1], 'dominated_by_check': ok})
                if not ok:
                    rr.add(Finding('CHECK-DOM', '%s|%s|%s' % (f['key'], A.cshort(n) or 'new', key[1]), prog.site(f, n),
                                   '%s writes elements into the storage of %s on a path on which no capacity check of that container has run: '
                                   'the destination may be a buffer smaller than the number of elements written' % (A.cshort(n) or 'placement new', key[1]),
                                   where=f['pname'], unit=prog.uname))
    return rr


def _check_precedes(g, then_id):
    """In g's body a capacity check (role `check`: adjustCapacity, GrowingPolicy::Check, reserve ...) precedes every call to function id then_id."""
    order = A.eval_order(g.get('body') or {}, g.get('inits'))
    calls = sorted([n for n in walk(g.get('body') or {}) if n.get('k') == 'call' and id(n) in order], key=lambda n: order[id(n)])
    seen_check, any_call = False, False
    for n in calls:
        if R.role(n)[0] == 'check':
            seen_check = True
        if n.get('fn') == then_id:
            any_call = True
            if not seen_check:
                return False
    return any_call and seen_check


def _call_precedes(g, first_short, then_id):
    """In g's body a call named first_short precedes (statement order) every call to function id then_id."""
    order = A.eval_order(g.get('body') or {}, g.get('inits'))
    calls = sorted([n for n in walk(g.get('body') or {}) if n.get('k') == 'call' and id(n) in order], key=lambda n: order[id(n)])
    seen_first = False
    for n in calls:
        if A.cshort(n) == first_short:
            seen_first = True
        if n.get('fn') == then_id and not seen_first:
            return False
    return seen_first


# ====================================================================================== TAIL
class TailClient(Client):
    def __init__(self, report, prog=None):
        self.report = report
        self.prog = prog

    def is_event(self, n):
        return n.get('k') in ('call', 'new')

    def event(self, n, s):
        kind, det = R.role_via(self.prog, n)
        if n.get('k') == 'call' and A.callee(n) == 'amc::vec::swap_deep':
            return [('n', s | {'c', 'd'})]     # relocates the surplus elements of one operand into the other
        if kind in ('construct', 'hole_consume'):
            return [('n', s | {'c'})]
        if kind in ('destroy', 'erase'):
            return [('n', s | {'d'})]
        if kind == 'commit':
            if det == 'incrSize':
                self.report(n, 'c' in s, 'incrSize without a preceding construct')
            elif det == 'decrSize':
                self.report(n, 'd' in s, 'decrSize without a preceding destroy')
            else:
                self.report(n, bool(s), 'setSize without a preceding range construct or destroy')
        return [('n', s)]


def tail(progs):
    rr = RuleResult('TAIL', 'every size commit of a vector operation is preceded on its path by the lifetime operation it accounts for '
                            '(incrSize: a construct; decrSize: a destroy; setSize: a range construct or destroy)')
    for prog in progs:
        for f in prog.amc_functions():
            if f.get('body') is None or f.get('clsq') not in ('amc::vec::VectorImpl', 'amc::vec::StaticVector', 'amc::vec::DynamicVector', 'amc::Vector'):
                continue
            body = f['body']
            commits = [n for n in A.calls(body) if R.role(n)[0] == 'commit']
            if not commits:
                continue
            res = {}

            def report(n, ok, why):
                res[id(n)] = (res.get(id(n), (True, n, why))[0] and ok, n, why)
            Engine(TailClient(report, prog)).run(body, frozenset(), f.get("inits"))
            for ok, n, why in res.values():
                rr.instance('%s|%s' % (f['key'], A.cshort(n)), {'function': f['pname'][:150], 'commit': A.cshort(n), 'ok': ok})
                if not ok:
                    rr.add(Finding('TAIL', '%s|%s' % (f['key'], A.cshort(n)), prog.site(f, n), why + ': the size changes but no element lifetime does',
                                   where=f['pname'], unit=prog.uname))
    return rr


# ====================================================================================== STRONG
STRONG_FUNCS = {
    'amc::vec::VectorImpl::push_back', 'amc::vec::DynamicVector::emplace_back', 'amc::vec::StaticVector::emplace_back',
    'amc::vec::DynamicVector::emplace', 'amc::vec::StaticVector::emplace', 'amc::vec::VectorImpl::append',
    'amc::vec::VectorImpl::resize', 'amc::vec::DynamicVector::reserve', 'amc::vec::StaticVector::reserve',
    'amc::vec::insert_n', 'amc::vec::emplace_n', 'amc::vec::SmallVectorBase::grow', 'amc::vec::StdVectorBase::grow',
    'amc::vec::Reallocate', 'amc::vec::SmallVectorBase::shrink', 'amc::vec::StdVectorBase::shrink',
    'amc::vec::SmallVectorBase::resetToSmall', 'amc::vec::SmallVectorBase::shrink_impl', 'amc::vec::StdVectorBase::shrink_impl',
    'amc::Vector::shrink_to_fit',
}
STRONG_SINGLE_INSERT = 'amc::vec::VectorImpl::insert'     # only the single-element overloads (position, v)


class StrongClient(Client):
    def __init__(self, may, report, E):
        self.may, self.report, self.E = may, report, E
        self.eng = None

    def is_event(self, n):
        return n.get('k') in ('call', 'construct', 'new', 'throw', 'bin', 'un')

    @staticmethod
    def _bookkeeping(n):
        n = A.strip(n)
        return isinstance(n, dict) and n.get('k') == 'mem' and n.get('field') and n.get('name') in ('_capa', '_size', '_storage') and \
            A.root(n.get('base'))[0] == 'this'

    def event(self, n, s):
        if n.get('k') in ('bin', 'un'):
            tgt = n.get('lhs') if n.get('k') == 'bin' else n.get('sub')
            is_store = (n.get('k') == 'bin' and n.get('op', '').endswith('=') and n.get('op') not in ('==', '!=', '<=', '>=')) or \
                (n.get('k') == 'un' and n.get('op') in ('++', '--'))
            if is_store and self._bookkeeping(tgt):
                return [('n', s | {'dirty'})]
            return [('n', s)]
        kind, det = R.role(n)
        may = self.may(n) and kind != 'destroy'
        out = []
        protected = bool(self.eng.try_stack)
        # a size / capacity / storage word handed to a callee by non-const reference (exchange, swap) is written
        if n.get('k') == 'call' and A.cshort(n) in ('exchange', 'swap', 'swap_sizetype') and any(self._bookkeeping(a) for a in n.get('args', []) or []):
            s = s | {'dirty'}
        if may:
            if 'dirty' in s and not protected:
                self.report(n, 'may throw after live elements / the size were already modified')
            out.append(('x', s))
        ns = s
        is_elem_assign = n.get('k') == 'call' and n.get('op') == '=' and n.get('method') and \
            A.strip(n.get('obj') or {}).get('t', '').replace('const ', '') == self.E
        if kind == 'assign' or is_elem_assign:
            if may and not protected:
                self.report(n, 'an assignment onto live elements may throw part-way outside any roll-back')
            ns = s | {'dirty'}
        elif kind == 'destroy' and self.eng.handler_depth == 0:
            did = R.elem_storage_local(n['args'][0], getattr(self, 'linit', None)) if n.get('args') else None
            if did is None:
                ns = s | {'dirty'}
        elif kind in ('commit', 'erase'):
            ns = s | {'dirty'}
        elif kind == 'construct' and det in ('uninitialized_relocate', 'uninitialized_relocate_n', 'relocate_at', 'move_n'):
            src_temp = R.elem_storage_local(n['args'][0], getattr(self, 'linit', None)) if n.get('args') else None
            if src_temp is None:
                ns = s | {'dirty'}       # the sources were live elements and are gone now
        out.append(('n', ns))
        return out


def strong(progs):
    rr = RuleResult('STRONG', 'in the operations documented as strong (element moves noexcept) no live element, no size word is modified '
                              'before the last call that may throw, except inside a try whose handler rolls the slot opening back')
    for prog in progs:
        E = getattr(prog, 'meta', {}).get('E', '')
        may = MayThrow(prog)
        for f in prog.amc_functions():
            if f.get('body') is None:
                continue
            nm = f['name']
            if not (nm in STRONG_FUNCS or (nm == STRONG_SINGLE_INSERT and len(f.get('params', [])) == 2 and 'list' not in f['params'][1]['t'])):
                continue
            res = {}

            def report(n, why, res=res):
                res[(id(n), why)] = n
            cl = StrongClient(may, report, E)
            cl.linit = A.local_inits(f['body'])
            eng = Engine(cl)
            cl.eng = eng
            eng.run(f['body'], frozenset(), f.get('inits'))
            rr.instance('%s' % f['key'], {'function': f['pname'][:150], 'unit': prog.uname, 'violations': len(res)})
            for (nid, why), n in res.items():
                rr.add(Finding('STRONG', '%s|%s' % (f['key'], short(n.get('name', '') or n.get('k'))), prog.site(f, n),
                               '%s %s: the operation is documented as strong but can fail after modifying the container' % (describe(n)[:100], why),
                               where=f['pname'], unit=prog.uname))
    return rr


# ====================================================================================== ALIAS
class AliasClient(Client):
    """State: frozenset of poisoned reference variables (('p', idx) / ('l', did))."""

    def __init__(self, tracked_params, ref_locals, report):
        self.tp = tracked_params       # param idx set: parameters of type (const) E& that may alias an element
        self.ref_locals = ref_locals   # did -> init node for locals of reference type
        self.report = report
        self.derived = {}              # did -> True if the local reference is derived from a tracked param
        self.derived_ptr = {}          # did -> True for pointer locals holding the address of a tracked reference
        self.deref_ids = set()         # ids of ref nodes (of pointer locals) that are dereferenced
        self.shifts = {}               # id(call) -> shift_right call node

    def is_event(self, n):
        return n.get('k') in ('call', 'new', 'ref', 'construct', 'bin', 'un') or (n.get('k') == 'decl_var')

    # ---- the pointer re-basing idiom:  if (first <= p && p < first + n) p += count;   after shift_right(first, n[, count])
    def _shift(self, s):
        for x in s:
            if x[0] == 'shift':
                return self.shifts.get(x[1])
        return None

    def _ptr(self, n):
        n = A.strip(n)
        if isinstance(n, dict) and n.get('k') == 'ref' and n.get('dk') == 'local' and self.derived_ptr.get(n.get('did')):
            return n['did']
        return None

    def _bound_facts(self, cond, s):
        """(did, fact if true, fact if false) with facts in {'lb', 'ub', 'out', None}."""
        sh = self._shift(s)
        c = A.strip(cond)
        if sh is None or not isinstance(c, dict) or c.get('k') != 'bin' or c.get('op') not in ('<', '<=', '>', '>='):
            return None
        first = sh['args'][0]
        nn = sh['args'][1] if len(sh['args']) > 1 else None
        l, r, op = c['lhs'], c['rhs'], c['op']
        if op in ('>', '>='):
            l, r = r, l
            op = '<' if op == '>' else '<='
        # now:  l op r  with op in (<, <=)

        def is_first(x):
            return A.struct_eq(A.strip(x), A.strip(first))

        def is_upper(x):
            x = A.strip(x)
            if isinstance(x, dict) and x.get('k') == 'call' and A.cshort(x) in ('end', 'cend') and (x.get('obj') is None or A.root(x['obj'])[0] == 'this'):
                return True
            if isinstance(x, dict) and x.get('k') == 'bin' and x.get('op') == '+' and nn is not None:
                return (is_first(x['lhs']) and A.struct_eq(A.strip(x['rhs']), A.strip(nn))) or (is_first(x['rhs']) and A.struct_eq(A.strip(x['lhs']), A.strip(nn)))
            return False
        pl, pr = self._ptr(l), self._ptr(r)
        if pr is not None and is_first(l) and op == '<=':
            return pr, 'lb', 'out'          # first <= p
        if pl is not None and is_first(r) and op == '<':
            return pl, 'out', 'lb'          # p < first
        if pl is not None and is_upper(r) and op == '<':
            return pl, 'ub', 'out'          # p < first + n
        if pr is not None and is_upper(l) and op == '<=':
            return pr, 'out', 'ub'          # first + n <= p
        return None

    def assume(self, cond, truth, s):
        bf = self._bound_facts(cond, s)
        if bf is not None:
            did, ft, ff = bf
            fact = ft if truth else ff
            if fact == 'out':
                # the pointer does not designate a shifted element: it is still valid
                return frozenset(x for x in s if x != ('l', did) and not (x[0] in ('lb', 'ub') and x[1] == did))
            if fact in ('lb', 'ub'):
                return s | {(fact, did)}
        # `idx != -1` false (or `idx == -1` true), where idx = (&v in [begin, begin+size)) ? &v - begin : -1, means v is not an
        # element of this vector: a reallocation did not move it
        c = A.strip(cond)
        if isinstance(c, dict) and c.get('k') == 'bin' and c.get('op') in ('!=', '=='):
            l, r = A.strip(c.get('lhs')), A.strip(c.get('rhs'))
            if r.get('k') == 'un' and r.get('op') == '-':
                r = dict(r, cv=-1)
            if l.get('k') == 'ref' and l.get('dk') == 'local' and l.get('did') in self.not_elem_idx and (r.get('cv') == -1 or r.get('v') == -1):
                outside = (not truth) if c['op'] == '!=' else truth
                if outside:
                    return frozenset(x for x in s if x[0] != 'p')
        return s

    not_elem_idx = ()

    def _tracked(self, n):
        if n.get('k') != 'ref':
            return None
        if n.get('dk') == 'param' and n.get('idx') in self.tp:
            return ('p', n['idx'])
        if n.get('dk') == 'local' and self.derived.get(n.get('did')):
            return ('l', n['did'])
        if n.get('dk') == 'local' and self.derived_ptr.get(n.get('did')) and id(n) in self.deref_ids:
            return ('l', n['did'])      # only a dereference reads the element; comparing / adjusting the pointer does not
        return None

    def event(self, n, s):
        k = n.get('k')
        if k in ('bin', 'un'):
            # p += count / ++p on a pointer known to designate a shifted element re-bases it
            tgt = n.get('lhs') if k == 'bin' else n.get('sub')
            did = self._ptr(tgt)
            if did is not None and ('lb', did) in s and ('ub', did) in s:
                sh = self._shift(s)
                by = n.get('rhs') if (k == 'bin' and n.get('op') == '+=') else None
                cnt = sh['args'][2] if sh is not None and len(sh.get('args', [])) > 2 else None
                ok = (k == 'un' and n.get('op') == '++' and cnt is None) or \
                    (by is not None and cnt is not None and A.struct_eq(A.strip(by), A.strip(cnt))) or \
                    (by is not None and cnt is None and (A.strip(by).get('v') == 1 or A.strip(by).get('cv') == 1))
                if ok:
                    return [('n', frozenset(x for x in s if x != ('l', did) and not (x[0] in ('lb', 'ub') and x[1] == did)))]
            return [('n', s)]
        if k == 'ref':
            t = self._tracked(n)
            if t is not None and t in s:
                self.report(n, t)
            return [('n', s)]
        kind, det = R.role(n)
        moving = kind in ('hole_open', 'hole_raw', 'erase', 'destroy') or \
            (kind == 'construct' and det in ('uninitialized_relocate', 'uninitialized_relocate_n', 'relocate_at', 'move_n', 'uninitialized_move', 'uninitialized_move_n')) or \
            (kind == 'assign' and det in ('move', 'move_backward', 'swap_ranges')) or \
            (kind == 'check' and det in ('grow',)) or \
            (n.get('k') == 'call' and n.get('method') and n.get('amc') and A.cshort(n) in ('clear', 'erase', 'pop_back', 'pop_back_val', 'resize', 'shrink_to_fit',
                                                                                          'destroyFreeStorage', 'freeStorage', 'resetToSmall', 'shrink')
             and (n.get('obj') is None or A.root(n.get('obj'), {})[0] == 'this'))
        if kind == 'check' and det in ('adjustCapacity', 'reserve'):
            # may reallocate: the original references are dead afterwards; a reference *returned* by the re-basing
            # overloads is fresh (REBASE checks that overload)
            allv = {('p', i) for i in self.tp} | {('l', d) for d, v in self.derived.items() if v} | {('l', d) for d, v in self.derived_ptr.items() if v}
            return [('n', frozenset(s | allv) - frozenset({('fresh', id(n))}))]
        if moving:
            allv = {('p', i) for i in self.tp} | {('l', d) for d, v in self.derived.items() if v} | {('l', d) for d, v in self.derived_ptr.items() if v}
            ns = frozenset(x for x in s if x[0] not in ('shift', 'lb', 'ub')) | allv
            if kind == 'hole_open' and n.get('args'):
                self.shifts[id(n)] = n
                ns = ns | {('shift', id(n))}
            return [('n', frozenset(ns))]
        return [('n', s)]


def alias(progs):
    rr = RuleResult('ALIAS', 'in an operation taking a (const) reference to an element value, the reference is not read after an effect that can '
                             'move or destroy the element it may designate (slot opening, range move/relocate, destroy, growth), unless re-based or copied first')
    for prog in progs:
        E = getattr(prog, 'meta', {}).get('E', '')
        if not E:
            continue
        for f in prog.amc_functions():
            if f.get('body') is None or not f['name'].startswith('amc::vec::'):
                continue
            if f['name'] == 'amc::vec::StaticVector::adjustCapacity':
                continue      # a fixed-capacity vector never reallocates: the check moves nothing
            ps = f.get('params', [])
            tracked = {i for i, p in enumerate(ps) if p['t'].replace('const ', '').strip() in (E + ' &',)}
            if not tracked:
                continue
            body = f['body']
            # reference locals derived from a tracked parameter (directly or through the re-basing adjustCapacity)
            cl = AliasClient(tracked, {}, None)
            nei = set()
            for n in walk(body):
                if n.get('k') == 'decl':
                    for v in n.get('vars', []):
                        ini = A.strip(v.get('init') or {})
                        if ini.get('k') == 'cond' and (A.strip(ini.get('b') or {}).get('cv') == -1 or
                                                       (A.strip(ini.get('b') or {}).get('k') == 'un' and A.strip(ini.get('b')).get('op') == '-')):
                            cnd = ini.get('c')
                            if any(x.get('k') == 'ref' and x.get('dk') == 'param' and x.get('idx') in tracked for x in walk(cnd)) or \
                               any(x.get('k') == 'ref' and x.get('dk') == 'local' for x in walk(cnd)):
                                if any(A.cshort(x) == 'begin' for x in A.calls(cnd)) and any(A.cshort(x) == 'size' for x in A.calls(cnd)):
                                    nei.add(v['did'])
            # the same computed with an if: `idx = -1; if (&v in [begin, begin + size)) idx = &v - begin;`
            def _minus1(x):
                x = A.strip(x or {})
                return x.get('cv') == -1 or x.get('v') == -1 or (x.get('k') == 'un' and x.get('op') == '-' and A.strip(x.get('sub') or {}).get('v') == 1)

            def _inrange(cnd):
                return any(A.cshort(x) == 'begin' for x in A.calls(cnd)) and any(A.cshort(x) == 'size' for x in A.calls(cnd)) and \
                    (any(x.get('k') == 'ref' and x.get('dk') == 'param' and x.get('idx') in tracked for x in walk(cnd)) or
                     any(x.get('k') == 'ref' and x.get('dk') == 'local' for x in walk(cnd)))
            Pn = None
            for did, (ini, ty) in A.local_inits(body).items():
                if did in nei or ini is None or not _minus1(ini):
                    continue
                asg = [n for n in walk(body) if n.get('k') == 'bin' and n.get('op') == '=' and A.strip(n.get('lhs')).get('k') == 'ref' and A.strip(n['lhs']).get('did') == did]
                if not asg:
                    continue
                Pn = Pn or A.Parents(body)
                if all(_minus1(a.get('rhs')) or any(t and _inrange(c) for c, t in Pn.guards(a)) for a in asg):
                    nei.add(did)
            cl.not_elem_idx = nei
            for n in walk(body):
                if n.get('k') == 'decl':
                    for v in n.get('vars', []):
                        if v.get('t', '').rstrip().endswith('&') and v.get('init') is not None:
                            uses = [x for x in walk(v['init']) if x.get('k') == 'ref' and x.get('dk') == 'param' and x.get('idx') in tracked]
                            if uses:
                                cl.derived[v['did']] = True
            # pointer locals holding the address of a tracked reference (std::addressof(v) / &v) ...
            for n in walk(body):
                if n.get('k') == 'decl':
                    for v in n.get('vars', []):
                        if v.get('t', '').rstrip().endswith('*') and v.get('init') is not None and v['did'] not in nei:
                            for x in walk(v['init']):
                                addr = (x.get('k') == 'call' and A.cshort(x) in ('addressof', '__addressof') and x.get('args')) or (x.get('k') == 'un' and x.get('op') == '&')
                                if addr:
                                    tgt = A.strip(x['args'][0] if x.get('k') == 'call' else x.get('sub'))
                                    if isinstance(tgt, dict) and tgt.get('k') == 'ref' and ((tgt.get('dk') == 'param' and tgt.get('idx') in tracked) or
                                                                                        (tgt.get('dk') == 'local' and cl.derived.get(tgt.get('did')))):
                                        cl.derived_ptr[v['did']] = True
            # ... and the places where they are dereferenced (only a dereference reads the element)
            if cl.derived_ptr:
                P = A.Parents(body)
                for n in walk(body):
                    if n.get('k') == 'ref' and n.get('dk') == 'local' and cl.derived_ptr.get(n.get('did')):
                        par, slot = P.parent(n)
                        while par is not None and par.get('k') == 'cast':
                            par, slot = P.parent(par)
                        if par is not None and ((par.get('k') == 'un' and par.get('op') == '*') or (par.get('k') == 'mem' and par.get('arrow')) or
                                                (par.get('k') == 'idx' and slot == 'base')):
                            cl.deref_ids.add(id(n))
            res = {}

            def report(n, t, res=res):
                res[id(n)] = (n, t)
            cl.report = report

            # the engine evaluates declarations through decl_var: a reference local bound to the result of
            # adjustCapacity(..., v, ...) becomes un-poisoned at its declaration
            class Eng(Engine):
                def decl_var(self, v, states, out):
                    states = Engine.decl_var(self, v, states, out)
                    if cl.derived.get(v.get('did')):
                        ini = A.strip(v.get('init') or {})
                        if ini.get('k') == 'call' and A.cshort(ini) == 'adjustCapacity':
                            states = {frozenset(s - {('l', v['did'])}) for s in states}
                    return states
            eng = Eng(cl)
            eng.run(body, frozenset(), f.get('inits'))
            rr.instance('%s' % f['key'], {'function': f['pname'][:150], 'reference_params': sorted(tracked), 'reads_after_moving_effect': len(res)})
            for n, t in res.values():
                nm = n.get('name')
                rr.add(Finding('ALIAS', '%s|%s' % (f['key'], nm), prog.site(f, n),
                               'the reference `%s` is read after elements were shifted / destroyed / reallocated in this operation: if it designates an '
                               'element of the same vector the value read is a moved-from or different element' % nm,
                               where=f['pname'], unit=prog.uname))
    return rr


# ====================================================================================== RETHROW
class _ThrowOnly(Client):
    def is_event(self, n):
        return n.get('k') == 'throw'

    def event(self, n, s):
        return [('x', s)]

    def enter_handler(self, try_node, handler, state, thrower):
        return state


def rethrow(progs):
    """Every handler in amc is a roll-back: it must end by re-throwing on every path.  A handler that can complete normally (or
    return) swallows the exception the property expects to reach the caller, and the operation carries on in a half-done state."""
    rr = RuleResult('RETHROW', 'every catch handler of amc leaves by (re)throwing on every path: no exception of an element operation or of the '
                               'allocator is swallowed')
    for prog in progs:
        for f in prog.amc_functions():
            body = f.get('body')
            if body is None:
                continue
            i = 0
            for n in walk(body):
                if n.get('k') != 'try':
                    continue
                for h in n.get('handlers', []):
                    i += 1
                    eng = Engine(_ThrowOnly())
                    o = eng.run(h.get('body'), frozenset())
                    swallows = bool(o.normal) or bool(o.returns) or bool(getattr(o, 'breaks', None)) or bool(getattr(o, 'continues', None))
                    rr.instance('%s|handler%d' % (f['key'], i), {'function': f['pname'][:150], 'unit': prog.uname, 'catches': 'all' if h.get('all') else h.get('t'),
                                                                  'always_rethrows': not swallows})
                    if swallows:
                        rr.add(Finding('RETHROW', '%s|handler%d' % (f['key'], i), prog.site(f, h.get('body')) if isinstance(h.get('body'), dict) and h['body'].get('l') else f['loc'],
                                       'a catch handler can complete without re-throwing: the exception is swallowed and the operation continues although '
                                       'its step failed', where=f['pname'], unit=prog.uname))
    return rr


# ====================================================================================== CURSOR
def cursor(progs):
    """Clean-up loops of the form try { for (...) construct(cur) } catch { destroy(first, cur) }: the cursor the handler reads must not be
    advanced inside the argument list of the call that may throw - it would already point past a slot that holds no object."""
    rr = RuleResult('CURSOR', 'the cursor read by a roll-back handler is never advanced inside the arguments of the constructing call it guards: when '
                              'the k-th constructor throws the handler sees exactly the k objects that exist')
    for prog in progs:
        for f in prog.amc_functions():
            body = f.get('body')
            if body is None or not in_layer(f):
                continue
            for t in walk(body):
                if t.get('k') != 'try':
                    continue
                hvars = set()
                for h in t.get('handlers', []):
                    hvars |= {x.get('did') for x in walk(h.get('body') or {}) if x.get('k') == 'ref' and x.get('dk') == 'local'}
                cons = [c for c in walk(t.get('body') or {}) if (c.get('k') == 'call' and R.role(c)[0] == 'construct') or (c.get('k') == 'new' and c.get('reserved_placement'))]
                if not cons or not hvars:
                    continue
                bad = None
                P = A.Parents(t.get('body'))
                for c in cons:
                    lp = P.in_loop(c)
                    scope = (lp.get('body') if lp is not None else None) or t.get('body')
                    order = A.eval_order(scope)
                    if id(c) not in order:
                        continue
                    for x in walk(scope):
                        if x.get('k') == 'un' and x.get('op') in ('++', '--') and id(x) in order and order[id(x)] < order[id(c)]:
                            s_ = A.strip(x.get('sub'))
                            if isinstance(s_, dict) and s_.get('k') == 'ref' and s_.get('dk') == 'local' and s_.get('did') in hvars:
                                bad = (c, s_.get('name'))
                rr.instance('%s|%s' % (f['key'], rel(prog.site(f, t))), {'function': f['pname'][:150], 'constructs_in_try': len(cons), 'handler_cursors': len(hvars),
                                                                         'verdict': 'cursor advanced after the construct' if not bad else 'FAILS'})
                if bad:
                    rr.add(Finding('CURSOR', '%s|%s' % (f['key'], bad[1]), prog.site(f, bad[0]),
                                   'the roll-back cursor `%s` is advanced before the constructing call of the same iteration has succeeded: if the constructor throws, the handler '
                                   'destroys one slot that holds no object' % bad[1], where=f['pname'], unit=prog.uname))
    return rr
