"""Rules added after the sixth round of independently seeded changes (DESIGN.md 10.12)."""
from ..lib.core import RuleResult, Finding, short, walk
from ..lib import ast as A
from ..lib.flow import Engine, Client

SVB = 'amc::vec::SmallVectorBase'
EPS = 'amc::vec::ElemWithPtrStorage'
VEC_CLASSES = ('amc::vec::VectorImpl', 'amc::vec::StaticVector', 'amc::vec::DynamicVector', 'amc::Vector')


# ------------------------------------------------------------------------------------------------ UNION-STATE

def _objname(node, linit):
    kind, r = A.root(node, linit) if node is not None else ('this', {})
    if kind == 'this':
        return 'this'
    if kind in ('param', 'local'):
        return r.get('name') or kind
    return None


class UClient(Client):
    """Facts ('S', obj) / ('L', obj): obj is known to be in its inline / heap state; ('NA', lits): not all of these literals hold."""

    def __init__(self, prog, f, linit, lvals):
        self.prog, self.f, self.linit, self.lvals = prog, f, linit, lvals
        self.reads = []        # (node, obj, state): reads of the heap pointer alternative
        self.calls = []        # (node, callee, state)

    def is_event(self, n):
        return n.get('k') in ('bin', 'un', 'call')

    # --- predicates
    def lits_of(self, c, depth=0):
        """(literals implied when c is true, is the list the exact meaning of c).  Literal: ('S'|'L', obj)."""
        c = A.strip(c)
        if not isinstance(c, dict):
            return [], False
        if c.get('k') == 'ref' and c.get('dk') == 'local':
            vals = self.lvals.get(c.get('did'), [])
            if len(vals) == 1 and depth < 4:
                return self.lits_of(vals[0], depth + 1)
            return [], False
        if c.get('k') == 'un' and c.get('op') == '!':
            l, exact = self.lits_of(c.get('sub'), depth + 1)
            if exact and len(l) == 1:
                return [('L' if l[0][0] == 'S' else 'S', l[0][1])], True
            return [], False
        if c.get('k') == 'bin' and c.get('op') == '&&':
            a, ea = self.lits_of(c.get('lhs'), depth + 1)
            b, eb = self.lits_of(c.get('rhs'), depth + 1)
            return a + b, ea and eb
        if c.get('k') != 'call':
            return [], False
        if A.callee(c) == SVB + '::isSmall':
            o = _objname(c.get('obj'), self.linit)
            return ([('S', o)], True) if o else ([], False)
        callee = self.prog.fns.get(c.get('fn')) if c.get('fn') else None
        if callee is None or callee.get('body') is None or not callee.get('name', '').startswith('amc::') or (callee.get('ret') or '').strip() != 'bool' or depth > 3:
            return [], False
        rets = [x for x in walk(callee['body']) if x.get('k') == 'ret']
        if len(rets) != 1:
            return [], False
        sub = UClient(self.prog, callee, A.local_inits(callee['body']), A.local_values(callee['body']))
        l, exact = sub.lits_of(rets[0].get('e'), depth + 1)
        # non state literals (is_same<...>::value ...) make the list inexact but the state literals still follow from `true`
        out = []
        pnames = [p.get('name') for p in callee.get('params', [])]
        for kind, o in l:
            if o == 'this':
                m = _objname(c.get('obj'), self.linit) if c.get('method') else None
            elif o in pnames and pnames.index(o) < len(c.get('args', [])):
                m = _objname(c['args'][pnames.index(o)], self.linit)
            else:
                m = None
            if m is None:
                exact = False
                continue
            out.append((kind, m))
        return out, exact

    @staticmethod
    def _add(s, facts):
        s = set(s)
        for kind, o in facts:
            s.discard(('S' if kind == 'L' else 'L', o))
            s.add((kind, o))
        # unit propagation over the "not all" facts
        changed = True
        while changed:
            changed = False
            for x in list(s):
                if x[0] != 'NA':
                    continue
                rest = [l for l in x[1] if l not in s]
                if any((('L' if l[0] == 'S' else 'S'), l[1]) in s for l in x[1]):
                    s.discard(x)
                    continue
                if len(rest) == 1:
                    l = rest[0]
                    s.discard(x)
                    s.add(('L' if l[0] == 'S' else 'S', l[1]))
                    changed = True
                elif not rest:
                    return None
        return frozenset(s)

    def assume(self, cond, truth, s):
        c = A.strip(cond)
        if isinstance(c, dict) and c.get('k') == 'bin' and c.get('op') in ('==', '!='):
            (a, ea), (b, eb) = self.lits_of(c.get('lhs')), self.lits_of(c.get('rhs'))
            if ea and eb and len(a) == 1 and len(b) == 1:
                neg = lambda l: ('L' if l[0] == 'S' else 'S', l[1])
                same = (c.get('op') == '==') == truth
                pairs = [(a[0], neg(b[0])), (neg(a[0]), b[0])] if same else [(a[0], b[0]), (neg(a[0]), neg(b[0]))]
                return self._add(set(s) | {('NA', p_) for p_ in pairs}, [])
        l, exact = self.lits_of(cond)
        if not l:
            return s
        if truth:
            for kind, o in l:
                if (('L' if kind == 'S' else 'S'), o) in s:
                    return None
            return self._add(s, l)
        if exact:
            if len(l) == 1:
                return self._add(s, [('L' if l[0][0] == 'S' else 'S', l[0][1])])
            return self._add(set(s) | {('NA', tuple(l))}, [])
        return s

    # --- events
    def _forget(self, s, obj):
        return frozenset(x for x in s if not (x[0] in ('S', 'L') and x[1] == obj) and not (x[0] == 'NA' and any(l[1] == obj for l in x[1])))

    def event(self, n, s):
        k = n.get('k')
        if k in ('bin', 'un'):
            op = n.get('op', '')
            tgt = None
            if k == 'bin' and op.endswith('=') and op not in ('==', '!=', '<=', '>='):
                tgt = n.get('lhs')
            elif k == 'un' and op in ('++', '--'):
                tgt = n.get('sub')
            t = A.strip(tgt) if tgt is not None else None
            if isinstance(t, dict) and t.get('k') == 'mem' and t.get('name') in ('_capa', '_size') and t.get('clsq') == SVB:
                o = _objname(t.get('base'), self.linit)
                if o:
                    s = self._forget(s, o)
            return [('n', s)]
        nm = A.callee(n)
        if nm == EPS + '::dyn':
            o = _objname(n.get('obj'), self.linit)
            self.reads.append((n, o, s))
            return [('n', s)]
        callee = self.prog.fns.get(n.get('fn')) if n.get('fn') else None
        if callee is not None and callee.get('name', '').startswith('amc::vec::'):
            self.calls.append((n, callee, s))
        sn = A.cshort(n)
        if nm == SVB + '::grow':
            o = _objname(n.get('obj'), self.linit)
            if o:
                s = self._add(self._forget(s, o), [('L', o)]) or s
        elif callee is not None and callee.get('name', '').startswith(SVB + '::') and sn not in ('isSmall', 'size', 'capacity', 'begin', 'end', 'dynStorage', 'get_allocator', 'canSwapDynStorage') \
                and not (n.get('constm') or callee.get('constm')):
            # a mutating member of the base may change the state of its object (and of a vector passed by reference)
            o = _objname(n.get('obj'), self.linit) if n.get('method') else None
            if o:
                s = self._forget(s, o)
            for a, p in zip(n.get('args', []), callee.get('params', [])):
                if p['t'].rstrip().endswith('&') and not p['t'].startswith('const ') and SVB in p['t']:
                    ao = _objname(a, self.linit)
                    if ao:
                        s = self._forget(s, ao)
        elif sn in ('swap', 'exchange', 'swap_sizetype'):
            for a in n.get('args', []):
                t = A.strip(a)
                if isinstance(t, dict) and t.get('k') == 'mem' and t.get('name') in ('_capa', '_size') and t.get('clsq') == SVB:
                    o = _objname(t.get('base'), self.linit)
                    if o:
                        s = self._forget(s, o)
        return [('n', s)]


def union_state(progs):
    """The heap-pointer alternative of the pointer/inline-elements union of SmallVectorBase is read only where the object is known to
    be in its heap state.  Requirements that a function does not discharge itself (a private helper that assumes `large`) travel to its
    callers, call site by call site; a requirement that reaches a user-callable member undischarged is a finding."""
    rr = RuleResult('UNION-STATE', 'the heap pointer stored in the pointer / inline-elements union of a SmallVector is read only where the vector is known to '
                                   'be on the heap: under !isSmall() (directly, through a predicate such as canSwapDynStorage, through a named bool), after '
                                   'grow(), or in a helper all of whose callers establish it for the argument they pass (requirements travel up the call graph)')
    seen = set()
    for prog in progs:
        info = {}
        for fid, f in prog.fns.items():
            body = f.get('body')
            if body is None or not f.get('amc') or not f['name'].startswith(('amc::vec::', 'amc::Vector')):
                continue
            if not any(x.get('k') == 'call' and (A.callee(x) == EPS + '::dyn' or (x.get('fn') in prog.fns and prog.fns[x['fn']].get('name', '').startswith('amc::vec::')))
                       for x in walk(body)):
                continue
            linit = A.local_inits(body)
            cl = UClient(prog, f, linit, A.local_values(body))
            Engine(cl).run(body, frozenset(), f.get('inits'))
            info[fid] = (f, cl)
        fn_to_fid = {fid: fid for fid in info}
        # requirements: function -> {object name: (origin site, text)}
        req = {fid: {} for fid in info}
        for fid, (f, cl) in info.items():
            for node, o, s in cl.reads:
                rr.instance('%s|%s|read' % (f['key'], o), {'function': f['pname'][:120], 'reads heap pointer of': o})
                if o is None or ('L', o) in s:
                    continue
                req[fid].setdefault(o, (prog.site(f, node), 'reads the heap pointer of `%s`' % o))
        for _ in range(6):
            changed = False
            for fid, (f, cl) in info.items():
                for node, callee, s in cl.calls:
                    gid = fn_to_fid.get(node.get('fn'))
                    if gid is None or not req.get(gid):
                        continue
                    pnames = [p.get('name') for p in callee.get('params', [])]
                    for o, (site, text) in list(req[gid].items()):
                        if o == 'this':
                            actual = _objname(node.get('obj'), cl.linit) if node.get('method') else None
                        elif o in pnames and pnames.index(o) < len(node.get('args', [])):
                            actual = _objname(node['args'][pnames.index(o)], cl.linit)
                        else:
                            actual = None
                        if actual is None or ('L', actual) in s:
                            continue
                        if actual not in req[fid]:
                            req[fid][actual] = (prog.site(f, node), '%s, called here with `%s`, %s' % (short(callee['name']), actual, text))
                            changed = True
            if not changed:
                break
        for fid, (f, cl) in info.items():
            if not req[fid]:
                continue
            pn = {p.get('name') for p in f.get('params', [])}
            for o, (site, text) in req[fid].items():
                if o != 'this' and o not in pn:
                    # a local object: nobody else can establish its state
                    escapes = True
                else:
                    escapes = f.get('clsq') in VEC_CLASSES and f.get('access') == 'public'
                if escapes and (f['key'], o) not in seen:
                    seen.add((f['key'], o))
                    rr.add(Finding('UNION-STATE', '%s|%s' % (f['key'], o), site,
                                   '%s: %s, but `%s` is not known to be on the heap there (no !isSmall() guard, no grow() before, and the callers do not establish it): '
                                   'for an inline vector the bytes read are element bytes reinterpreted as a pointer' % (short(f['name']), text, o),
                                   where=f['pname'], unit=prog.uname))
    return rr


# ------------------------------------------------------------------------------------------------ LOOKUP-CASE

FS = 'amc::FlatSet'


class _LUnknown(Exception):
    pass


class _LViolation(Exception):
    def __init__(self, msg, node=None):
        Exception.__init__(self, msg)
        self.node = node


class _LRet(Exception):
    def __init__(self, v):
        Exception.__init__(self)
        self.v = v


LTOP = ('top',)


class LookupInterp:
    """Evaluates a lookup member of FlatSet for one case of the key: ABSENT-END (no element is >= key), ABSENT (the lower bound is an element
    ordered after the key), PRESENT (the lower bound is equivalent to the key).  Iterators are (anchor, offset) with anchors LB (lower
    bound of the key), UB (upper bound) and END; std::lower_bound / upper_bound are given their specified results; a comparator call on
    the key and *LB / *UB / *(LB-1) is decided by the case."""

    def __init__(self, prog, cmps, case, lb_at_begin=False):
        self.prog, self.cmps, self.case = prog, cmps, case
        self.lb_at_begin = lb_at_begin          # no element is ordered before the key: the lower bound is begin()
        self.depth = 0
        self.actions = []

    def canon(self, v):
        if v[0] != 'it':
            return v
        a, off = v[1], v[2]
        if a == 'BEG' and self.lb_at_begin:
            a = 'LB'
        if self.case == 'ABSENT-END' and a in ('LB', 'UB'):
            a = 'END'
        elif a == 'UB':
            a, off = 'LB', off + (1 if self.case == 'PRESENT' else 0)
        return ('it', a, off)

    def is_key(self, n, fr):
        return self.ev(n, fr) == ('key',)

    def ev(self, n, fr):
        n = A.strip(n)
        if not isinstance(n, dict):
            return LTOP
        k = n.get('k')
        if k == 'ref':
            if n.get('dk') == 'param':
                return fr.get(('p', n.get('idx')), LTOP)
            if n.get('dk') == 'local':
                return fr.get(('l', n.get('did')), LTOP)
            return LTOP
        if k == 'lit':
            v = n.get('v')
            if isinstance(v, bool):
                return ('bool', v)
            if isinstance(v, int):
                return ('int', v)
            return LTOP
        if k == 'paren':
            return self.ev(n.get('sub'), fr)
        if k == 'un':
            op = n.get('op')
            if op == '!':
                v = self.truth(n.get('sub'), fr)
                return ('bool', not v)
            v = self.ev(n.get('sub'), fr)
            if op == '*' and v[0] == 'it':
                return self.deref(v, n)
            return LTOP
        if k == 'bin':
            op = n.get('op')
            if op in ('&&', '||', '==', '!='):
                return ('bool', self.truth(n, fr))
            a, b = self.ev(n.get('lhs'), fr), self.ev(n.get('rhs'), fr)
            if op in ('+', '-') and a[0] == 'it' and b[0] == 'int':
                return self.canon(('it', a[1], a[2] + (b[1] if op == '+' else -b[1])))
            if op == '=':
                l = A.strip(n.get('lhs'))
                if l.get('k') == 'ref' and l.get('dk') == 'local':
                    fr[('l', l.get('did'))] = b
                    return b
            return LTOP
        if k == 'cond':
            return self.ev(n.get('a') if self.truth(n.get('c'), fr) else n.get('b'), fr)
        if k == 'construct':
            vals = [self.ev(a, fr) for a in n.get('args', []) or []]
            if 'std::pair' in (n.get('cls') or n.get('t') or '') and len(vals) == 2:
                return ('pair', vals[0], vals[1])
            if len(vals) == 1:
                return vals[0]
            return LTOP
        if k == 'initlist' and len(n.get('elts', n.get('args', [])) or []) == 2:
            vals = [self.ev(a, fr) for a in (n.get('elts') or n.get('args'))]
            return ('pair', vals[0], vals[1])
        if k == 'call':
            return self.call(n, fr)
        if k == 'mem' and n.get('name') in ('first', 'second'):
            b = self.ev(n.get('base'), fr)
            if b[0] == 'pair':
                return b[1] if n['name'] == 'first' else b[2]
            return LTOP
        return LTOP

    def deref(self, v, node):
        v = self.canon(v)
        if v[1] == 'END' and v[2] >= 0:
            raise _LViolation('dereferences end() when no element is ordered at or after the key', node)
        if self.lb_at_begin and v[1] in ('LB', 'END') and v[2] < 0:
            raise _LViolation('dereferences a position before begin() when no element is ordered before the key', node)
        return ('elem', v[1], v[2])

    def truth(self, n, fr):
        n = A.strip(n)
        if isinstance(n, dict) and n.get('k') == 'bin' and n.get('op') == '&&':
            return self.truth(n.get('lhs'), fr) and self.truth(n.get('rhs'), fr)
        if isinstance(n, dict) and n.get('k') == 'bin' and n.get('op') == '||':
            return self.truth(n.get('lhs'), fr) or self.truth(n.get('rhs'), fr)
        if isinstance(n, dict) and n.get('k') == 'un' and n.get('op') == '!':
            return not self.truth(n.get('sub'), fr)
        if isinstance(n, dict) and ((n.get('k') == 'bin' and n.get('op') in ('==', '!=')) or (n.get('k') == 'call' and n.get('op') in ('==', '!='))):
            if n.get('k') == 'bin':
                a, b = self.ev(n.get('lhs'), fr), self.ev(n.get('rhs'), fr)
            else:
                ops = ([n.get('obj')] if n.get('obj') is not None else []) + list(n.get('args', []))
                a, b = self.ev(ops[0], fr), self.ev(ops[1], fr)
            if a[0] == 'it' and b[0] == 'it':
                a, b = self.canon(a), self.canon(b)
                if a[1] == b[1]:
                    eq = a[2] == b[2]
                elif 'BEG' in (a[1], b[1]) and not self.lb_at_begin:
                    o_ = a if b[1] == 'BEG' else b
                    g_ = b if b[1] == 'BEG' else a
                    if g_[2] == 0 and o_[2] >= 0:
                        eq = False                   # elements ordered before the key exist: begin() is before the bound and the end
                    else:
                        raise _LUnknown('position before the lower bound compared with begin()')
                elif {a[1], b[1]} == {'LB', 'END'} and self.case != 'ABSENT-END':
                    lb = a if a[1] == 'LB' else b
                    if lb[2] <= 0:
                        eq = False
                    else:
                        raise _LUnknown('position beyond the lower bound compared with end()')
                else:
                    raise _LUnknown('iterators the interpreter cannot relate')
                return eq if n.get('op') == '==' else not eq
            if a[0] == b[0] and a[0] in ('bool', 'int'):
                return (a[1] == b[1]) if n.get('op') == '==' else (a[1] != b[1])
            raise _LUnknown('comparison the interpreter cannot decide')
        v = self.ev(n, fr)
        if v[0] == 'bool':
            return v[1]
        if v[0] == 'int':
            return v[1] != 0
        raise _LUnknown('condition the interpreter cannot decide')

    def cmp(self, a, b, node):
        """comp(a, b) under the case."""
        if a == ('key',) and b[0] == 'elem':
            anchor, off = b[1], b[2]
            if anchor == 'LB' and off == 0:
                return self.case == 'ABSENT'                 # key < *LB iff the key is absent
            if anchor == 'LB' and off > 0:
                return True
            if anchor == 'LB' and off < 0:
                return False
        if a[0] == 'elem' and a[1] == 'END' and a[2] < 0 and b == ('key',):
            return True                                      # no element is at or after the key: every element is ordered before it
        if b[0] == 'elem' and b[1] == 'END' and b[2] < 0 and a == ('key',):
            return False
        if b == ('key',) and a[0] == 'elem':
            anchor, off = a[1], a[2]
            if anchor == 'LB' and off >= 0:
                return False                                 # *LB is not ordered before the key: that is what lower_bound returns
            if anchor == 'LB' and off < 0:
                return True
        raise _LUnknown('comparator call on operands the interpreter cannot relate')

    def call(self, n, fr):
        nm, sn, args = A.callee(n), A.cshort(n), n.get('args', []) or []
        if 'assert' in (n.get('mac') or []):
            return LTOP
        if is_cmp(n, self.cmps):
            vals = [self.ev(a, fr) for a in args]
            if len(vals) == 2:
                return ('bool', self.cmp(vals[0], vals[1], n))
        if n.get('op') in ('==', '!='):
            return ('bool', self.truth(n, fr))
        if n.get('op') == '=' and n.get('obj') is not None and len(args) == 1:
            l = A.strip(n['obj'])
            v = self.ev(args[0], fr)
            if isinstance(l, dict) and l.get('k') == 'ref' and l.get('dk') == 'local':
                fr[('l', l.get('did'))] = v
            return v
        if n.get('op') == '*' and n.get('obj') is not None and not args:
            v = self.ev(n['obj'], fr)
            if v[0] == 'it':
                return self.deref(v, n)
        if nm in ('std::lower_bound', 'std::upper_bound') and len(args) >= 3:
            b, e, kv = self.ev(args[0], fr), self.ev(args[1], fr), self.ev(args[2], fr)
            if b == ('it', 'BEG', 0) and self.canon(e) == ('it', 'END', 0) and kv == ('key',):
                return self.canon(('it', 'LB' if nm.endswith('lower_bound') else 'UB', 0))
            raise _LUnknown('binary search over a sub-range')
        if nm in ('std::next', 'std::prev') and args:
            v = self.ev(args[0], fr)
            d = self.ev(args[1], fr) if len(args) > 1 else ('int', 1)
            if v[0] == 'it' and d[0] == 'int':
                return self.canon(('it', v[1], v[2] + (d[1] if nm == 'std::next' else -d[1])))
            return LTOP
        if nm in ('std::move', 'std::forward', 'std::as_const') and len(args) == 1:
            return self.ev(args[0], fr)
        if nm == 'std::make_pair' and len(args) == 2:
            return ('pair', self.ev(args[0], fr), self.ev(args[1], fr))
        on_this = n.get('method') and (n.get('obj') is None or A.root(n['obj'], {})[0] == 'this')
        if on_this and (n.get('clsq') or '').startswith(('amc::FlatSet', 'amc::vec::', 'amc::Vector')) or (n.get('method') and sn in ('begin', 'end', 'cbegin', 'cend') and self.is_sorted_vec(n.get('obj'))):
            if sn in ('end', 'cend', 'mend') and not args:
                return ('it', 'END', 0)
            if sn in ('begin', 'cbegin', 'mbegin') and not args:
                return ('it', 'BEG', 0)
        if n.get('method') and self.is_sorted_vec(n.get('obj')) and sn in ('insert', 'emplace') and len(args) == 2:
            pos, v = self.ev(args[0], fr), self.ev(args[1], fr)
            if pos[0] != 'it' or v != ('key',):
                raise _LUnknown('insertion into the sorted vector the interpreter does not follow')
            self.actions.append(('ins', self.canon(pos)))
            return ('it', 'NEW', 0)
        if n.get('method') and self.is_sorted_vec(n.get('obj')) and sn == 'erase' and len(args) == 1:
            pos = self.ev(args[0], fr)
            if pos[0] != 'it':
                raise _LUnknown('erase from the sorted vector the interpreter does not follow')
            self.actions.append(('erase', self.canon(pos)))
            return self.canon(pos)
        if n.get('method') and self.is_sorted_vec(n.get('obj')) and sn in ('push_back', 'emplace_back', 'clear', 'assign', 'resize', 'pop_back', 'swap'):
            raise _LUnknown('modification of the sorted vector the interpreter does not follow (%s)' % sn)
        callee = self.prog.fns.get(n.get('fn')) if n.get('fn') else None
        if on_this and callee is not None and callee.get('body') is not None and (callee.get('clsq') or '') == FS:
            if self.depth > 6:
                raise _LUnknown('inlining too deep')
            nf = {}
            for i, a in enumerate(args):
                nf[('p', i)] = self.ev(a, fr)
            self.depth += 1
            try:
                self.run(callee['body'], nf)
                return LTOP
            except _LRet as r:
                return r.v
            finally:
                self.depth -= 1
        return LTOP

    def is_sorted_vec(self, obj):
        o = A.strip(obj)
        return isinstance(o, dict) and o.get('k') == 'mem' and o.get('name') == '_sortedVector'

    def run(self, n, fr):
        if n is None:
            return
        if isinstance(n, list):
            for s in n:
                self.run(s, fr)
            return
        k = n.get('k')
        if 'assert' in (n.get('mac') or []) or 'arg:assert' in (n.get('mac') or []):
            return
        if k == 'block':
            self.run(n.get('s', []), fr)
        elif k == 'decl':
            for v in n.get('vars', []):
                fr[('l', v['did'])] = self.ev(v['init'], fr) if v.get('init') is not None else LTOP
        elif k == 'if':
            if isinstance(n.get('var'), dict) and n['var'].get('init') is not None:
                fr[('l', n['var']['did'])] = self.ev(n['var']['init'], fr)
            self.run(n.get('then') if self.truth(n.get('c'), fr) else n.get('else'), fr)
        elif k == 'ret':
            raise _LRet(self.ev(n.get('e'), fr) if n.get('e') is not None else LTOP)
        elif k in A.LOOPS or k in ('try', 'throw', 'switch'):
            raise _LUnknown('statement the interpreter does not model (%s)' % k)
        else:
            self.ev(n, fr)


def is_cmp(n, cmps):
    def norm(t):
        return t.replace('const ', '').replace('&', '').strip()
    return n.get('k') == 'call' and n.get('op') == '()' and n.get('obj') is not None and norm(A.strip(n['obj']).get('t', '')) in cmps


def lookup_case(progs):
    rr = RuleResult('LOOKUP-CASE', 'find / contains / count / equal_range / lower_bound / upper_bound of FlatSet return what std::set returns in each of the three cases '
                                   'of the key (no element at or after it, absent with a successor, present): the member is evaluated per case, std::lower_bound / '
                                   'upper_bound given their specified result, comparator calls on the key and the element at the bound decided by the case')
    from .sets import compare_types
    WANT = {'find', 'contains', 'count', 'equal_range', 'lower_bound', 'upper_bound'}
    seen = set()
    for prog in progs:
        cmps = compare_types(prog)
        if not cmps:
            continue
        for f in prog.amc_functions():
            nm = short(f['name'])
            if f.get('body') is None or f.get('clsq') != FS or nm not in WANT or len(f.get('params', [])) != 1:
                continue
            bad = None
            verdicts = {}
            for case, atb in [(c_, b_) for c_ in ('ABSENT-END', 'ABSENT', 'PRESENT') for b_ in (False, True)]:
                ip = LookupInterp(prog, cmps, case, atb)
                try:
                    try:
                        ip.run(f['body'], {('p', 0): ('key',)})
                        res = LTOP
                    except _LRet as r:
                        res = r.v
                except _LUnknown as e:
                    rr.broken = rr.broken or 'LOOKUP-CASE: cannot interpret %s: %s' % (f['pname'][:100], e)
                    bad = None
                    verdicts = None
                    break
                except _LViolation as v:
                    bad = (case, str(v), v.node)
                    break
                res = canon_res(ip, res)
                exp = expected_lookup(nm, case)
                verdicts[case + ('/first' if atb else '')] = str(res)
                if not exp(res):
                    bad = (case, 'returns %s' % show(res), None)
                    break
            if verdicts is None:
                continue
            rr.instance('%s|%s' % (f['key'], prog.uname), {'function': f['pname'][:130], 'results per case': verdicts})
            if bad and f['key'] not in seen:
                seen.add(f['key'])
                case, msg, node = bad
                rr.add(Finding('LOOKUP-CASE', f['key'], prog.site(f, node) if node is not None else f['loc'],
                               '%s: when %s it %s; std::set %s' % (nm, CASE_TEXT[case], msg, EXPECT_TEXT[nm]), where=f['pname'], unit=prog.uname))
    return rr


CASE_TEXT = {'ABSENT-END': 'the key is absent and no element is ordered after it', 'ABSENT': 'the key is absent and has a successor (the lower bound)',
             'PRESENT': 'the key is present (the lower bound is equivalent to it)'}
EXPECT_TEXT = {'find': 'returns the equivalent element, end() when there is none', 'contains': 'returns whether an equivalent element exists',
               'count': 'returns 1 or 0', 'equal_range': 'returns the range of the one equivalent element, an empty range when there is none',
               'lower_bound': 'returns the first element not ordered before the key', 'upper_bound': 'returns the first element ordered after the key'}


def canon_res(ip, v):
    if v[0] == 'it':
        return ip.canon(v)
    if v[0] == 'pair':
        return ('pair', canon_res(ip, v[1]), canon_res(ip, v[2]))
    return v


def show(v):
    if v[0] == 'it':
        a = {'LB': 'the lower bound', 'END': 'end()', 'BEG': 'begin()', 'NEW': 'the inserted element'}[v[1]]
        return a + (' %+d' % v[2] if v[2] else '')
    if v[0] == 'pair':
        return '(%s, %s)' % (show(v[1]), show(v[2]))
    if v[0] in ('bool', 'int'):
        return str(v[1]).lower()
    return 'a value the interpreter does not follow'


def expected_lookup(nm, case):
    present = case == 'PRESENT'
    lb = ('it', 'END', 0) if case == 'ABSENT-END' else ('it', 'LB', 0)
    if nm == 'find':
        return lambda r: r == (lb if present else ('it', 'END', 0))
    if nm in ('contains', 'count'):
        return lambda r: r[0] in ('bool', 'int') and bool(r[1]) == present and (r[0] == 'bool' or r[1] in (0, 1))
    if nm == 'equal_range':
        if present:
            return lambda r: r == ('pair', lb, ('it', 'LB', 1))
        return lambda r: r[0] == 'pair' and r[1][0] == 'it' and r[1] == r[2]
    if nm == 'lower_bound':
        return lambda r: r == lb
    if nm == 'upper_bound':
        return lambda r: r == (('it', 'LB', 1) if present else lb)
    return lambda r: True


# ------------------------------------------------------------------------------------------------ RESERVE-POST

class ReserveClient(Client):
    def __init__(self, f):
        self.f = f

    def is_event(self, n):
        return n.get('k') == 'call'

    @staticmethod
    def _is_param(n):
        n = A.strip(n)
        return isinstance(n, dict) and n.get('k') == 'ref' and n.get('dk') == 'param' and n.get('idx') == 0

    @staticmethod
    def _is_capacity(n):
        n = A.strip(n)
        return isinstance(n, dict) and n.get('k') == 'call' and A.cshort(n) == 'capacity' and not n.get('args') and (n.get('obj') is None or A.root(n['obj'], {})[0] == 'this')

    def assume(self, cond, truth, s):
        c = A.strip(cond)
        if isinstance(c, dict) and c.get('k') == 'bin' and c.get('op') in ('<', '>', '<=', '>='):
            l, r, op = c.get('lhs'), c.get('rhs'), c.get('op')
            if self._is_param(l) and self._is_capacity(r):
                l, r, op = r, l, {'<': '>', '>': '<', '<=': '>=', '>=': '<='}[op]
            if self._is_capacity(l) and self._is_param(r):
                # capacity() op n
                holds = {'<': not truth, '>': truth, '<=': False, '>=': truth}[op]
                if op == '<=' and not truth:
                    holds = True                 # !(capacity() <= n)  =>  capacity() > n
                if holds:
                    return s | {'K'}
        return s

    def event(self, n, s):
        sn = A.cshort(n)
        args = n.get('args', []) or []
        if sn in ('grow', 'reserve', 'adjustCapacity') and args and any(self._is_param(x) for x in walk(args[0])):
            return [('n', s | {'G'})]
        if sn == 'Check' and len(args) == 2 and any(self._is_param(x) for x in walk(args[0])) and self._is_capacity(args[1]):
            return [('n', s | {'K'})]            # throws unless the request fits
        return [('n', s)]


def reserve_post(progs):
    rr = RuleResult('RESERVE-POST', 'on every path through reserve(n) either the request is handed to grow / the base reserve, or the path condition compares n '
                                    'with capacity() itself and finds it sufficient: after reserve(n), capacity() >= n - whatever the inline capacity N is')
    seen = set()
    for prog in progs:
        for f in prog.amc_functions():
            body = f.get('body')
            if body is None or short(f['name']) != 'reserve' or len(f.get('params', [])) != 1 or not f['name'].startswith('amc::'):
                continue
            if A.width(f['params'][0]['t']) is None:
                continue
            cl = ReserveClient(f)
            eng = Engine(cl)
            o = eng.run(body, frozenset(), f.get('inits'))
            finals = [(s, None) for s in o.normal] + [(s, eng.nodes.get(nid)) for s, nid in o.returns]
            bad = [(s, n) for s, n in finals if 'G' not in s and 'K' not in s]
            rr.instance('%s|%s' % (f['key'], prog.uname), {'function': f['pname'][:130], 'exits': len(finals), 'exits without growth or capacity() >= n': len(bad)})
            if bad and f['key'] not in seen:
                seen.add(f['key'])
                node = bad[0][1]
                rr.add(Finding('RESERVE-POST', f['key'], prog.site(f, node) if isinstance(node, dict) else f['loc'],
                               'reserve(n) can return without having grown and without having found capacity() >= n (the request is compared with something '
                               'else than the current capacity): a vector whose heap buffer is smaller than that bound keeps capacity() < n and the appends '
                               'that should fit reallocate', where=f['pname'], unit=prog.uname))
    return rr


# ------------------------------------------------------------------------------------------------ POSTFIX-COPY

def postfix_copy(progs):
    rr = RuleResult('POSTFIX-COPY', 'the postfix ++ / -- of the iterator classes return a copy of the iterator taken before the step (a by-value local initialised '
                                    'from *this ahead of any modification): `*it++` visits the element it was on')
    seen = set()
    for prog in progs:
        for f in prog.amc_functions():
            body = f.get('body')
            nm = short(f['name'])
            if body is None or nm not in ('operator++', 'operator--') or len(f.get('params', [])) != 1 or not f['name'].startswith('amc::'):
                continue
            if (f.get('ret') or '').rstrip().endswith('&'):
                why = 'returns a reference'
            else:
                why = None
                order = A.eval_order(body, f.get('inits'))
                linit = A.local_inits(body)
                muts = [order[id(x)] for x in walk(body) if id(x) in order and x.get('k') == 'call' and x.get('method') and not x.get('constm')
                        and (x.get('obj') is None or A.root(x['obj'], {})[0] == 'this') and short(x.get('name', '')) != '(ctor)']
                muts += [order[id(x)] for x in walk(body) if id(x) in order and x.get('k') in ('un', 'bin') and x.get('op') in A.ASSIGN_OPS
                         and A.root(x.get('sub') if x.get('k') == 'un' else x.get('lhs'), {})[0] == 'this']
                first_mut = min(muts) if muts else None
                rets = [x for x in walk(body) if x.get('k') == 'ret']
                for r in rets:
                    e = A.strip(r.get('e'))
                    while isinstance(e, dict) and e.get('k') == 'construct' and len(e.get('args', []) or []) == 1:
                        e = A.strip(e['args'][0])
                    if not (isinstance(e, dict) and e.get('k') == 'ref' and e.get('dk') == 'local'):
                        why = 'does not return a local copy'
                        break
                    ini, ty = linit.get(e.get('did'), (None, ''))
                    if ty.rstrip().endswith('&'):
                        why = 'returns through the local `%s`, which is a reference to *this, not a copy: the value returned is the position after the step' % e.get('name')
                        break
                    i = A.strip(ini) if ini is not None else None
                    while isinstance(i, dict) and i.get('k') == 'construct' and len(i.get('args', []) or []) == 1:
                        i = A.strip(i['args'][0])
                    if not (isinstance(i, dict) and A.root(i, {})[0] == 'this'):
                        why = 'the local it returns is not initialised from *this'
                        break
                    if first_mut is not None and ini is not None and id(A.strip(ini)) in order and order[id(A.strip(ini))] > first_mut:
                        why = 'the copy it returns is taken after the iterator was stepped'
                        break
                if first_mut is None and why is None:
                    why = 'does not step the iterator'
            rr.instance('%s|%s' % (f['key'], prog.uname), {'function': f['pname'][:130], 'verdict': why or 'copy taken before the step'})
            if why and f['key'] not in seen:
                seen.add(f['key'])
                rr.add(Finding('POSTFIX-COPY', f['key'], f['loc'], 'postfix %s %s' % (nm, why), where=f['pname'], unit=prog.uname))
    return rr


# ------------------------------------------------------------------------------------------------ CONTIG

def contig(progs):
    """A byte copy of several elements at once is a copy of the range only if the range is contiguous: both ends must be raw pointers.
    `addressof(*it)` of a class-type iterator gives the address of ONE element; random access does not imply contiguity
    (std::reverse_iterator, std::deque::iterator)."""
    from .config import live_walk
    rr = RuleResult('CONTIG', 'memcpy / memmove of more than one element takes both addresses from raw pointers; an address obtained by dereferencing a '
                              'class-type iterator is only ever used for a single element (sizeof(T) bytes)')
    seen = set()

    def via_iterator(a):
        a = A.strip(a)
        while isinstance(a, dict) and a.get('k') == 'cast':
            a = A.strip(a.get('sub'))
        inner = None
        if isinstance(a, dict) and a.get('k') == 'call' and A.cshort(a) in ('addressof', '__addressof') and a.get('args'):
            inner = A.strip(a['args'][0])
        elif isinstance(a, dict) and a.get('k') == 'un' and a.get('op') == '&':
            inner = A.strip(a.get('sub'))
        if not isinstance(inner, dict):
            return None
        it = None
        if inner.get('k') == 'call' and inner.get('op') == '*' and inner.get('obj') is not None:
            it = A.strip(inner['obj'])
        elif inner.get('k') == 'un' and inner.get('op') == '*':
            it = A.strip(inner.get('sub'))
        if not isinstance(it, dict):
            return None
        t = (it.get('t') or '').replace('const ', '').strip()
        return None if t.endswith('*') else t

    def single(sz):
        sz = A.strip(sz)
        return isinstance(sz, dict) and sz.get('k') == 'sizeof'
    for prog in progs:
        for f in prog.amc_functions():
            body = f.get('body')
            if body is None:
                continue
            for c in live_walk(body):
                if c.get('k') != 'call' or A.cshort(c) not in ('memcpy', 'memmove', '__builtin_memcpy', '__builtin_memmove') or len(c.get('args', [])) < 3:
                    continue
                its = [via_iterator(a) for a in c['args'][:2]]
                one = single(c['args'][2])
                rr.instance('%s|%s|%s' % (f['key'], its, one), {'function': f['pname'][:130], 'addresses taken through iterators': [t for t in its if t], 'single element': one})
                if any(its) and not one and f['key'] not in seen:
                    seen.add(f['key'])
                    rr.add(Finding('CONTIG', f['key'], prog.site(f, c),
                                   '%s copies several elements at once from / to an address obtained by dereferencing an iterator of type %s: random access '
                                   'does not make the range contiguous (reverse_iterator, deque::iterator), the standard algorithm copies element by element'
                                   % (A.cshort(c), next(t for t in its if t)), where=f['pname'], unit=prog.uname))
    return rr



# ------------------------------------------------------------------------------------------------ MUTATE-CASE

def mutate_case(progs):
    rr = RuleResult('MUTATE-CASE', 'insert(value) / emplace(arg) / erase(key) of FlatSet do, in each of the three cases of the key, what std::set does: a present key '
                                   'is not inserted again and insert returns (its position, false); an absent key is inserted at its lower bound and insert returns '
                                   '(the new element, true); erase(key) removes exactly the equivalent element and returns 1, or nothing and 0')
    from .sets import compare_types
    seen = set()
    for prog in progs:
        cmps = compare_types(prog)
        if not cmps:
            continue
        for f in prog.amc_functions():
            nm = short(f['name'])
            ps = f.get('params', [])
            if f.get('body') is None or f.get('clsq') != FS or nm not in ('insert', 'emplace', 'insert_val', 'erase') or len(ps) != 1:
                continue
            t = ps[0]['t']
            if 'initializer_list' in t or 'node' in t.lower() or (nm == 'erase' and not t.rstrip().endswith('&')):
                continue                                   # erase(position) is the vector's erase
            bad, verdicts = None, {}
            for case, atb in [(c_, b_) for c_ in ('ABSENT-END', 'ABSENT', 'PRESENT') for b_ in (False, True)]:
                ip = LookupInterp(prog, cmps, case, atb)
                try:
                    try:
                        ip.run(f['body'], {('p', 0): ('key',)})
                        res = LTOP
                    except _LRet as r:
                        res = r.v
                except _LUnknown as e:
                    rr.broken = rr.broken or 'MUTATE-CASE: cannot interpret %s: %s' % (f['pname'][:100], e)
                    verdicts = None
                    break
                except _LViolation as v:
                    bad = (case, str(v), v.node)
                    break
                res = canon_res(ip, res)
                lb = ('it', 'END', 0) if case == 'ABSENT-END' else ('it', 'LB', 0)
                present = case == 'PRESENT'
                if nm == 'erase':
                    want_act = [('erase', lb)] if present else []
                    ok_res = res[0] in ('int', 'bool') and int(res[1]) == (1 if present else 0)
                    want_txt = 'erases the equivalent element and returns 1' if present else 'erases nothing and returns 0'
                else:
                    want_act = [] if present else [('ins', lb)]
                    ok_res = res == ('pair', lb if present else ('it', 'NEW', 0), ('bool', not present))
                    want_txt = 'inserts nothing and returns (the equivalent element, false)' if present else 'inserts at the lower bound and returns (the new element, true)'
                verdicts[case] = '%s -> %s' % (ip.actions, show(res) if res[0] != 'top' else '?')
                if ip.actions != want_act or not ok_res:
                    acts = ', '.join('%s at %s' % (a, show(p_)) for a, p_ in ip.actions) or 'no modification'
                    bad = (case, 'does: %s; returns %s - std::set %s' % (acts, show(res), want_txt), None)
                    break
            if verdicts is None:
                continue
            rr.instance('%s|%s' % (f['key'], prog.uname), {'function': f['pname'][:130], 'per case': verdicts})
            if bad and f['key'] not in seen:
                seen.add(f['key'])
                case, msg, node = bad
                rr.add(Finding('MUTATE-CASE', f['key'], prog.site(f, node) if node is not None else f['loc'],
                               '%s: when %s it %s' % (nm, CASE_TEXT[case], msg), where=f['pname'], unit=prog.uname))
    return rr


# ------------------------------------------------------------------------------------------------ SS-CASE

SS = 'amc::SmallSet'


class SSInterp:
    """One member of SmallSet, one state (SMALL: inline and not full, FULL: inline and full, LARGE) and one case of the key (PRESENT /
    ABSENT).  `_vec` and `_set` are abstract containers: positions are POS (the equivalent element), VEND / SEND (the ends), NEW; their
    members and the std algorithms over the inline vector are primitives with the std::set / vector semantics of the case; members of
    SmallSet called on `this` are inlined."""

    def __init__(self, prog, state, present, pos_is_last=False):
        self.prog, self.state, self.present = prog, state, present
        self.pos_is_last, self.asked_last = pos_is_last, False      # is the equivalent element the last one of the inline vector?
        self.actions = []
        self.added = False
        self.depth = 0

    def small(self):
        return self.state != 'LARGE'

    def which(self, obj):
        o = A.strip(obj)
        if isinstance(o, dict) and o.get('k') == 'mem' and o.get('name') in ('_vec', '_set') and A.root(o.get('base'), {})[0] == 'this':
            return o['name']
        return None

    def ev(self, n, fr):
        n = A.strip(n)
        if not isinstance(n, dict):
            return LTOP
        k = n.get('k')
        if n.get('cv') is not None and k not in ('ref', 'call', 'construct'):
            try:
                return ('int', int(n['cv']))
            except (TypeError, ValueError):
                pass
        if k == 'ref':
            if n.get('dk') == 'param':
                return fr.get(('p', n.get('idx')), LTOP)
            if n.get('dk') == 'local':
                return fr.get(('l', n.get('did')), LTOP)
            if n.get('cv') is not None:
                return ('int', int(n['cv']))
            return LTOP
        if k == 'lit':
            v = n.get('v')
            if isinstance(v, bool):
                return ('bool', v)
            if isinstance(v, int):
                return ('int', v)
            return LTOP
        if k == 'paren':
            return self.ev(n.get('sub'), fr)
        if k == 'un':
            if n.get('op') == '!':
                return ('bool', not self.truth(n.get('sub'), fr))
            v = self.ev(n.get('sub'), fr)
            if n.get('op') == '*' and v[0] in ('vit', 'sit'):
                return self.deref(v)
            if n.get('op') == '&' and v[0] == 'velem':
                return ('vit', v[1])
            return LTOP
        if k == 'bin':
            op = n.get('op')
            if op in ('&&', '||', '==', '!=', '<', '>', '<=', '>='):
                return ('bool', self.truth(n, fr))
            if op == '=':
                l = A.strip(n.get('lhs'))
                if self.elem_store(l, n.get('rhs'), fr):
                    return LTOP
                v = self.ev(n.get('rhs'), fr)
                if isinstance(l, dict) and l.get('k') == 'ref' and l.get('dk') == 'local':
                    fr[('l', l.get('did'))] = v
                return v
            a, b = self.ev(n.get('lhs'), fr), self.ev(n.get('rhs'), fr)
            if op == '-' and a == ('vit', 'VEND2') and b == ('int', 1):
                return ('vit', 'VEND')
            if op in ('+', '-') and a[0] == 'vit' and b[0] == 'int' and b[1] != 0:
                return ('vit', 'PART')                 # some position inside the inline vector
            return LTOP
        if k == 'cond':
            return self.ev(n.get('a') if self.truth(n.get('c'), fr) else n.get('b'), fr)
        if k == 'construct':
            vals = [self.ev(a, fr) for a in n.get('args', []) or []]
            if 'std::pair' in (n.get('cls') or n.get('t') or '') and len(vals) == 2:
                return ('pair', vals[0], vals[1])
            if 'FindFunctor' in (n.get('cls') or n.get('t') or ''):
                return ('functor', any(v == ('key',) for v in vals))
            if len(vals) == 1:
                return vals[0]
            return LTOP
        if k == 'mem' and n.get('name') in ('first', 'second'):
            b = self.ev(n.get('base'), fr)
            if b[0] == 'pair':
                return b[1] if n['name'] == 'first' else b[2]
            return LTOP
        if k == 'call':
            return self.call(n, fr)
        return LTOP

    def elem_store(self, lhs, rhs, fr):
        """`*it = std::move(_vec.back())`: the equivalent element is overwritten with the last one (first half of swap-and-pop)."""
        l = A.strip(lhs)
        tgt = None
        if isinstance(l, dict) and l.get('k') == 'un' and l.get('op') == '*':
            tgt = self.ev(l.get('sub'), fr)
        elif isinstance(l, dict) and l.get('k') == 'call' and l.get('op') == '*' and l.get('obj') is not None:
            tgt = self.ev(l['obj'], fr)
        if tgt is None or tgt[0] != 'vit':
            return False
        src = self.ev(rhs, fr)
        if tgt == ('vit', 'POS') and src == ('velem', 'LAST') and not self.added:
            self.actions.append('vassign')
            return True
        raise _LUnknown('assignment to an element of the inline vector the interpreter does not follow')

    def deref(self, v):
        if v[1] == 'POS' or (v == ('vit', 'VEND') and self.added):
            return ('key',)                       # the equivalent element / the element just added
        if v[1] in ('VEND', 'VEND2', 'SEND'):
            raise _LViolation('dereferences the end of a container')
        return LTOP

    def truth(self, n, fr):
        n = A.strip(n)
        if isinstance(n, dict) and n.get('k') == 'call' and A.callee(n) == '__builtin_expect' and n.get('args'):
            return self.truth(n['args'][0], fr)
        if isinstance(n, dict) and n.get('k') == 'bin' and n.get('op') == '&&':
            return self.truth(n.get('lhs'), fr) and self.truth(n.get('rhs'), fr)
        if isinstance(n, dict) and n.get('k') == 'bin' and n.get('op') == '||':
            return self.truth(n.get('lhs'), fr) or self.truth(n.get('rhs'), fr)
        if isinstance(n, dict) and n.get('k') == 'un' and n.get('op') == '!':
            return not self.truth(n.get('sub'), fr)
        if isinstance(n, dict) and ((n.get('k') == 'bin' and n.get('op') in ('==', '!=')) or (n.get('k') == 'call' and n.get('op') in ('==', '!='))):
            if n.get('k') == 'bin':
                a, b = self.ev(n.get('lhs'), fr), self.ev(n.get('rhs'), fr)
            else:
                ops = ([n.get('obj')] if n.get('obj') is not None else []) + list(n.get('args', []))
                a, b = self.ev(ops[0], fr), self.ev(ops[1], fr)
            if ('vsize',) in (a, b):
                o = b if a == ('vsize',) else a
                if o[0] != 'int':
                    raise _LUnknown('size of the inline vector compared with something else than a constant')
                eq = (self.state == 'FULL') if o[1] > 0 else False
                if self.added:
                    raise _LUnknown('size of the inline vector read after an addition')
            elif a[0] == b[0] == 'vit' and {a[1], b[1]} == {'POS', 'LAST'}:
                self.asked_last = True
                eq = self.pos_is_last
            elif a[0] == b[0] and a[0] in ('vit', 'sit'):
                eq = a[1] == b[1]
            elif a[0] == b[0] and a[0] in ('bool', 'int'):
                eq = a[1] == b[1]
            else:
                raise _LUnknown('comparison the interpreter cannot decide')
            return eq if n.get('op') == '==' else not eq
        if isinstance(n, dict) and n.get('k') in ('bin', 'call') and n.get('op') in ('<', '>', '<=', '>='):
            raise _LUnknown('ordering comparison the interpreter cannot decide')
        v = self.ev(n, fr)
        if v[0] == 'bool':
            return v[1]
        if v[0] == 'int':
            return v[1] != 0
        raise _LUnknown('condition the interpreter cannot decide')

    def scan(self, args, fr, what):
        b, e = self.ev(args[0], fr), self.ev(args[1], fr)
        f = self.ev(args[2], fr) if len(args) > 2 else LTOP
        if b != ('vit', 'VBEG') or e[0] != 'vit':
            raise _LUnknown('%s over a range the interpreter does not follow' % what)
        if e[1] != 'VEND':
            if e[1] == 'VEND2':
                raise _LUnknown('%s over a range that contains the element just added' % what)
            raise _LViolation('%s covers only a part of the inline vector: an equivalent element outside it is missed' % what)
        if f != ('functor', True):
            raise _LUnknown('%s with a predicate that is not the equivalence with the key' % what)
        if not self.small():
            raise _LViolation('%s scans the inline vector in the large state (it is empty there)' % what)
        return ('vit', 'POS') if self.present else e

    def call(self, n, fr):
        nm, sn, args = A.callee(n), A.cshort(n), n.get('args', []) or []
        if 'assert' in (n.get('mac') or []):
            return LTOP
        if n.get('op') in ('==', '!='):
            return ('bool', self.truth(n, fr))
        if n.get('op') == '=' and n.get('obj') is not None and len(args) == 1:
            l = A.strip(n['obj'])
            if self.elem_store(l, args[0], fr):
                return LTOP
            v = self.ev(args[0], fr)
            if isinstance(l, dict) and l.get('k') == 'ref' and l.get('dk') == 'local':
                fr[('l', l.get('did'))] = v
            return v
        if n.get('op') == '*' and n.get('obj') is not None and not args:
            v = self.ev(n['obj'], fr)
            return self.deref(v) if v[0] in ('vit', 'sit') else LTOP
        if nm in ('std::move', 'std::forward', 'std::as_const') and len(args) == 1:
            return self.ev(args[0], fr)
        if sn in ('addressof', '__addressof') and len(args) == 1:
            v = self.ev(args[0], fr)
            return ('vit', v[1]) if v[0] == 'velem' else LTOP
        if nm == 'std::find_if' and len(args) == 3:
            return self.scan(args, fr, 'the membership scan')
        if nm in ('std::none_of', 'std::any_of') and len(args) == 3:
            r = self.scan(args, fr, 'the membership scan')
            found = r == ('vit', 'POS')
            return ('bool', found if nm.endswith('any_of') else not found)
        if nm in ('std::make_move_iterator',) and len(args) == 1:
            return self.ev(args[0], fr)
        if nm in ('std::prev',) and args and self.ev(args[0], fr) == ('vit', 'VEND2'):
            return ('vit', 'VEND')
        w = self.which(n.get('obj')) if n.get('method') else None
        if w == '_vec':
            if sn in ('begin', 'cbegin') and not args:
                return ('vit', 'VBEG')
            if sn in ('end', 'cend') and not args:
                return ('vit', 'VEND2' if self.added else 'VEND')
            if sn == 'size' and not args:
                return ('vsize',)
            if sn == 'empty' and not args:
                raise _LUnknown('emptiness of the inline vector')
            if sn in ('push_back', 'emplace_back'):
                vals = [self.ev(a, fr) for a in args]
                if not self.small():
                    raise _LViolation('an element is added to the inline vector in the large state')
                if self.state == 'FULL':
                    raise _LViolation('an element is added to the inline vector although it is full')
                if self.added or ('key',) not in vals:
                    raise _LUnknown('addition to the inline vector the interpreter does not follow')
                self.added = True
                self.actions.append('vadd')
                return ('velem', 'VEND')
            if sn == 'back' and not args:
                return ('velem', 'VEND') if self.added else ('velem', 'LAST')
            if sn == 'pop_back' and not args:
                if self.actions and self.actions[-1] == 'vadd':
                    self.actions.pop()
                    self.added = False
                    return LTOP
                if self.actions and self.actions[-1] == 'vassign':
                    self.actions[-1] = 'verase'          # swap-and-pop: the key was overwritten with the last element, which is dropped
                    return LTOP
                if self.present and self.pos_is_last and self.asked_last and not self.added:
                    self.actions.append('verase')        # the equivalent element is the last one
                    return LTOP
                raise _LViolation('pop_back removes an element of the set that is neither the one just added nor the equivalent element')
            if sn == 'erase' and len(args) == 1:
                p = self.ev(args[0], fr)
                if p != ('vit', 'POS'):
                    raise _LViolation('erases a position of the inline vector that is not the equivalent element (%s)' % (p[1] if len(p) > 1 else '?'))
                self.actions.append('verase')
                return p
            if sn == 'clear' and not args:
                self.actions.append('vclear')
                return LTOP
            if sn in ('key_comp', 'value_comp', 'get_allocator', 'max_size', 'capacity'):
                return LTOP
            raise _LUnknown('member %s of the inline vector' % sn)
        if w == '_set':
            if sn == 'empty' and not args:
                return ('bool', self.small())
            if sn in ('end', 'cend') and not args:
                return ('sit', 'SEND')
            if sn in ('insert', 'emplace') and len(args) == 1:
                v = self.ev(args[0], fr)
                if v != ('key',):
                    raise _LUnknown('insertion into the set the interpreter does not follow')
                if self.small():
                    raise _LViolation('the key is inserted into the set while the elements live in the inline vector (the set must stay empty until grow())')
                if self.present:
                    return ('pair', ('sit', 'POS'), ('bool', False))
                self.actions.append('sadd')
                return ('pair', ('sit', 'NEW'), ('bool', True))
            if sn in ('insert', 'emplace_hint') and len(args) == 2 and self.ev(args[1], fr) == ('key',):
                self.ev(args[0], fr)
                if self.small():
                    raise _LViolation('the key is inserted into the set while the elements live in the inline vector (the set must stay empty until grow())')
                if self.present:
                    return ('sit', 'POS')
                self.actions.append('sadd')
                return ('sit', 'NEW')
            if sn == 'insert' and len(args) == 2:
                b, e = self.ev(args[0], fr), self.ev(args[1], fr)
                if b == ('vit', 'VBEG') and e == ('vit', 'VEND') and not self.added:
                    self.actions.append('transfer')
                    self.state = 'LARGE'
                    self.present_in = 'set'
                    return LTOP
                raise _LUnknown('range insertion into the set the interpreter does not follow')
            if sn == 'erase' and len(args) == 1 and self.ev(args[0], fr) == ('key',):
                if self.small():
                    return ('int', 0)
                if self.present:
                    self.actions.append('serase')
                return ('int', 1 if self.present else 0)
            if sn in ('find', 'count', 'contains') and len(args) == 1 and self.ev(args[0], fr) == ('key',):
                hit = self.present and not self.small()
                if sn == 'find':
                    return ('sit', 'POS' if hit else 'SEND')
                return ('int', 1 if hit else 0) if sn == 'count' else ('bool', hit)
            if sn in ('key_comp', 'value_comp', 'get_allocator', 'max_size'):
                return LTOP
            raise _LUnknown('member %s of the set' % sn)
        on_this = n.get('method') and (n.get('obj') is None or A.root(n['obj'], {})[0] == 'this')
        callee = self.prog.fns.get(n.get('fn')) if n.get('fn') else None
        if on_this and callee is not None and callee.get('body') is not None and (callee.get('clsq') or '') == SS:
            if self.depth > 6:
                raise _LUnknown('inlining too deep')
            nf = {('p', i): self.ev(a, fr) for i, a in enumerate(args)}
            self.depth += 1
            try:
                self.run(callee['body'], nf)
                return LTOP
            except _LRet as r:
                return r.v
            finally:
                self.depth -= 1
        if n.get('k') == 'call' and sn in ('key_comp', 'value_comp', 'get_allocator'):
            return LTOP
        for a in args:
            self.ev(a, fr)
        return LTOP

    def run(self, n, fr):
        if n is None:
            return
        if isinstance(n, list):
            for s in n:
                self.run(s, fr)
            return
        k = n.get('k')
        if 'assert' in (n.get('mac') or []) or 'arg:assert' in (n.get('mac') or []):
            return
        if k == 'block':
            self.run(n.get('s', []), fr)
        elif k == 'decl':
            for v in n.get('vars', []):
                fr[('l', v['did'])] = self.ev(v['init'], fr) if v.get('init') is not None else LTOP
        elif k == 'if':
            if isinstance(n.get('var'), dict) and n['var'].get('init') is not None:
                fr[('l', n['var']['did'])] = self.ev(n['var']['init'], fr)
            self.run(n.get('then') if self.truth(n.get('c'), fr) else n.get('else'), fr)
        elif k == 'ret':
            raise _LRet(self.ev(n.get('e'), fr) if n.get('e') is not None else LTOP)
        elif k in A.LOOPS or k in ('try', 'throw', 'switch'):
            raise _LUnknown('statement the interpreter does not model (%s)' % k)
        else:
            self.ev(n, fr)


def ss_case(progs):
    rr = RuleResult('SS-CASE', 'insert(value) / emplace(arg) / find / contains / count / erase(key) of SmallSet do, in each state (inline and not full, inline and full, '
                               'large) and for a present and an absent key, what std::set does - the key is searched in the whole active container, added exactly once '
                               'to the right one (inline vector; after grow() the set), erased exactly there - and return the position / flag / count std::set returns')
    seen = set()
    STATE_TEXT = {'SMALL': 'the set is inline and not full', 'FULL': 'the set is inline and full', 'LARGE': 'the set is in its large state'}
    for prog in progs:
        for f in prog.amc_functions():
            nm = short(f['name'])
            ps = f.get('params', [])
            if f.get('body') is None or f.get('clsq') != SS or nm not in ('insert', 'emplace', 'emplace_hint', 'find', 'contains', 'count', 'erase') or f.get('access') != 'public':
                continue
            hinted = len(ps) == 2 and nm in ('insert', 'emplace_hint') and not ps[0]['t'].rstrip().endswith('&') and ps[0]['t'] != ps[1]['t']
            if len(ps) != 1 and not hinted:
                continue
            t = ps[-1]['t']
            if 'initializer_list' in t or 'node' in t.lower() or 'Iterator' in t or (nm == 'erase' and not t.rstrip().endswith('&')) or t.replace('const ', '').strip().endswith('*'):
                continue
            bad, verdicts = None, {}
            for state in ('SMALL', 'FULL', 'LARGE'):
                for present, last in ((True, False), (True, True), (False, False)):
                    ip = SSInterp(prog, state, present, last)
                    try:
                        try:
                            ip.run(f['body'], {('p', 1): ('key',), ('p', 0): ('hint',)} if hinted else {('p', 0): ('key',)})
                            res = LTOP
                        except _LRet as r:
                            res = r.v
                        if hinted and res[0] in ('vit', 'sit'):
                            res = ('pair', res, ('bool', not present))          # the hinted forms return the position only
                    except _LUnknown as e:
                        rr.broken = rr.broken or 'SS-CASE: cannot interpret %s: %s' % (f['pname'][:100], e)
                        verdicts = None
                        break
                    except _LViolation as v:
                        bad = (state, present, str(v))
                        break
                    small = state != 'LARGE'
                    acts = ip.actions
                    if nm in ('insert', 'emplace', 'emplace_hint'):
                        want = [] if present else (['vadd'] if state == 'SMALL' else ['transfer', 'vclear', 'sadd'] if state == 'FULL' else ['sadd'])
                        wres = ('pair', ('vit' if small else 'sit', 'POS'), ('bool', False)) if present else \
                            ('pair', ('vit', 'VEND') if state == 'SMALL' else ('sit', 'NEW'), ('bool', True))
                        okres = res == wres
                    elif nm == 'find':
                        want = []
                        okres = res == (('vit' if small else 'sit'), 'POS' if present else ('VEND' if small else 'SEND'))
                    elif nm in ('contains', 'count'):
                        want = []
                        okres = res[0] in ('bool', 'int') and int(res[1]) == (1 if present else 0)
                    else:
                        want = ([('verase' if small else 'serase')] if present else [])
                        okres = res[0] in ('bool', 'int') and int(res[1]) == (1 if present else 0)
                    if last and not ip.asked_last:
                        continue
                    verdicts['%s/%s%s' % (state, 'present' if present else 'absent', '/last' if last else '')] = '%s -> %s' % (acts, res)
                    if acts != want or not okres:
                        exp_res = _ss_show(wres) if nm in ('insert', 'emplace', 'emplace_hint') else ('the equivalent element, or the end of the active container' if nm == 'find' else ('1' if present else '0'))
                        bad = (state, present, 'it performs %s and returns %s; std::set semantics: %s, returning %s' % (acts or 'no modification', _ss_show(res), want or 'no modification', exp_res))
                        break
                if bad or verdicts is None:
                    break
            if verdicts is None:
                continue
            rr.instance('%s|%s' % (f['key'], prog.uname), {'function': f['pname'][:130], 'per state and case': verdicts})
            if bad and f['key'] not in seen:
                seen.add(f['key'])
                state, present, msg = bad
                rr.add(Finding('SS-CASE', f['key'], f['loc'], '%s: when %s and the key is %s: %s' % (nm, STATE_TEXT[state], 'present' if present else 'absent', msg),
                               where=f['pname'], unit=prog.uname))
    return rr


def _ss_show(v):
    if v[0] == 'pair':
        return '(%s, %s)' % (_ss_show(v[1]), _ss_show(v[2]))
    if v[0] in ('vit', 'sit'):
        return {'POS': 'the equivalent element', 'VEND': 'the end of the inline vector (where a new element is placed)', 'VEND2': 'the end of the inline vector', 'SEND': 'the end of the set',
                'NEW': 'the new element of the set', 'VBEG': 'the beginning of the inline vector'}.get(v[1], v[1]) + (' [inline vector]' if v[0] == 'vit' else ' [set]')
    if v[0] in ('bool', 'int'):
        return str(v[1]).lower()
    return 'a value the interpreter does not follow'


# ------------------------------------------------------------------------------------------------ CMP-KEEP

def cmp_keep(progs):
    """A member function of a set (not a constructor) that builds another set of the same class and lets the comparator parameter of the
    constructor take its default argument works with a default-constructed comparator; assigned to / swapped with *this it replaces the
    stored one."""
    rr = RuleResult('CMP-KEEP', 'no member function of FlatSet / SmallSet builds a set of its own class with a defaulted comparator argument: a temporary set made inside the '
                                'set is given the stored comparator (key_comp() / compRef()), otherwise sorting, duplicate removal and - once assigned or swapped in - every '
                                'later decision use Compare() instead of the comparator the set was constructed with')
    from .sets import compare_types, norm
    seen = set()
    for prog in progs:
        cmps = compare_types(prog)
        if not cmps:
            continue
        for f in prog.amc_functions():
            if f.get('body') is None or f.get('clsq') not in (FS, SS) or f.get('kind') in ('ctor', 'dtor') or f.get('static'):
                continue
            for c in walk(f['body']):
                if c.get('k') != 'construct' or (c.get('clsq') or '') != f.get('clsq'):
                    continue
                ctor = prog.fns.get(c.get('fn'))
                if ctor is None:
                    continue
                ps = ctor.get('params', [])
                idx = [i for i, p_ in enumerate(ps) if norm(p_['t']) in cmps]
                if not idx:
                    continue                      # copy / move constructor and the like: the comparator travels with the source
                args = c.get('args', []) or []
                for i in idx:
                    defaulted = i >= len(args) or bool(A.strip(args[i]).get('defarg') if isinstance(args[i], dict) else False) or bool(args[i].get('defarg') if isinstance(args[i], dict) else False)
                    rr.instance('%s|%s' % (f['key'], prog.site(f, c)), {'function': f['pname'][:130], 'comparator argument defaulted': defaulted})
                    if defaulted and f['key'] not in seen:
                        seen.add(f['key'])
                        rr.add(Finding('CMP-KEEP', f['key'], prog.site(f, c),
                                       '%s builds a %s with a default-constructed comparator (the comparator parameter of the constructor takes its default argument): the '
                                       'stored comparator is not used for that set, and is lost if the temporary is assigned to *this' % (short(f['name']), f.get('clsq').split('::')[-1]),
                                       where=f['pname'], unit=prog.uname))
    return rr
