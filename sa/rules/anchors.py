"""The names the rules are filled from (DESIGN.md 3.0 / 10.11).  A rule that looks for `_capa`, `grow` or the `exact` parameter cannot say
anything once a clean-up has renamed them: what it would report then is not a verdict.  Every check verifies these anchors on the program
it analysed first; a missing one ends the check ANALYSIS-BROKEN (exit 2) *instead of* whatever the rules found - never a VIOLATION."""
from ..lib.core import short

SVB, STD = 'amc::vec::SmallVectorBase', 'amc::vec::StdVectorBase'
FS, SS = 'amc::FlatSet', 'amc::SmallSet'

# class -> (fields, methods): checked when the class is part of the analysed program
CLASS_ANCHORS = {
    SVB: (['_capa', '_size', '_storage'], ['grow', 'shrink', 'shrink_impl', 'resetToSmall', 'setSize', 'incrSize', 'decrSize', 'isSmall', 'move_construct',
                                           'move_assign', 'freeStorage', 'destroyFreeStorage']),
    STD: (['_capa', '_size', '_storage'], ['grow', 'shrink_impl', 'freeStorage', 'move_construct', 'move_assign']),
    FS: (['_sortedVector'], ['compRef']),
    SS: (['_vec', '_set'], ['insert_small', 'find_small', 'mfind_small', 'grow', 'isSmall', 'isSmallContFull']),
}
# free / member functions with the parameter names (of the template pattern) the rules rely on, in that order
PARAM_ANCHORS = {
    'amc::vec::SafeNextCapacity': ['oldCapa', 'newSize', 'exact'],
    'amc::vec::Reallocate': ['alloc', 'p', 'oldCapa', 'newCapa', 'size'],
    SVB + '::grow': ['minSize', 'exact'],
    STD + '::grow': ['minSize', 'exact'],
}
# helper-role table (roles.py): at least these must still exist when the vector layer is analysed
ROLE_ANCHORS = ['amc::vec::shift_right', 'amc::vec::shift_left', 'amc::vec::unshift_right', 'amc::vec::fill_after_shift', 'amc::vec::copy_after_shift',
                'amc::vec::erase_n', 'amc::vec::erase_at', 'amc::vec::swap_deep', 'amc::vec::swap_sizetype']


VEC_PROPS = {'C01', 'C02', 'C05', 'C06', 'C07', 'C08', 'C09', 'C10', 'C13', 'C14', 'C18'}
USED_BY = {SVB: VEC_PROPS, STD: VEC_PROPS, FS: {'C03', 'C12', 'C19'}, SS: {'C04', 'C05', 'C11', 'C19'}}


def missing(progs, prop):
    """Human-readable descriptions of the anchors that `prop`'s rules are filled from and that the analysed programs no longer have.
    Data members and member functions are looked up in the *declared* members of the class (record facts), so an uninstantiated member
    is not mistaken for a vanished one; free helper functions are required where the member that calls them is instantiated."""
    decl_fields, decl_methods, names, params, last_param_t = {}, {}, set(), {}, {}
    for prog in progs:
        for r in prog.records:
            q = r.get('qname')
            if q in CLASS_ANCHORS:
                decl_fields.setdefault(q, set()).update(x.get('name') for x in r.get('fields', []))
                decl_methods.setdefault(q, set()).update(short(m.get('name', '')) if isinstance(m, dict) else short(str(m)) for m in r.get('methods', []))
        for f in prog.fns.values():
            if f.get('amc'):
                names.add(f['name'])
                if f['name'] in PARAM_ANCHORS and f.get('pparams') is not None:
                    params.setdefault(f['name'], set()).add(tuple(f['pparams']))
                    last_param_t.setdefault(f['name'], set()).add((f.get('params') or [{}])[-1].get('t', ''))
    out = []
    for cls, (flds, meths) in CLASS_ANCHORS.items():
        if prop not in USED_BY[cls] or cls not in decl_fields:
            continue
        for fl in flds:
            if fl not in decl_fields[cls]:
                out.append('data member %s::%s' % (cls, fl))
        if decl_methods.get(cls):
            for m in meths:
                if m not in decl_methods[cls]:
                    out.append('member function %s::%s' % (cls, m))
    if prop in VEC_PROPS:
        grows = [n for n in names if n in (SVB + '::grow', STD + '::grow')]
        for fn, want in PARAM_ANCHORS.items():
            if fn in params and tuple(want) not in params[fn]:
                out.append('parameters of %s (expected %s, found %s)' % (fn, want, list(sorted(params[fn])[0])))
            elif fn in params and fn.endswith(('SafeNextCapacity', '::grow')) and 'bool' not in last_param_t.get(fn, {'bool'}):
                out.append('the `exact` parameter of %s is no longer a bool (%s)' % (fn, sorted(last_param_t[fn])[0]))
            elif fn not in params and grows and not fn.endswith('::grow'):
                out.append('helper function %s (the instantiated grow() no longer calls it)' % fn)
        if any(n == 'amc::vec::VectorImpl::insert' for n in names):
            for r_ in ROLE_ANCHORS:
                if r_ not in names and r_ not in ('amc::vec::swap_deep', 'amc::vec::swap_sizetype'):
                    out.append('helper function %s' % r_)
    return out
