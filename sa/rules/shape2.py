"""OVERLAP, ITER1, PAIR, INLINE-SPAN (DESIGN.md 3.A, 3.B, 3.E, 3.G)."""
from ..lib.core import RuleResult, Finding, short, walk, rel
from ..lib import ast as A
from ..lib.flow import Engine, Client
from . import roles as R
from .shape import unwrap_cond


# ------------------------------------------------------------------------------ OVERLAP
def affine(n, linit, depth=0):
    """Pointer expression -> (base key, {symbol: coef}, const) or None."""
    n = A.strip(n)
    if not isinstance(n, dict) or depth > 30:
        return None
    k = n.get('k')
    if n.get('cv') is not None and k != 'ref':
        try:
            return (None, {}, int(n['cv']))
        except (TypeError, ValueError):
            return None
    if k == 'lit' and isinstance(n.get('v'), int):
        return (None, {}, n['v'])
    if k == 'ref':
        if n.get('dk') == 'local' and linit.get(n.get('did')) and linit[n['did']][0] is not None and '*' not in n.get('t', ''):
            r = affine(linit[n['did']][0], linit, depth + 1)
            if r is not None:
                return r
        key = ('p', n.get('idx')) if n.get('dk') == 'param' else ('l', n.get('did'))
        if '*' in n.get('t', ''):
            return (key, {}, 0)
        return (None, {key: 1}, 0)
    if k == 'bin' and n.get('op') in ('+', '-'):
        a, b = affine(n.get('lhs'), linit, depth + 1), affine(n.get('rhs'), linit, depth + 1)
        if a is None or b is None:
            return None
        sign = 1 if n['op'] == '+' else -1
        if a[0] is not None and b[0] is not None:
            return None
        base = a[0] if a[0] is not None else (b[0] if sign == 1 else None)
        if b[0] is not None and sign == -1:
            return None
        syms = dict(a[1])
        for s, c in b[1].items():
            syms[s] = syms.get(s, 0) + sign * c
        return (base, {s: c for s, c in syms.items() if c}, a[2] + sign * b[2])
    return None


def overlap(progs):
    rr = RuleResult('OVERLAP', 'a range move/copy inside one buffer never assigns an element onto itself: source and destination differ by a '
                               'non-zero constant, or by a count that is tested to be non-zero on every path to the call')
    for prog in progs:
        for f in prog.amc_functions():
            body = f.get('body')
            if body is None or not f['name'].startswith('amc::vec::'):
                continue
            linit = A.local_inits(body)
            P = None
            for c in A.calls(body):
                if A.callee(c) not in ('std::move', 'std::copy', 'std::move_backward', 'std::copy_backward') or len(c.get('args', [])) != 3:
                    continue
                a_first, a_last, a_d = c['args']
                af, ad = affine(a_first, linit), affine(a_d, linit)
                if A.callee(c).endswith('_backward'):
                    af = affine(a_last, linit)      # destination end vs source end
                if af is None or ad is None or af[0] is None or af[0] != ad[0]:
                    continue      # different buffers (or not understood): not an in-place shift
                syms = dict(af[1])
                for s, co in ad[1].items():
                    syms[s] = syms.get(s, 0) - co
                syms = {s: co for s, co in syms.items() if co}
                const = af[2] - ad[2]
                site = rel(prog.site(f, c))
                if not syms:
                    ok = const != 0
                    rr.instance('%s|%s' % (f['key'], site), {'function': f['pname'][:140], 'site': site, 'distance': const, 'ok': ok})
                    if not ok:
                        rr.add(Finding('OVERLAP', '%s|zero' % f['key'], prog.site(f, c), 'range move with identical source and destination',
                                       where=f['pname'], unit=prog.uname))
                    continue
                if const == 0 and len(syms) == 1 and list(syms.values())[0] in (1, -1):
                    sym = list(syms)[0]
                    P = P or A.Parents(body)
                    guarded = False
                    for cond, truth in P.guards(c):
                        cn, neg = unwrap_cond(cond)
                        t = truth != neg
                        if cn.get('k') == 'ref' and _symkey(cn) == sym and t:
                            guarded = True
                        if cn.get('k') == 'bin' and cn.get('op') in ('!=', '>', '<', '==', '<=', '>='):
                            l, r = A.strip(cn['lhs']), A.strip(cn['rhs'])
                            zl = l.get('v') == 0 or l.get('cv') == 0
                            zr = r.get('v') == 0 or r.get('cv') == 0
                            if cn['op'] == '<=' and not t and _symkey(l) == sym and zr:
                                guarded = True
                            if cn['op'] == '>=' and not t and _symkey(r) == sym and zl:
                                guarded = True
                            if cn['op'] == '!=' and t and ((_symkey(l) == sym and zr) or (_symkey(r) == sym and zl)):
                                guarded = True
                            if cn['op'] == '==' and not t and ((_symkey(l) == sym and zr) or (_symkey(r) == sym and zl)):
                                guarded = True
                            if cn['op'] == '>' and t and _symkey(l) == sym and zr:
                                guarded = True
                            if cn['op'] == '<' and t and _symkey(r) == sym and zl:
                                guarded = True
                    name = _symname(f, sym, body)
                    if not guarded and sym[0] == 'p':
                        guarded = _callers_guard(prog, f, sym[1])
                    rr.instance('%s|%s' % (f['key'], site), {'function': f['pname'][:140], 'site': site, 'distance': name, 'non_zero_guard': guarded})
                    if not guarded:
                        rr.add(Finding('OVERLAP', '%s|%s' % (f['key'], name), prog.site(f, c),
                                       'elements are move-assigned from [p+%s, ...) onto [p, ...) with no test that %s is non-zero: for %s == 0 every '
                                       'element is move-assigned onto itself' % (name, name, name), where=f['pname'], unit=prog.uname))
    return rr


def _nonzero_guard(P, node, symkey):
    for cond, truth in P.guards(node):
        cn, neg = unwrap_cond(cond)
        t = truth != neg
        if not isinstance(cn, dict):
            continue
        if cn.get('k') == 'ref' and _symkey(cn) == symkey and t:
            return True
        if cn.get('k') == 'bin' and cn.get('op') in ('!=', '>', '<', '==', '<=', '>='):
            l, r = A.strip(cn['lhs']), A.strip(cn['rhs'])
            zl = l.get('v') == 0 or l.get('cv') == 0
            zr = r.get('v') == 0 or r.get('cv') == 0
            if cn['op'] == '<=' and not t and _symkey(l) == symkey and zr:      # !(x <= 0)
                return True
            if cn['op'] == '>=' and not t and _symkey(r) == symkey and zl:      # !(0 >= x)
                return True
            if cn['op'] == '!=' and t and ((_symkey(l) == symkey and zr) or (_symkey(r) == symkey and zl)):
                return True
            if cn['op'] == '==' and not t and ((_symkey(l) == symkey and zr) or (_symkey(r) == symkey and zl)):
                return True
            if cn['op'] == '>' and t and _symkey(l) == symkey and zr:
                return True
            if cn['op'] == '<' and t and _symkey(r) == symkey and zl:
                return True
    return False


def _callers_guard(prog, f, pidx, depth=0):
    """Every call site of f passes, for parameter pidx, a variable that is tested non-zero on the path to the call (or, in a private
    helper that hands its own parameter on, at every call site of that helper)."""
    callers = [g for g in prog.amc_functions() if f['id'] in g.get('calls', []) and g.get('body') is not None]
    if not callers:
        return False
    for g in callers:
        P = A.Parents(g['body'])
        for c in A.calls(g['body']):
            if c.get('fn') != f['id']:
                continue
            args = c.get('args', [])
            if pidx >= len(args):
                return False
            key = _symkey(args[pidx])
            keys = [key]
            # `const SizeType n = static_cast<SizeType>(count);` : a test of `count` is a test of `n`
            li = A.local_inits(g['body'])
            written = {A.strip(l).get('did') for _st, l in A.stores(g['body']) if isinstance(A.strip(l), dict) and A.strip(l).get('k') == 'ref'}
            cur, hops = A.strip(args[pidx]), 0
            while isinstance(cur, dict) and cur.get('k') == 'ref' and cur.get('dk') == 'local' and cur.get('did') not in written and hops < 4:
                ini = li.get(cur.get('did'))
                if not ini or ini[0] is None:
                    break
                cur = A.strip(ini[0])
                hops += 1
                if _symkey(cur) is not None:
                    keys.append(_symkey(cur))
            if key is None:
                return False
            if not any(_nonzero_guard(P, c, k_) for k_ in keys):
                up = [k_ for k_ in keys if k_[0] == 'p']
                if not (up and depth < 3 and g.get('access') in ('private', 'protected') and _callers_guard(prog, g, up[0][1], depth + 1)):
                    return False
    return True


def _symkey(n):
    n = A.strip(n)
    if isinstance(n, dict) and n.get('k') == 'ref':
        return ('p', n.get('idx')) if n.get('dk') == 'param' else ('l', n.get('did'))
    return None


def _symname(f, sym, body):
    if sym[0] == 'p':
        ps = f.get('params', [])
        return ps[sym[1]]['name'] if sym[1] is not None and sym[1] < len(ps) else 'param'
    for n in walk(body):
        if n.get('k') == 'ref' and n.get('did') == sym[1]:
            return n.get('name')
    return 'local'


# ------------------------------------------------------------------------------ ITER1
class Iter1Client(Client):
    def __init__(self, prog, f, tracked, report):
        self.prog, self.f, self.tracked, self.report = prog, f, tracked, report

    def is_event(self, n):
        return n.get('k') in ('ref', 'call', 'construct')

    def event(self, n, s):
        if n.get('k') == 'ref':
            if n.get('dk') == 'param' and n.get('idx') in self.tracked and ('dead', n['idx']) in s:
                self.report(n)
            return [('n', s)]
        callee = self.prog.fns.get(n.get('fn')) if n.get('fn') else None
        ps = callee.get('params', []) if callee else []
        ns = s
        for i, a in enumerate(n.get('args', []) or []):
            aa = A.strip(a)
            if isinstance(aa, dict) and aa.get('k') == 'construct' and aa.get('ctor') in ('copy', 'move') and aa.get('args'):
                aa = A.strip(aa['args'][0])     # pass by value = copy construction of the parameter
            if isinstance(aa, dict) and aa.get('k') == 'ref' and aa.get('dk') == 'param' and aa.get('idx') in self.tracked:
                byval = i < len(ps) and not ps[i]['t'].rstrip().endswith('&')
                if byval:
                    ns = ns | {('dead', aa['idx'])}
        return [('n', ns)]


def iter1(progs, iter_type_prefix='arch::InputIt<'):
    rr = RuleResult('ITER1', 'a range member instantiated with a single-pass (input) iterator traverses the pair once: after the iterator has been '
                             'handed by value to a consumer (std::distance, an algorithm, another range member) it is not used again')
    for prog in progs:
        for f in prog.amc_functions():
            body = f.get('body')
            if body is None:
                continue
            ps = f.get('params', [])
            tracked = {i for i, p in enumerate(ps) if p['t'].startswith(iter_type_prefix)}
            if len(tracked) < 2:
                continue
            # only the `first` of a pair is advanced; `last` is compared
            first = min(tracked)
            sites = {}

            def report(n, sites=sites):
                sites[id(n)] = n
            Engine(Iter1Client(prog, f, {first}, report)).run(body, frozenset(), f.get('inits'))
            rr.instance('%s' % f['key'], {'function': f['pname'][:150], 'uses_after_consumption': len(sites)})
            for n in sites.values():
                rr.add(Finding('ITER1', '%s' % f['key'], prog.site(f, n),
                               'the iterator `%s` is used again after it was consumed by value (e.g. by std::distance): with a single-pass input '
                               'iterator the second traversal sees nothing or garbage' % n.get('name'), where=f['pname'], unit=prog.uname))
                break
    return rr


# ------------------------------------------------------------------------------ PAIR
# helper -> (keyed trait, expectation when the trait holds, expectation when it does not)
#   'no-assign'  : only constructs / relocates (destination slots are raw)
#   'assign'     : assigns onto live slots (and may construct the raw remainder)
#   'destroy'    : destroys the moved-from object
#   'empty'      : does nothing
PAIR_TABLE = {
    'shift_right': ('reloc', 'no-assign', 'any'), 'fill_after_shift': ('reloc', 'no-assign', 'assign'),
    'copy_after_shift': ('reloc', 'no-assign', 'assign'), 'assign_after_shift': ('reloc', 'no-assign', 'assign'),
    'relocate_after_shift': ('reloc', 'no-assign', 'assign'), 'destroy_after_shift': ('reloc', 'empty', 'destroy'),
    'shift_left': ('reloc', 'no-assign', 'assign'), 'uninitialized_shift_left': ('reloc', 'no-assign', 'any'),
    'erase_n': ('reloc', 'no-assign', 'assign'), 'erase_at': ('reloc', 'no-assign', 'assign'), 'move_n': ('reloc', 'no-assign', 'assign'),
    'fill': ('trivcopy', 'no-assign', 'assign'), 'assign_n': ('trivcopy', 'no-assign', 'assign'),
}


def pair(progs):
    from .. import gen
    rr = RuleResult('PAIR', 'the enable_if overload pairs of the element-shifting helpers stay consistent: the overload selected for an element type '
                            'treats the destination slots the way its producer left them (raw for relocatable types, live otherwise)')
    for prog in progs:
        meta = getattr(prog, 'meta', {})
        elem, E = meta.get('elem'), meta.get('E')
        if not elem:
            continue
        for f in prog.amc_functions():
            sn = short(f['name'])
            if not f['name'].startswith('amc::vec::') or sn not in PAIR_TABLE or f.get('body') is None or f.get('cls'):
                continue
            # only the instantiation for this unit's element type
            targs = f.get('targs') or []
            if E not in targs:
                continue
            trait, want_yes, want_no = PAIR_TABLE[sn]
            holds = elem in (gen.RELOC if trait == 'reloc' else gen.TRIV_COPY)
            want = want_yes if holds else want_no
            body = f['body']
            has_assign = False
            has_destroy = False
            n_calls = 0
            for c in A.calls(body):
                n_calls += 1
                kind, det = R.role(c)
                if kind == 'assign':
                    has_assign = True
                if kind == 'destroy':
                    has_destroy = True
                if c.get('op') == '=' and c.get('method') and A.strip(c.get('obj') or {}).get('t', '').replace('const ', '') == E:
                    has_assign = True
            for st, lhs in A.stores(body):
                if st.get('k') == 'bin' and A.strip(lhs).get('t', '').replace('const ', '') == E:
                    has_assign = True
            sig = 'assign' if has_assign else ('empty' if n_calls == 0 else ('destroy-only' if has_destroy and n_calls == 1 else 'no-assign'))
            ok = want == 'any' or (want == 'no-assign' and not has_assign) or (want == 'assign' and has_assign) or \
                (want == 'destroy' and has_destroy) or (want == 'empty' and n_calls == 0)
            rr.instance('%s|%s|%s' % (f['key'], trait, holds), {'helper': f['pname'][:140], 'element': E, 'trait': trait, 'trait_holds': holds,
                                                               'selected_overload_effect': sig, 'expected': want, 'ok': ok})
            if not ok:
                rr.add(Finding('PAIR', '%s|%s' % (f['key'], 'yes' if holds else 'no'), f['loc'],
                               'for element type %s (%s %s) the selected overload of %s has effect "%s" but its siblings leave / expect "%s" slots: the '
                               'overload pair no longer dispatches on the same trait' % (E, 'is' if holds else 'is not', 'relocatable' if trait == 'reloc' else 'trivially copyable',
                                                                                         sn, sig, want), where=f['pname'], unit=prog.uname))
    return rr


# ------------------------------------------------------------------------------ INLINE-SPAN
def inline_span(progs):
    rr = RuleResult('INLINE-SPAN', 'the N inline slots lie inside the object: from the first storage field to the end of the object there is room '
                                   'for N elements, suitably aligned, and no other field lies inside that span')
    for prog in progs:
        recs = {r['name']: r for r in prog.records}
        for r in prog.records:
            if r.get('qname') != 'amc::Vector' or not r.get('targs') or len(r['targs']) < 5:
                continue
            try:
                n = int(r['targs'][4])
            except ValueError:
                continue
            if n == 0:
                continue
            E = r['targs'][0]
            dynamic = 'DynamicGrowingPolicy' in r['targs'][3]
            # flatten fields with absolute offsets
            flat = []

            def rec_fields(rec, base):
                for b in rec.get('bases', []):
                    br = recs.get(b['t'])
                    if br is not None and 'offset' in b:
                        rec_fields(br, base + b['offset'])
                for fd in rec.get('fields', []):
                    flat.append((base + fd['offset'], fd.get('size', 0), fd['name'], rec['qname'], fd.get('align', 1), fd['t']))
            rec_fields(r, 0)
            store = [x for x in flat if x[2] in ('_storage', '_firstEl') and x[3] in ('amc::vec::SmallVectorBase', 'amc::vec::StaticVectorBase')]
            if not store:
                continue
            o, ssz, sname, scls, salign, stype = store[0]
            es = recs.get('amc::vec::ElemStorage<%s>' % E)
            esize = es['size'] if es else None
            if esize is None:
                continue
            span = n * esize
            room = r['size'] - o
            intruders = [x for x in flat if o <= x[0] < o + span and x[2] not in (sname, '_elems')]
            ealign = es['align']
            ok = room >= span and o % ealign == 0 and not intruders
            rr.instance('%s' % r['name'][:160], {'type': r['name'][:160], 'N': n, 'sizeof_element': esize, 'storage_offset': o, 'sizeof': r['size'],
                                                 'room': room, 'needed': span, 'fields_in_span': [x[2] for x in intruders], 'ok': ok})
            if not ok:
                rr.add(Finding('INLINE-SPAN', '%s|%s' % (scls, 'room' if room < span else 'align' if o % ealign else 'field'), r['loc'],
                               '%s: inline storage starts at offset %d, needs %d bytes for %d elements (align %d) but the object has %d bytes after it%s'
                               % (r['name'][:120], o, span, n, ealign, room, (' and field(s) %s lie inside the span' % [x[2] for x in intruders]) if intruders else ''),
                               where=r['name'], unit=prog.uname))
    return rr


# ------------------------------------------------------------------------------ SELF-MOVE
ELEM_ACCESS = {'back', 'front', 'operator[]', 'at'}


def _designator(n):
    """('deref', position expr) / ('acc', accessor call) when n is an lvalue designating a container element, else None."""
    n = A.strip(n)
    if not isinstance(n, dict):
        return None
    if n.get('k') == 'un' and n.get('op') == '*':
        return ('deref', n.get('sub'))
    if n.get('k') == 'idx':
        return ('deref', n)
    if n.get('k') == 'call':
        if n.get('op') == '*' and n.get('obj') is not None:
            return ('deref', n['obj'])
        if n.get('method') and A.cshort(n) in ELEM_ACCESS and n.get('obj') is not None:
            return ('acc', n)
    return None


def _roots(n, linit, depth=0, out=None):
    out = set() if out is None else out
    for x in walk(n or {}):
        if x.get('k') == 'mem' and x.get('field'):
            out.add(('m', x.get('name')))
            if A.root(x.get('base'), {})[0] == 'this':
                out.add(('m', '*this'))
        elif x.get('k') == 'this' or (x.get('k') == 'call' and x.get('method') and x.get('amc') and (x.get('obj') is None or A.root(x.get('obj'), {})[0] == 'this')):
            out.add(('m', '*this'))
        elif x.get('k') == 'ref' and x.get('dk') == 'param':
            out.add(('p', x.get('idx')))
        elif x.get('k') == 'ref' and x.get('dk') == 'local' and depth < 4:
            ini = linit.get(x.get('did'))
            if ini and ini[0] is not None:
                _roots(ini[0], linit, depth + 1, out)
            out.add(('l', x.get('did')))
    return out


def self_move(progs):
    rr = RuleResult('SELF-MOVE', 'an element is never assigned from an element designator of the same container that may be the very same '
                                 'element: the two positions differ by a non-zero constant or the assignment is guarded by a comparison of the two')
    for prog in progs:
        for f in prog.amc_functions():
            body = f.get('body')
            if body is None:
                continue
            linit = A.local_inits(body)
            P = None
            for n in walk(body):
                is_asg = (n.get('k') == 'bin' and n.get('op') == '=') or (n.get('k') == 'call' and n.get('op') == '=' and n.get('method') and n.get('obj') is not None)
                if not is_asg:
                    continue
                lhs = n.get('lhs') if n.get('k') == 'bin' else n.get('obj')
                rhs = n.get('rhs') if n.get('k') == 'bin' else (n.get('args') or [None])[0]
                r = A.strip(rhs) if rhs is not None else None
                while isinstance(r, dict) and r.get('k') == 'call' and A.callee(r) in ('std::move', 'std::forward') and len(r.get('args', [])) == 1:
                    r = A.strip(r['args'][0])
                dl, dr = _designator(lhs), _designator(r)
                if dl is None or dr is None:
                    continue
                rl, rr_ = _roots(dl[1], linit), _roots(dr[1], linit)
                common = {x for x in rl & rr_ if x[0] in ('m', 'p')}
                if not common:
                    continue
                if any(x[0] == 'p' for x in rl) and any(x[0] == 'p' for x in rr_) and not any(x[0] == 'm' for x in common) and \
                        {x for x in rl if x[0] == 'p'} != {x for x in rr_ if x[0] == 'p'}:
                    continue      # two different parameters: the caller's contract
                site = rel(prog.site(f, n))
                ok, why = False, ''
                if dl[0] == 'deref' and dr[0] == 'deref':
                    a, b = affine(dl[1], linit), affine(dr[1], linit)
                    if a is not None and b is not None and a[0] is not None and a[0] == b[0] and a[1] == b[1] and a[2] != b[2]:
                        ok, why = True, 'positions differ by %d' % (a[2] - b[2])
                if not ok:
                    P = P or A.Parents(body)
                    lvars = {x.get('did') for x in walk(dl[1] or {}) if x.get('k') == 'ref' and x.get('dk') == 'local'}
                    rnames = {A.cshort(x) for x in walk(dr[1] or {}) if x.get('k') == 'call'} | ({A.cshort(dr[1])} if dr[0] == 'acc' else set())
                    for cond, truth in P.guards(n):
                        for c in walk(cond):
                            is_cmp = (c.get('k') == 'bin' and c.get('op') in ('!=', '==')) or (c.get('k') == 'call' and c.get('op') in ('!=', '=='))
                            if not is_cmp:
                                continue
                            vs = {x.get('did') for x in walk(c) if x.get('k') == 'ref' and x.get('dk') == 'local'}
                            cs = {A.cshort(x) for x in walk(c) if x.get('k') == 'call'}
                            stepped = any((x.get('k') == 'call' and A.callee(x) in ('std::prev', 'std::next')) or
                                          (x.get('k') == 'bin' and x.get('op') in ('+', '-') and (A.strip(x.get('rhs') or {}).get('v') == 1)) for x in walk(c))
                            if (vs & lvars) and ((cs & rnames & ELEM_ACCESS) or ('end' in cs and stepped and dr[0] == 'acc' and A.cshort(dr[1]) == 'back')):
                                ok, why = True, 'guarded by a comparison of the two positions'
                rr.instance('%s|%s' % (f['key'], site), {'function': f['pname'][:140], 'site': site, 'same_container': sorted(str(x) for x in common), 'verdict': why or 'FAILS'})
                if not ok:
                    rr.add(Finding('SELF-MOVE', '%s|%s' % (f['key'], 'asg'), prog.site(f, n),
                                   'an element is assigned from another element designator of the same container (%s) with nothing excluding that both are '
                                   'the same element: a move assignment onto itself' % ', '.join(x[1] if x[0] == 'm' else 'parameter %s' % x[1] for x in sorted(common, key=str)),
                                   where=f['pname'], unit=prog.uname))
    return rr


# ------------------------------------------------------------------------------ VALUE-INIT
def value_init(progs):
    """std::vector has no operation that default-initialises elements: resize(n), vector(n) and the non-standard append(n) value-initialise
    (trivial types become zero).  Who-may-call: no member of the vector classes calls uninitialized_default_construct(_n); the growing
    members without a value argument call uninitialized_value_construct(_n)."""
    rr = RuleResult('VALUE-INIT', 'elements created without a value argument (resize(n), append(n), vector(n)) are value-initialised: the vector classes '
                                  'never call uninitialized_default_construct(_n), and those members call uninitialized_value_construct(_n)')
    for prog in progs:
        for f in prog.amc_functions():
            body = f.get('body')
            if body is None or f.get('clsq') not in ('amc::vec::VectorImpl', 'amc::vec::StaticVector', 'amc::vec::DynamicVector', 'amc::Vector'):
                continue
            for c in A.calls(body):
                sn = A.cshort(c)
                if sn in ('uninitialized_default_construct', 'uninitialized_default_construct_n'):
                    rr.add(Finding('VALUE-INIT', '%s|%s' % (f['key'], sn), prog.site(f, c),
                                   '%s default-initialises the new elements: for trivially constructible element types they keep whatever bytes the storage '
                                   'held, where std::vector value-initialises (zero)' % sn, where=f['pname'], unit=prog.uname))
                if sn in ('uninitialized_value_construct', 'uninitialized_value_construct_n'):
                    rr.instance('%s|%s' % (f['key'], rel(prog.site(f, c))), {'function': f['pname'][:140], 'value_initialises_with': sn})
    return rr


# ------------------------------------------------------------------------------ LIVE-COUNT
LIVE_COUNT_ARG = {'move_n': 3, 'assign_n': 3, 'fill': 1}      # amc::vec helpers: index of "number of already constructed destination slots"
SIZE_CHANGERS = {'setSize', 'incrSize', 'decrSize', 'destroyFreeStorage', 'freeStorage', 'resetToSmall', 'clear', 'shrink', 'grow', 'pop_back', 'erase',
                 'move_construct', 'setDynSizeAndCapacity'}


def live_count(progs):
    """move_n / assign_n / fill take the number of *already constructed* slots of the destination: they assign onto those and construct
    the rest.  That number must be the destination's size at the moment of the call - a size read before the container was emptied or
    resized makes them assign onto raw memory (or construct over live objects)."""
    rr = RuleResult('LIVE-COUNT', 'the "already constructed" count handed to move_n / assign_n / fill is the size of the destination at the call: size() '
                                  'itself, the size word, or a local read from it with no size-changing call of this container in between on a common path')
    for prog in progs:
        for f in prog.amc_functions():
            body = f.get('body')
            if body is None or not f['name'].startswith('amc::vec::') and not f['name'].startswith('amc::Vector'):
                continue
            sites = [c for c in A.calls(body) if A.callee(c).startswith('amc::vec::') and A.cshort(c) in LIVE_COUNT_ARG and len(c.get('args', [])) > LIVE_COUNT_ARG[A.cshort(c)]]
            if not sites:
                continue
            linit = A.local_inits(body)
            order = A.eval_order(body, f.get('inits'))
            P = A.Parents(body)

            def is_size_read(x):
                x = A.strip(x)
                return isinstance(x, dict) and ((x.get('k') == 'call' and A.cshort(x) == 'size' and x.get('method') and not x.get('args')) or
                                                (x.get('k') == 'mem' and x.get('field') and x.get('name') in ('_size',)))
            for c in sites:
                a = A.strip(c['args'][LIVE_COUNT_ARG[A.cshort(c)]])
                why = None
                if is_size_read(a):
                    ok = True
                elif a.get('k') == 'ref' and a.get('dk') == 'local' and linit.get(a.get('did')) and linit[a['did']][0] is not None and is_size_read(linit[a['did']][0]):
                    ini = A.strip(linit[a['did']][0])
                    p0 = A.first_eval(ini, order)
                    stale = [m for m in A.calls(body) if A.cshort(m) in SIZE_CHANGERS and m.get('method') and id(m) in order and p0 < order[id(m)] < order[id(c)]
                             and (m.get('obj') is None or A.root(m.get('obj'), linit)[0] == 'this') and _same(P, m, c)]
                    ok = not stale
                    if stale:
                        why = 'the size was read into `%s` before %s ran' % (a.get('name'), A.cshort(stale[0]))
                elif a.get('k') == 'ref' and a.get('dk') == 'param':
                    ok = True        # the caller's contract (checked at its own call site)
                else:
                    ok, why = False, 'the count is neither size() nor a local read from it'
                rr.instance('%s|%s|%s' % (f['key'], A.cshort(c), rel(prog.site(f, c))), {'function': f['pname'][:140], 'helper': A.cshort(c), 'count_is_current_size': ok})
                if not ok:
                    rr.add(Finding('LIVE-COUNT', '%s|%s' % (f['key'], A.cshort(c)), prog.site(f, c),
                                   '%s is told that the destination holds a number of constructed elements that is not its size at this point (%s): it assigns onto raw '
                                   'slots or constructs over live elements' % (A.cshort(c), why), where=f['pname'], unit=prog.uname))
    return rr


def _same(P, a, b):
    ga = {id(c): t for c, t in P._guards(a)}
    for c, t in P._guards(b):
        if id(c) in ga and ga[id(c)] != t:
            return False
    return True
