"""CLOSER: the roll-back helpers really are the inverse of shift_right (DESIGN.md 10.2).

HOLE trusts `shift_left` / `unshift_right` to close the hole that `shift_right` opened.  This rule removes that trust: the body of every
instantiation of a closer is interpreted symbolically - pointer and count expressions are linear forms over the parameters (first, n, count),
case-split on the order of n and count - and the effect is compared with the specification of the closer:

  elements  [src, src + n)  go back to  [dst, dst + n)  by ascending moves (the ranges overlap, dst < src), each slot exactly once,
  and exactly the slots [max(dst + n, src), src + n) - alive before, outside the container afterwards - are destroyed
  (trivially relocatable overload: one uninitialized_relocate_n(src, n, dst), nothing destroyed).

Nothing is executed; a body the interpreter cannot read ends ANALYSIS-BROKEN."""
from ..lib.core import RuleResult, Finding, AnalysisBroken, short
from ..lib import ast as A

# closer -> (source of the shifted elements, where they go back), as linear forms over the parameter names
SPEC = {
    'shift_left': ({'first': 1}, {'first': 1, '': -1}),            # "Shift 'n' elements starting at 'first' one slot back to the left"
    'unshift_right': ({'first': 1, 'count': 1}, {'first': 1}),     # "Undo shift_right(first, n, count)"
}
CASES = ('count<n', 'count==n', 'count>n')


class Unknown(Exception):
    pass


def lin(**kw):
    return {k: v for k, v in kw.items() if v}


def add(a, b, sign=1):
    out = dict(a)
    for k, v in b.items():
        out[k] = out.get(k, 0) + sign * v
        if not out[k]:
            del out[k]
    return out


def canon(d, case):
    """Under count == n the two symbols are one."""
    if case == 'count==n' and 'count' in d:
        d = add({k: v for k, v in d.items() if k != 'count'}, {'n': d['count']})
    return d


def sign_of(d, case):
    """Sign of a linear form under the case (n >= 1 is the closers' precondition), or None."""
    if not d:
        return 0
    if set(d) == {''}:
        return (d[''] > 0) - (d[''] < 0)
    # a * (count - n)
    if set(d) == {'count', 'n'} and d['count'] == -d['n']:
        s = {'count<n': -1, 'count==n': 0, 'count>n': 1}[case]
        return s * ((d['count'] > 0) - (d['count'] < 0))
    if set(d) <= {'n', ''} and d.get('n', 0) > 0 and d.get('', 0) > -d['n']:
        return 1                                           # a*n + c with c > -a: positive because n >= 1
    return None


def nonneg(d, case):
    s = sign_of(d, case)
    if s is not None:
        return s >= 0
    return set(d) <= {'n', ''} and d.get('n', 0) > 0 and d.get('', 0) >= -d['n']      # a*n - a >= 0 because n >= 1


class Interp:
    def __init__(self, f, case):
        self.f, self.case = f, case
        self.env = {}
        self.moves, self.destroys, self.relocs = [], [], []

    def ev(self, n):
        n = A.strip(n)
        if not isinstance(n, dict):
            raise Unknown('empty expression')
        k = n.get('k')
        if k == 'ref':
            if n.get('dk') == 'param':
                return canon({n.get('name'): 1}, self.case)
            if n.get('dk') == 'local' and n.get('did') in self.env:
                return self.env[n['did']]
            raise Unknown('variable %s' % n.get('name'))
        if k == 'lit' and isinstance(n.get('v'), int):
            return lin(**{'': n['v']})
        if n.get('cv') is not None and isinstance(n.get('cv'), int) and k not in ('call',):
            return lin(**{'': n['cv']})
        if k == 'bin' and n.get('op') in ('+', '-'):
            return add(self.ev(n['lhs']), self.ev(n['rhs']), 1 if n['op'] == '+' else -1)
        if k == 'cond':
            return self.ev(n['a'] if self.truth(n['c']) else n['b'])
        if k == 'call':
            nm, args = A.callee(n), n.get('args', [])
            sn = short(nm)
            if nm == 'std::move' and len(args) == 3:
                a, b, d = self.ev(args[0]), self.ev(args[1]), self.ev(args[2])
                ln = add(b, a, -1)
                self.moves.append((a, ln, d))
                return add(d, ln)
            if nm in ('std::max', 'std::min') and len(args) == 2:
                a, b = self.ev(args[0]), self.ev(args[1])
                s = sign_of(add(a, b, -1), self.case)
                if s is None:
                    raise Unknown('max/min of incomparable amounts')
                return (a if s >= 0 else b) if nm == 'std::max' else (a if s <= 0 else b)
            if sn == 'destroy_at' and len(args) >= 1:
                p = self.ev(args[0])
                self.destroys.append((p, add(p, {'': 1})))
                return {}
            if sn == 'destroy_n' and len(args) == 2:
                p = self.ev(args[0])
                self.destroys.append((p, add(p, self.ev(args[1]))))
                return add(p, self.ev(args[1]))
            if sn == 'destroy' and len(args) == 2:
                self.destroys.append((self.ev(args[0]), self.ev(args[1])))
                return {}
            if sn == 'uninitialized_relocate_n' and len(args) == 3:
                self.relocs.append((self.ev(args[0]), self.ev(args[1]), self.ev(args[2])))
                return {}
            if n.get('op') == '=' and n.get('obj') is not None and len(args) == 1:
                return self.assign(n['obj'], args[0])
            if sn in ('addressof', '__addressof') and args:
                return self.ev(args[0])
            raise Unknown('call of %s' % nm)
        if k == 'bin' and n.get('op') == '=':
            return self.assign(n['lhs'], n['rhs'])
        if k == 'un' and n.get('op') == '*':
            return self.ev(n['sub'])
        raise Unknown('expression %s' % k)

    def assign(self, lhs, rhs):
        l, r = A.strip(lhs), A.strip(rhs)
        if l.get('k') == 'ref' and l.get('dk') == 'local':
            self.env[l['did']] = self.ev(rhs)
            return self.env[l['did']]
        if r.get('k') == 'call' and A.callee(r) == 'std::move' and len(r.get('args', [])) == 1:
            r = A.strip(r['args'][0])
        if l.get('k') == 'un' and l.get('op') == '*' and r.get('k') == 'un' and r.get('op') == '*':
            self.moves.append((self.ev(r['sub']), {'': 1}, self.ev(l['sub'])))
            return {}
        raise Unknown('assignment that is not *x = std::move(*y)')

    def truth(self, c):
        c = A.strip(c)
        if c.get('k') == 'bin' and c.get('op') in ('<', '>', '<=', '>=', '==', '!='):
            s = sign_of(add(self.ev(c['lhs']), self.ev(c['rhs']), -1), self.case)
            if s is None:
                raise Unknown('comparison whose outcome the case does not fix')
            return {'<': s < 0, '>': s > 0, '<=': s <= 0, '>=': s >= 0, '==': s == 0, '!=': s != 0}[c['op']]
        raise Unknown('condition')

    def run(self, n):
        if n is None:
            return
        if isinstance(n, list):
            for s in n:
                self.run(s)
            return
        k = n.get('k')
        if 'assert' in (n.get('mac') or []) or 'arg:assert' in (n.get('mac') or []):
            return
        if k == 'block':
            return self.run(n.get('s', []))
        if k == 'decl':
            for v in n.get('vars', []):
                if v.get('init') is not None:
                    self.env[v['did']] = self.ev(v['init'])
            return
        if k == 'if':
            return self.run(n.get('then') if self.truth(n['c']) else n.get('else'))
        if k in ('null',):
            return
        if k in ('call', 'bin', 'cast', 'un'):
            self.ev(n)
            return
        raise Unknown('statement %s' % k)


def fmt(d):
    if not d:
        return '0'
    parts = []
    for k in sorted(d, key=lambda x: (x == '', x)):
        v = d[k]
        parts.append(('%+d' % v) if k == '' else ('%s%s' % ('+' if v > 0 else '-', k) if abs(v) == 1 else '%+d*%s' % (v, k)))
    return ''.join(parts).lstrip('+')


def closer(progs):
    rr = RuleResult('CLOSER', 'the roll-back helpers shift_left / unshift_right are the exact inverse of shift_right: every shifted element goes back '
                              'to its slot by ascending moves, and exactly the slots that leave the container are destroyed (symbolic interpretation, '
                              'case split on the order of n and count)')
    seen = set()
    for prog in progs:
        for f in prog.amc_functions():
            sn = short(f['name'])
            if not f['name'].startswith('amc::vec::') or sn not in SPEC or f.get('body') is None:
                continue
            src0, dst0 = SPEC[sn]
            names = [p['name'] for p in f.get('params', [])]
            cases = CASES if 'count' in names else ('count<n',)
            tr = not any(A.callee(c) == 'std::move' and len(c.get('args', [])) == 3 for c in A.calls(f['body'])) and \
                any(A.cshort(c) == 'uninitialized_relocate_n' for c in A.calls(f['body']))
            for case in cases:
                src, dst = canon(src0, case), canon(dst0, case)
                ip = Interp(f, case)
                try:
                    ip.run(f['body'])
                except Unknown as e:
                    rr.broken = rr.broken or 'CLOSER: cannot interpret %s (%s)' % (f['pname'][:80], e)
                    break
                n_ = {'n': 1}
                why = None
                if ip.relocs and not ip.moves:
                    ok = len(ip.relocs) == 1 and ip.relocs[0] == (src, n_, dst) and not ip.destroys
                    if not ok:
                        why = 'relocates %s, expected one uninitialized_relocate_n(%s, n, %s) and no destroy' % (
                            ['(%s, %s, %s)' % tuple(fmt(x) for x in r) for r in ip.relocs], fmt(src), fmt(dst))
                else:
                    off = add(src, dst, -1)
                    cur, total = src, {}
                    for a, ln, d in ip.moves:
                        if a != cur:
                            why = 'moves do not walk the shifted range in ascending order without gap: a move starts at %s, expected %s' % (fmt(a), fmt(cur))
                            break
                        if add(a, d, -1) != off:
                            why = 'an element is moved from %s to %s: not its original slot (offset %s expected)' % (fmt(a), fmt(d), fmt(off))
                            break
                        cur, total = add(a, ln), add(total, ln)
                    if why is None and total != n_:
                        why = 'the moves bring back %s elements, not n' % fmt(total)
                    if why is None:
                        lo_a, lo_b = add(dst, n_), src
                        dd = add(lo_a, lo_b, -1)
                        if sign_of(dd, case) is None and not nonneg(dd, case):
                            rr.broken = rr.broken or 'CLOSER: cannot order %s and %s' % (fmt(lo_a), fmt(lo_b))
                            break
                        want = (lo_a if nonneg(dd, case) else lo_b, add(src, n_))
                        got = [d for d in ip.destroys if d[0] != d[1]]
                        if want[0] == want[1]:
                            ok = not got
                        else:
                            ok = got == [want]
                        if not ok:
                            why = 'destroys %s, expected exactly [%s, %s)' % (['[%s, %s)' % (fmt(a), fmt(b)) for a, b in ip.destroys], fmt(want[0]), fmt(want[1]))
                key = '%s|%s|%s' % (f['key'], 'reloc' if tr else 'move', case)
                rr.instance(key + '|' + prog.uname, {'function': f['pname'][:140], 'case': case if 'count' in names else 'n >= 1', 'moves': len(ip.moves),
                                                     'relocations': len(ip.relocs), 'destroys': len(ip.destroys), 'verdict': why or 'inverse of shift_right'})
                if why and key not in seen:
                    seen.add(key)
                    rr.add(Finding('CLOSER', key, f['loc'], '%s is not the inverse of shift_right (%s): %s - the roll-back of a failed insertion '
                                   'loses, duplicates or double-destroys elements' % (sn, case if 'count' in names else 'n >= 1', why), where=f['pname'], unit=prog.uname))
    return rr
