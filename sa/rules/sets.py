"""Rules for FlatSet and SmallSet (DESIGN.md 3.F): CMP-OBJ, NODE, STABLE, SORT-INV, SEARCH, LIN-SMALL, HINT-K,
SS-STATE, SS-DUP, ITER-ALT, ALT-SIB."""
from ..lib.core import RuleResult, Finding, short, walk, rel
from ..lib import ast as A
from ..lib.flow import Engine, Client
from .shape import unwrap_cond

FS = 'amc::FlatSet'
SS = 'amc::SmallSet'
SEARCH_ALGOS = {'std::lower_bound', 'std::upper_bound', 'std::equal_range', 'std::binary_search'}
LINEAR_ALGOS = {'std::find', 'std::find_if', 'std::find_if_not', 'std::any_of', 'std::all_of', 'std::none_of', 'std::count', 'std::count_if',
                'std::sort', 'std::stable_sort', 'std::unique', 'std::inplace_merge', 'std::merge', 'std::is_sorted', 'std::adjacent_find',
                'std::equal', 'std::mismatch', 'std::lexicographical_compare', 'std::for_each', 'std::is_permutation', 'std::remove_if',
                'std::partition', 'std::min_element', 'std::max_element', 'std::search', 'std::lexicographical_compare_three_way'}


def in_class(f, cls):
    return f['name'].startswith(cls + '::')


def norm(t):
    return t.replace('const ', '').replace('&', '').strip()


def compare_types(prog):
    out = set()
    for r in prog.records:
        if r.get('qname') in (FS, SS):
            kc = r.get('typedefs', {}).get('key_compare')
            if kc:
                out.add(norm(kc))
    return out


def is_cmp_call(n, cmps):
    return n.get('k') == 'call' and n.get('op') == '()' and n.get('obj') is not None and norm(A.strip(n['obj']).get('t', '')) in cmps


# ------------------------------------------------------------------------------ CMP-OBJ
def cmp_obj(progs, cls_list=(FS, SS)):
    rr = RuleResult('CMP-OBJ', 'every ordering / equivalence decision of FlatSet and SmallSet uses the comparator object the set was constructed with: '
                               'no default-constructed temporary comparator is used (default arguments of constructors excepted)')
    for prog in progs:
        cmps = compare_types(prog)
        if not cmps:
            continue
        for f in prog.amc_functions():
            if not any(in_class(f, c) for c in cls_list) or f.get('body') is None:
                continue
            body = {'b': f['body'], 'i': f.get('inits')}
            # the initialisers of a constructor *are* the stored comparator
            stored_inits = {id(A.strip(i.get('init'))) for i in (f.get('inits') or []) if isinstance(i.get('init'), dict)}
            # uses of the stored comparator (for the evidence) and temporaries
            nuse = 0
            for n in walk(body):
                if id(n) in stored_inits:
                    continue
                if n.get('k') in ('call',) and is_cmp_call(n, cmps):
                    nuse += 1
                is_tmp = (n.get('k') == 'construct' and norm(n.get('t', '')) in cmps and n.get('ctor') == 'default') or \
                         (n.get('k') in ('valueinit', 'initlist') and norm(n.get('t', '')) in cmps and not n.get('elems'))
                if is_tmp:
                    if n.get('defarg'):
                        continue
                    # in a constructor, a default-constructed comparator handed to a delegating constructor is the stored one
                    P = A.Parents(body)
                    deleg = False
                    for a, slot in P.ancestors(n):
                        if a.get('delegating') or a.get('k') == 'construct' and f.get('kind') == 'ctor' and norm(a.get('t', '')) == norm(f.get('cls', '')):
                            deleg = True
                    rr.instance('%s|tmp|%s' % (f['key'], rel(prog.site(f, n))), {'function': f['pname'][:140], 'temporary_comparator': True, 'constructor_delegation': deleg})
                    if deleg:
                        continue
                    rr.add(Finding('CMP-OBJ', '%s' % f['key'], prog.site(f, n),
                                   'a default-constructed comparator (%s) is used instead of the comparator object the set was constructed with: for a '
                                   'stateful comparator ordering / equivalence decisions differ from the rest of the set' % n.get('t'),
                                   where=f['pname'], unit=prog.uname))
            if nuse:
                rr.instance('%s|uses' % f['key'], {'function': f['pname'][:140], 'comparator_calls': nuse})
            # SmallSet keeps its comparator inside the backing set: a default-constructed SetType temporary that replaces `_set` loses it
            if in_class(f, SS) and f.get('kind') != 'ctor' and f.get('clsq') == SS:
                rec = prog.record(f.get('cls', ''))
                set_t = None
                for fd in (rec or {}).get('fields', []):
                    if fd['name'] == '_set':
                        set_t = norm(fd['t'])
                for n in walk(f['body']):
                    if set_t and n.get('k') == 'construct' and norm(n.get('t', '')) == set_t and n.get('ctor') == 'default' and not n.get('defarg'):
                        rr.add(Finding('CMP-OBJ', '%s|settype' % f['key'], prog.site(f, n),
                                       'a default-constructed backing set (which carries a default-constructed comparator and allocator) is created in a member of '
                                       'SmallSet: swapping / assigning it into the set loses the comparator the SmallSet was constructed with',
                                       where=f['pname'], unit=prog.uname))
    return rr


# ------------------------------------------------------------------------------ NODE
def node(progs):
    rr = RuleResult('NODE', 'insert(node_type&&) empties the node only if the insertion happened')
    for prog in progs:
        for f in prog.amc_functions():
            if not (in_class(f, FS) or in_class(f, SS)) or short(f['name']) != 'insert' or f.get('body') is None:
                continue
            if not any('node_type' in p['t'] and p['t'].rstrip().endswith('&&') for p in f.get('params', [])):
                continue
            body = f['body']
            P = A.Parents(body)
            resets = []
            for n in A.calls(body):
                if n.get('op') == '=' and n.get('method') and 'optional' in A.strip(n.get('obj') or {}).get('t', ''):
                    a = A.strip(n['args'][0]) if n.get('args') else {}
                    if 'nullopt' in a.get('t', '') or a.get('name') == 'nullopt':
                        resets.append(n)
                if A.cshort(n) == 'reset' and n.get('method') and 'optional' in A.strip(n.get('obj') or {}).get('t', ''):
                    resets.append(n)
            for n in resets:
                ok = False
                for cond, truth in P.guards(n):
                    names = {x.get('name') for x in walk(cond) if x.get('k') in ('mem', 'ref')}
                    if 'inserted' in names or 'second' in names:
                        ok = True
                    if any(A.cshort(c) == 'size' for c in A.calls(cond)):
                        ok = True
                    # a local bool derived from those
                    li = A.local_inits(body)
                    for x in walk(cond):
                        if x.get('k') == 'ref' and x.get('dk') == 'local' and li.get(x.get('did')) and li[x['did']][0] is not None:
                            nn = {y.get('name') for y in walk(li[x['did']][0]) if y.get('k') in ('mem', 'ref')}
                            if 'inserted' in nn or 'second' in nn or any(A.cshort(c) == 'size' for c in A.calls(li[x['did']][0])):
                                ok = True
                rr.instance('%s|%s' % (f['key'], rel(prog.site(f, n))), {'function': f['pname'][:140], 'reset_depends_on_insertion': ok})
                if not ok:
                    rr.add(Finding('NODE', '%s' % f['key'], prog.site(f, n),
                                   'the node is emptied whether or not the insertion happened: when an equivalent element exists the value is dropped '
                                   '(std::set leaves the node owning it)', where=f['pname'], unit=prog.uname))
    return rr


# ------------------------------------------------------------------------------ STABLE / SORT-INV
def sort_rules(progs):
    stable = RuleResult('STABLE', 'duplicate removal keeps the first inserted of equivalent elements: the sort feeding eraseDuplicates is stable')
    inv = RuleResult('SORT-INV', 'every bulk writer of the sorted vector (data supplied by the caller: iterator range or vector) re-establishes '
                                 'sorted + unique (sort, merge when appending, eraseDuplicates) before it returns')
    for prog in progs:
        for f in prog.amc_functions():
            if not in_class(f, FS) or f.get('body') is None or f.get('lambda'):
                continue
            body = f['body']
            whole = {'i': f.get('inits'), 'b': body}
            pos = A.eval_order(body, f.get('inits'))
            order = sorted([n for n in walk(whole) if n.get('k') in ('call', 'construct') and id(n) in pos], key=lambda n: pos[id(n)])
            def helper_effects(n, depth=0):
                """What a call contributes to the invariant: directly, or through a private FlatSet helper whose body does it
                unconditionally (a clean-up that extracts `sort + eraseDuplicates` into one member keeps the effect)."""
                out = set()
                if A.callee(n) == 'std::stable_sort':
                    out.add('sort-stable')
                elif A.callee(n) == 'std::sort':
                    out.add('sort-unstable')
                elif A.cshort(n) == 'eraseDuplicates':
                    out.add('dedup')
                elif A.callee(n) == 'std::inplace_merge':
                    out.add('merge')
                elif A.callee(n) == 'std::unique':
                    out.add('unique')
                elif depth < 2 and n.get('amc') and n.get('fn') in prog.fns and prog.fns[n['fn']].get('body') is not None \
                        and prog.fns[n['fn']]['id'] != f['id']:
                    g = prog.fns[n['fn']]
                    Pg = A.Parents(g['body'])
                    for c in A.calls(g['body']):
                        if not Pg.guards(c) and not Pg.in_loop(c):
                            out |= helper_effects(c, depth + 1)
                    # duplicate removal recognised by what it does (std::unique + erase of the tail), wherever it lives
                    if 'unique' in out and any(A.cshort(c) == 'erase' for c in A.calls(g['body'])):
                        out.add('dedup')
                return out
            eff = {id(n): helper_effects(n) for n in order}
            sorts = [n for n in order if eff[id(n)] & {'sort-stable', 'sort-unstable'}]
            dedup = [n for n in order if 'dedup' in eff[id(n)]]
            for s in sorts:
                followed = any(pos[id(d)] >= pos[id(s)] for d in dedup)
                if followed:
                    ok = 'sort-unstable' not in eff[id(s)]
                    stable.instance('%s|%s' % (f['key'], rel(prog.site(f, s))), {'function': f['pname'][:140], 'sort': A.callee(s), 'stable': ok})
                    if not ok:
                        stable.add(Finding('STABLE', '%s' % f['key'], prog.site(f, s),
                                           'std::sort (unstable) orders the elements before duplicate removal: of several equivalent elements an arbitrary one '
                                           'survives, std::set keeps the first inserted', where=f['pname'], unit=prog.uname))
            # bulk writers: caller-supplied data lands in _sortedVector
            ps = f.get('params', [])

            def from_caller(n):
                for x in walk(n):
                    if x.get('k') == 'ref' and x.get('dk') == 'param':
                        pt = ps[x['idx']]['t'] if x.get('idx') is not None and x['idx'] < len(ps) else ''
                        if 'amc::FlatSet<' in pt and 'FlatSet' in norm(pt).split('<')[0]:
                            continue
                        if 'initializer_list' in pt:
                            continue
                        return True
                return False
            bulk = []
            for i in (f.get('inits') or []):
                if i.get('member') == '_sortedVector' and isinstance(i.get('init'), dict):
                    ini = A.strip(i['init'])
                    args = ini.get('args', []) if ini.get('k') == 'construct' else []
                    data_args = [a for a in args if isinstance(a, dict) and not a.get('defarg') and 'llocator' not in a.get('t', '') and 'EmptyAlloc' not in a.get('t', '')]
                    if data_args and any(from_caller(a) for a in data_args):
                        bulk.append(ini)
            for n in A.calls(body):
                if n.get('method') and n.get('obj') is not None and A.strip(n['obj']).get('name') == '_sortedVector':
                    nargs = len(n.get('args', []))
                    is_range = (A.cshort(n) == 'insert' and nargs >= 3) or (A.cshort(n) in ('append', 'assign') and nargs >= 2)
                    if is_range and from_caller({'a': n['args'][-2:]}):
                        bulk.append(n)
                    if n.get('op') == '=' and n.get('args') and from_caller(n['args'][0]):
                        bulk.append(n)
            for b in bulk:
                p0 = pos.get(id(b), -1)
                has_sort = any(pos[id(s_)] > p0 for s_ in sorts)
                has_dedup = any(pos[id(d)] > p0 for d in dedup)
                appended = b.get('k') == 'call' and A.cshort(b) in ('insert', 'append')
                has_merge = (not appended) or any('merge' in eff[id(n)] and pos[id(n)] > p0 for n in order)
                # all unconditional
                P = A.Parents(whole)
                uncond = all(not P.guards(x) for x in sorts + dedup)
                ok = has_sort and has_dedup and has_merge and uncond
                inv.instance('%s|%s' % (f['key'], rel(prog.site(f, b))), {'function': f['pname'][:140], 'bulk_write': A.cshort(b) or 'construct',
                                                                         'sort': has_sort, 'merge': has_merge, 'unique': has_dedup, 'unconditional': uncond})
                if not ok:
                    inv.add(Finding('SORT-INV', '%s' % f['key'], prog.site(f, b),
                                    'caller-supplied data is written into the sorted vector without re-establishing the invariant afterwards '
                                    '[sort=%s merge=%s unique=%s unconditional=%s]' % (has_sort, has_merge, has_dedup, uncond), where=f['pname'], unit=prog.uname))
    return stable, inv


# ------------------------------------------------------------------------------ SEARCH / LIN-SMALL / HINT-K (comparator-call counting)
class Cost:
    __slots__ = ('search', 'cmp', 'unbounded', 'why')

    def __init__(self, search=0, cmp=0, unbounded=False, why=''):
        self.search, self.cmp, self.unbounded, self.why = search, cmp, unbounded, why


def _cmp_arg(n, cmps):
    """Does the call receive a comparator object / a functor (it will call it a data-dependent number of times)?"""
    for a in n.get('args', []) or []:
        if isinstance(a, dict):
            t = norm(A.strip(a).get('t', ''))
            if t in cmps or 'FindFunctor' in t or A.strip(a).get('k') == 'lambda' or t.endswith('::value_compare'):
                return True
    return False


def path_cost(prog, fid, cmps, memo, depth=0):
    """(max searches, max direct comparator calls) on any path through amc function fid, following amc callees."""
    if fid in memo:
        return memo[fid]
    memo[fid] = Cost()   # recursion guard
    f = prog.fns.get(fid)
    if f is None or f.get('body') is None or not f.get('amc'):
        return memo[fid]
    body = f['body']
    P = A.Parents(body)

    def node_cost(n):
        c = Cost()
        if n.get('k') != 'call':
            return c
        nm = A.callee(n)
        if is_cmp_call(n, cmps):
            c.cmp = 1
        elif nm in SEARCH_ALGOS:
            c.search = 1
        elif nm.startswith('std::') and _cmp_arg(n, cmps):
            c.unbounded = True
            c.why = '%s with the comparator' % nm
        elif n.get('amc') and n.get('fn'):
            sub = path_cost(prog, n['fn'], cmps, memo, depth + 1)
            c.search, c.cmp, c.unbounded, c.why = sub.search, sub.cmp, sub.unbounded, sub.why
        return c

    def rec(node):
        if isinstance(node, list):
            tot = Cost()
            for x in node:
                s = rec(x)
                tot.search += s.search
                tot.cmp += s.cmp
                tot.unbounded = tot.unbounded or s.unbounded
                tot.why = tot.why or s.why
            return tot
        if not isinstance(node, dict):
            return Cost()
        k = node.get('k')
        if k == 'lambda':
            return Cost()
        own = node_cost(node)
        if own.unbounded or (k == 'call' and (own.search or own.cmp) and not is_cmp_call(node, cmps) and A.callee(node) not in SEARCH_ALGOS):
            # amc callee: its cost stands for the whole call; still add the arguments
            pass
        kids = Cost()
        if k in ('if',):
            c0 = rec([node.get('init'), node.get('c')])
            a, b = rec(node.get('then')), rec(node.get('else'))
            kids.search = c0.search + max(a.search, b.search)
            kids.cmp = c0.cmp + max(a.cmp, b.cmp)
            kids.unbounded = c0.unbounded or a.unbounded or b.unbounded
            kids.why = c0.why or a.why or b.why
        elif k == 'cond':
            c0 = rec(node.get('c'))
            a, b = rec(node.get('a')), rec(node.get('b'))
            kids.search = c0.search + max(a.search, b.search)
            kids.cmp = c0.cmp + max(a.cmp, b.cmp)
            kids.unbounded = c0.unbounded or a.unbounded or b.unbounded
            kids.why = c0.why or a.why or b.why
        elif k in A.LOOPS:
            inner = rec([v for kk, v in node.items() if isinstance(v, (dict, list))])
            if inner.search or inner.cmp or inner.unbounded:
                kids.unbounded = True
                kids.why = inner.why or 'comparator work inside a loop'
        else:
            kids = rec([v for kk, v in node.items() if isinstance(v, (dict, list))])
        kids.search += own.search
        kids.cmp += own.cmp
        kids.unbounded = kids.unbounded or own.unbounded
        kids.why = kids.why or own.why
        return kids
    res = rec(body)
    memo[fid] = res
    return res


LOOKUPS = {'find', 'contains', 'count', 'lower_bound', 'upper_bound', 'equal_range', 'mfind', 'insert_val', 'erase', 'extract', 'insert', 'emplace'}


def search(progs):
    rr = RuleResult('SEARCH', 'every FlatSet lookup / position search is one binary search over the sorted vector plus at most 2 direct comparator '
                              'calls on any path, with no loop and no linear algorithm involving the comparator: <= 2*ceil(log2(n+1))+4 comparisons')
    for prog in progs:
        cmps = compare_types(prog)
        memo = {}
        for f in prog.amc_functions():
            if not in_class(f, FS) or f.get('body') is None or short(f['name']) not in LOOKUPS:
                continue
            ps = f.get('params', [])
            sn = short(f['name'])
            # by-key forms only: erase/extract by position, range insert, hinted insert and node insert are not lookups
            if sn in ('erase', 'extract') and (not ps or 'const_iterator' in ps[0].get('st', '') or len(ps) != 1 or ps[0]['t'].rstrip().endswith('*')):
                continue
            if sn == 'insert' and (len(ps) != 1 or 'node_type' in ps[0]['t'] or 'initializer_list' in ps[0]['t']):
                continue
            c = path_cost(prog, f['id'], cmps, memo)
            ok = (not c.unbounded) and c.search <= 1 and c.cmp <= 2 and (c.search == 1 or sn in ())
            rr.instance('%s' % f['key'], {'function': f['pname'][:150], 'binary_searches_max': c.search, 'direct_comparator_calls_max': c.cmp,
                                          'unbounded': c.unbounded, 'ok': ok})
            if not ok:
                rr.add(Finding('SEARCH', '%s' % f['key'], f['loc'],
                               'lookup is not a single binary search plus O(1) comparisons: searches=%d direct comparator calls=%d%s'
                               % (c.search, c.cmp, (' unbounded: ' + c.why) if c.unbounded else ''), where=f['pname'], unit=prog.uname))
    return rr


def is_hinted_fn(f):
    """A hinted insertion entry point of FlatSet, recognised by its shape (names are free to change): a member taking a position
    of the set followed by a value / arguments / a node, and returning a position."""
    if not in_class(f, FS) or f.get('kind') != 'method' or len(f.get('params', [])) < 2 or short(f['name']) == 'erase':
        return False
    p0, p1 = norm(f['params'][0]['t']), norm(f['params'][1]['t'])
    is_pos = p0.rstrip().endswith('*') or '__normal_iterator' in p0
    ret = norm(f.get('ret') or '')
    ret_pos = ret.rstrip().endswith('*') or '__normal_iterator' in ret
    return is_pos and ret_pos and p1 != p0 and not (f['params'][0]['t'].rstrip().endswith('&'))


def hint_k(progs):
    rr = RuleResult('HINT-K', 'insert_hint is loop-free and on every path that reaches neither a binary search nor the un-hinted insert it makes at '
                              'most 8 direct comparator calls (amc itself needs at most 4; the property only asks for a constant)')
    for prog in progs:
        cmps = compare_types(prog)
        for f in prog.amc_functions():
            if f.get('body') is None or not is_hinted_fn(f):
                continue
            body = f['body']
            if not any(c.get('op') == '()' and norm(A.strip(c.get('obj') or {}).get('t', '')) in cmps for c in A.calls(body)) and \
                    not any(A.callee(c) in SEARCH_ALGOS for c in A.calls(body)):
                continue      # a pure delegation: the decision tree is in the member it forwards to
            loops = [n for n in walk(body) if n.get('k') in A.LOOPS]

            # enumerate paths of the structured tree: (comparator calls, searched) for every way to a return
            def paths(node, acc):
                """acc: list of (cmp, searched, done). Returns new list."""
                if isinstance(node, list):
                    for x in node:
                        acc = paths(x, acc)
                    return acc
                if not isinstance(node, dict):
                    return acc
                k = node.get('k')
                live = [a for a in acc if not a[2]]
                dead = [a for a in acc if a[2]]
                if not live:
                    return acc
                if k == 'if':
                    live = paths(node.get('c'), live)
                    t = paths(node.get('then'), list(live))
                    e = paths(node.get('else'), list(live)) if node.get('else') is not None else list(live)
                    return dead + t + e
                if k == 'cond':
                    live = paths(node.get('c'), live)
                    return dead + paths(node.get('a'), list(live)) + paths(node.get('b'), list(live))
                if k == 'bin' and node.get('op') in ('&&', '||'):
                    l = paths(node.get('lhs'), live)
                    # short circuit: either stop after lhs or go on with rhs
                    r = paths(node.get('rhs'), list(l))
                    return dead + l + r
                if k == 'ret':
                    live = paths(node.get('e'), live)
                    return dead + [(c, s, True) for c, s, d in live]
                if k == 'lambda':
                    return acc
                for kk, v in node.items():
                    if isinstance(v, (dict, list)) and kk not in ('mac',):
                        live = paths(v, live)
                if k == 'call':
                    if is_cmp_call(node, cmps):
                        live = [(c + 1, s, d) for c, s, d in live]
                    elif A.callee(node) in SEARCH_ALGOS or (node.get('amc') and A.cshort(node) in ('insert', 'insert_val', 'lower_bound', 'find')):
                        live = [(c, True, d) for c, s, d in live]
                return dead + live
            ps = paths(body, [(0, False, False)])
            worst = max([c for c, s, d in ps if not s] or [0])
            rr.instance('%s' % f['key'], {'function': f['pname'][:150], 'paths': len(ps), 'search_free_paths': sum(1 for c, s, d in ps if not s),
                                          'max_comparator_calls_on_search_free_path': worst, 'loops': len(loops)})
            if loops or worst > 8:
                rr.add(Finding('HINT-K', '%s' % f['key'], f['loc'],
                               'hinted insertion is not O(1) on its search-free paths: %d comparator calls, %d loops' % (worst, len(loops)),
                               where=f['pname'], unit=prog.uname))
    return rr


def lin_small(progs):
    rr = RuleResult('LIN-SMALL', 'in its inline state a SmallSet lookup is one linear scan with at most 2 comparator calls per element plus at most 2 '
                                 'further calls: <= 2N+2')
    for prog in progs:
        cmps = compare_types(prog)
        for f in prog.amc_functions():
            if f.get('body') is None:
                continue
            if f['name'] == SS + '::FindFunctor::operator()':
                n = A.max_count(f['body'], lambda x: is_cmp_call(x, cmps) or (x.get('k') == 'call' and x.get('op') == '()' and
                                                                             A.strip(x.get('obj') or {}).get('name') == '_comp'))
                loops = [x for x in walk(f['body']) if x.get('k') in A.LOOPS]
                ok = n <= 2 and not loops
                rr.instance('%s' % f['key'], {'function': f['pname'][:140], 'comparator_calls_per_element': n, 'ok': ok})
                if not ok:
                    rr.add(Finding('LIN-SMALL', '%s' % f['key'], f['loc'], 'the inline-state predicate makes %d comparator calls per element (max 2)' % n,
                                   where=f['pname'], unit=prog.uname))
            if f['name'] in (SS + '::find_small', SS + '::mfind_small'):
                scans = [c for c in A.calls(f['body']) if A.callee(c) in LINEAR_ALGOS]
                loops = [x for x in walk(f['body']) if x.get('k') in A.LOOPS]
                ok = len(scans) == 1 and not loops and A.callee(scans[0]) in ('std::find_if', 'std::find')
                rr.instance('%s' % f['key'], {'function': f['pname'][:140], 'linear_scans': len(scans), 'ok': ok})
                if not ok:
                    rr.add(Finding('LIN-SMALL', '%s' % f['key'], f['loc'], 'the inline-state lookup is not a single linear scan (%d scans, %d loops)' % (len(scans), len(loops)),
                                   where=f['pname'], unit=prog.uname))
            if in_class(f, SS) and short(f['name']) in ('find', 'contains', 'count') and f.get('const'):
                # at most one scan (through find_small) and no further comparator work on any path
                def is_scan(x):
                    return x.get('k') == 'call' and (A.cshort(x) in ('find_small', 'mfind_small') or A.callee(x) in LINEAR_ALGOS)
                m = A.max_count(f['body'], is_scan)
                loops = [x for x in walk(f['body']) if x.get('k') in A.LOOPS]
                # contains/count may forward to find / contains
                fwd = [c for c in A.calls(f['body']) if c.get('amc') and A.cshort(c) in ('find', 'contains')]
                ok = (m <= 1 and not loops) or (m == 0 and fwd)
                rr.instance('%s' % f['key'], {'function': f['pname'][:140], 'scans_on_a_path': m, 'ok': bool(ok)})
                if not ok:
                    rr.add(Finding('LIN-SMALL', '%s' % f['key'], f['loc'], 'more than one linear scan (or a loop) on a lookup path of the inline state',
                                   where=f['pname'], unit=prog.uname))
    return rr


# ------------------------------------------------------------------------------ SS-STATE / SS-DUP
VEC_ADD = {'push_back', 'emplace_back', 'insert', 'emplace', 'append'}
VEC_REMOVE = {'erase', 'pop_back', 'clear', 'pop_back_val'}
SET_WRITE = {'insert', 'emplace', 'emplace_hint', 'merge', 'erase', 'clear', 'extract'}


def member_of(n, linit=None):
    """('this'|param name, '_vec'|'_set') when n is a member call on one of SmallSet's two containers."""
    o = A.strip(n.get('obj')) if n.get('obj') is not None else None
    if isinstance(o, dict) and o.get('k') == 'mem' and o.get('field') and o.get('name') in ('_vec', '_set') and o.get('clsq') == SS:
        kind, r = A.root(o.get('base'), linit)
        return ('this' if kind == 'this' else (r.get('name') or kind)), o['name']
    return None


class SSClient(Client):
    def __init__(self, f, linit, report):
        self.f, self.linit, self.report = f, linit, report
        self.bool_locals = {}

    def is_event(self, n):
        return n.get('k') in ('call', 'bin')

    def _pred(self, c):
        c = A.strip(c)
        if isinstance(c, dict) and c.get('k') == 'call' and c.get('amc'):
            kind, r = A.root(c.get('obj'), self.linit) if c.get('obj') is not None else ('this', {})
            obj = 'this' if kind == 'this' else (r.get('name') or kind)
            if A.callee(c) == SS + '::isSmall':
                return ('S', obj), ('L', obj)
            if A.callee(c) == SS + '::isSmallContFull':
                return ('full', obj), ('room', obj)
        if isinstance(c, dict) and c.get('k') == 'ref' and c.get('dk') == 'local' and c.get('did') in self.bool_locals:
            return ('S', 'this'), ('L', 'this')
        return None

    def assume(self, cond, truth, s):
        p = self._pred(cond)
        if p:
            fact = p[0] if truth else p[1]
            kill = {p[0], p[1]}
            return frozenset(x for x in s if x not in kill) | {fact}
        return s

    def event(self, n, s):
        if n.get('k') == 'bin':
            # small = false after grow()
            return [('n', s)]
        if A.callee(n) == SS + '::grow':
            return [('n', frozenset(x for x in s if x not in (('S', 'this'), ('room', 'this'), ('full', 'this'))) | {('L', 'this')})]
        m = member_of(n, self.linit)
        if m and not n.get('constm'):
            obj, which = m
            sn = A.cshort(n)
            if which == '_vec':
                if sn in VEC_ADD:
                    self.report(n, ('S', obj) in s and ('room', obj) in s, 'adds to the inline vector without knowing that the set is inline and not full')
                elif sn in VEC_REMOVE:
                    # emptying a container as a whole is right in either state (the unused one is empty anyway)
                    self.report(n, ('S', obj) in s or sn == 'clear', 'removes from the inline vector without knowing that the set is inline')
                    return [('n', frozenset(x for x in s if x not in (('full', obj), ('room', obj))))]
            else:
                if sn in SET_WRITE:
                    self.report(n, ('L', obj) in s or sn == 'clear', 'writes the large-state set without knowing that the set is large')
                    if sn in ('erase', 'clear', 'extract'):
                        return [('n', frozenset(x for x in s if x != ('L', obj)))]
        return [('n', s)]


def ss_state(progs):
    rr = RuleResult('SS-STATE', 'exactly one of SmallSet\'s two containers holds the elements: every write to the large-state set is dominated by '
                                'the fact "large" (isSmall() false or a preceding grow()), every add to the inline vector by "inline and not full", every '
                                'removal from it by "inline"; grow() moves all of the vector into the set and clears it')
    for prog in progs:
        for f in prog.amc_functions():
            if not in_class(f, SS) or f.get('body') is None or f.get('kind') in ('ctor', 'dtor'):
                continue
            sn = short(f['name'])
            if sn in ('swap',):
                continue
            body = f['body']
            linit = A.local_inits(body)
            if not any(member_of(c, linit) for c in A.calls(body)):
                continue
            if sn == 'grow':
                seq = [(member_of(c, linit) or (None, None))[1] + '.' + A.cshort(c) for c in A.calls(body)
                       if member_of(c, linit) and A.cshort(c) in (VEC_ADD | VEC_REMOVE | SET_WRITE)]
                ok = seq == ['_set.insert', '_vec.clear']
                rr.instance('%s' % f['key'], {'function': f['pname'][:140], 'sequence': seq, 'ok': ok})
                if not ok:
                    rr.add(Finding('SS-STATE', '%s' % f['key'], f['loc'], 'grow() must move the whole inline vector into the set and then clear it; found %s' % seq,
                                   where=f['pname'], unit=prog.uname))
                continue
            sites = {}

            def report(n, ok, why, sites=sites):
                v = sites.setdefault(id(n), [n, True, why])
                v[1] = v[1] and ok
            cl = SSClient(f, linit, report)
            for did, (ini, ty) in linit.items():
                if ty == 'bool' and ini is not None and A.strip(ini).get('k') == 'call' and A.callee(A.strip(ini)) == SS + '::isSmall':
                    cl.bool_locals[did] = True
            init = frozenset()
            # private helpers with a state precondition established by every caller
            if sn in ('insert_small', 'find_small', 'mfind_small'):
                init = frozenset({('S', 'this')})
            if sn == 'insert_set':
                init = frozenset({('L', 'this')})

            class Eng(Engine):
                pass
            eng = Eng(cl)
            # `small = false` assignments: handled as the local no longer implying S; the grow() before it gives L
            eng.run(body, init, f.get('inits'))
            for n, ok, why in sites.values():
                m = member_of(n, linit)
                rr.instance('%s|%s.%s|%s' % (f['key'], m[1], A.cshort(n), rel(prog.site(f, n))), {'function': f['pname'][:140], 'write': '%s.%s' % (m[1], A.cshort(n)), 'ok': ok})
                if not ok:
                    rr.add(Finding('SS-STATE', '%s|%s.%s' % (f['key'], m[1], A.cshort(n)), prog.site(f, n),
                                   '%s.%s %s: both containers could hold elements (or the inline vector overflow)' % (m[1], A.cshort(n), why),
                                   where=f['pname'], unit=prog.uname))
        # callers establish the preconditions of the private helpers
        for f in prog.amc_functions():
            if not in_class(f, SS) or f.get('body') is None:
                continue
            P = A.Parents(f['body'])
            for c in A.calls(f['body']):
                if A.callee(c) in (SS + '::insert_small', SS + '::insert_set'):
                    want_small = A.callee(c).endswith('insert_small')
                    ok = False
                    for cond, truth in P.guards(c):
                        cn, neg = unwrap_cond(cond)
                        if isinstance(cn, dict) and cn.get('k') == 'call' and A.callee(cn) == SS + '::isSmall':
                            if (truth != neg) == want_small:
                                ok = True
                    # while (isSmall() && ...) loop body
                    for a, slot in P.ancestors(c):
                        if a.get('k') == 'while' and slot == 'body':
                            for x in walk(a.get('c')):
                                if x.get('k') == 'call' and A.callee(x) == SS + '::isSmall' and want_small:
                                    ok = True
                    rr.instance('%s|call|%s|%s' % (f['key'], A.cshort(c), rel(prog.site(f, c))), {'function': f['pname'][:140], 'calls': A.cshort(c), 'state_established': ok})
                    if not ok:
                        rr.add(Finding('SS-STATE', '%s|call|%s' % (f['key'], A.cshort(c)), prog.site(f, c),
                                       '%s is called without establishing the %s state first' % (A.cshort(c), 'inline' if want_small else 'large'),
                                       where=f['pname'], unit=prog.uname))
    return rr


def ss_dup(progs):
    rr = RuleResult('SS-DUP', 'every path that adds an element to the inline vector tests membership over that vector with the stored comparator '
                              '(before the add, or after it with removal on a hit)')
    SCAN = {'find_small', 'mfind_small', 'find_if', 'none_of', 'any_of', 'find'}
    for prog in progs:
        for f in prog.amc_functions():
            if not in_class(f, SS) or f.get('body') is None or f.get('kind') in ('ctor', 'dtor') or short(f['name']) == 'grow':
                continue
            body = f['body']
            linit = A.local_inits(body)
            adds = [c for c in A.calls(body) if member_of(c, linit) == ('this', '_vec') and A.cshort(c) in VEC_ADD and not c.get('constm')]
            if not adds:
                continue
            P = A.Parents(body)
            order = A.eval_order(body, f.get('inits'))

            lvals = A.local_values(body)

            def resolve(e, depth=0):
                e = A.strip(e)
                while isinstance(e, dict) and e.get('k') == 'construct' and len(e.get('args', []) or []) == 1:
                    e = A.strip(e['args'][0])
                if isinstance(e, dict) and e.get('k') == 'ref' and e.get('dk') == 'local' and depth < 3:
                    vals = lvals.get(e.get('did'), [])
                    if len(vals) == 1:
                        return resolve(vals[0], depth + 1)
                return e

            def whole(x):
                """The scan covers [_vec.begin(), _vec.end()): a test over a part of the vector misses the elements outside it."""
                if A.cshort(x) in ('find_small', 'mfind_small'):
                    return True
                args = x.get('args', []) or []
                if len(args) < 2:
                    return True
                b, e = resolve(args[0]), resolve(args[1])
                okb = isinstance(b, dict) and b.get('k') == 'call' and A.cshort(b) in ('begin', 'cbegin') and member_of(b, linit) == ('this', '_vec')
                oke = isinstance(e, dict) and e.get('k') == 'call' and A.cshort(e) in ('end', 'cend') and member_of(e, linit) == ('this', '_vec')
                cands = [e]
                if isinstance(e, dict) and e.get('k') == 'ref' and e.get('dk') == 'local':
                    cands = lvals.get(e.get('did'), [])
                if okb and not oke and any(y is cur[0] for c_ in cands if isinstance(c_, dict) for y in walk(c_)):
                    return True                      # add-then-check: everything before the element that was just added
                if okb and not oke:
                    partial.append(x)
                return not okb or oke

            def has_scan(node, depth=0):
                for x in walk(node):
                    if x.get('k') == 'call' and A.cshort(x) in SCAN and whole(x):
                        return True
                    if depth < 3 and x.get('k') == 'ref' and x.get('dk') == 'local':
                        # the local may have been initialised or assigned from the scan (`found = std::none_of(...)`)
                        if any(has_scan(v, depth + 1) for v in lvals.get(x.get('did'), [])):
                            return True
                return False
            cur = [None]
            for a in adds:
                partial = []
                cur[0] = a
                ok = any(has_scan(cond) for cond, truth in P.guards(a))
                if not ok:
                    # add-then-check: a later scan over the vector and a pop_back guarded by its result
                    later_scan = [x for x in A.calls(body) if A.cshort(x) in SCAN and order[id(x)] > order[id(a)]]
                    pops = [x for x in A.calls(body) if member_of(x, linit) == ('this', '_vec') and A.cshort(x) == 'pop_back' and order[id(x)] > order[id(a)]]
                    ok = bool(later_scan) and bool(pops) and all(any(has_scan(cond) for cond, truth in P.guards(p)) for p in pops)
                rr.instance('%s|%s' % (f['key'], rel(prog.site(f, a))), {'function': f['pname'][:140], 'add': A.cshort(a), 'membership_tested': ok})
                if not ok:
                    rr.add(Finding('SS-DUP', '%s|%s' % (f['key'], A.cshort(a)), prog.site(f, a),
                                   ('an element is added to the inline vector after a membership test that starts at _vec.begin() but does not run to _vec.end(): '
                                    'an equivalent element outside the tested part is missed and duplicates can enter the set') if partial else
                                   'an element is added to the inline vector on a path with no membership test over the vector: duplicates can enter the set',
                                   where=f['pname'], unit=prog.uname))
    return rr


# ------------------------------------------------------------------------------ ITER-ALT / ALT-SIB
def iter_alt(progs):
    rr = RuleResult('ITER-ALT', 'an iterator returned by SmallSet is built from the container that is active at the return: the result of a call that '
                                'can remove the last element of the large-state set is only used after re-testing which container is active')
    for prog in progs:
        for f in prog.amc_functions():
            if not in_class(f, SS) or f.get('body') is None:
                continue
            body = f['body']
            linit = A.local_inits(body)
            removes = [c for c in A.calls(body) if member_of(c, linit) == ('this', '_set') and A.cshort(c) in ('erase', 'extract')]
            rets_iter = 'Iterator' in f.get('ret', '') or f.get('ret', '').rstrip().endswith('*')
            if not removes or not rets_iter:
                continue
            P = A.Parents(body)
            order = A.eval_order(body, f.get('inits'))
            for rm in removes:
                if A.strip(rm).get('t', '') in ('unsigned long', 'unsigned int', 'void'):
                    continue     # erase(key) returns a count
                # where does the result go?  (a) directly inside a return expression, (b) into a local that is returned
                in_ret = None
                for a, slot in P.ancestors(rm):
                    if a.get('k') == 'ret':
                        in_ret = a
                        break
                uses = []
                if in_ret is not None:
                    uses.append(rm)
                else:
                    # local initialised from it
                    for did, (ini, ty) in linit.items():
                        if ini is not None and any(x is rm for x in walk(ini)):
                            for n in walk(body):
                                if n.get('k') == 'ref' and n.get('did') == did and any(a.get('k') == 'ret' for a, _ in P.ancestors(n)):
                                    uses.append(n)
                def is_retest(cond, li):
                    return any((x.get('k') == 'call' and (A.callee(x) == SS + '::isSmall' or (A.cshort(x) == 'empty' and member_of(x, li) == ('this', '_set'))))
                               for x in walk(cond))

                def helper_retests(u):
                    """u is handed to a SmallSet member whose body only uses that parameter under a re-test of the state (the fix-up was
                    extracted into a private helper)."""
                    for a, slot in P.ancestors(u):
                        if a.get('k') == 'call' and a.get('amc') and A.callee(a).startswith(SS + '::') and a.get('fn') in prog.fns:
                            g = prog.fns[a['fn']]
                            if g.get('body') is None:
                                return False
                            idx = next((i for i, x in enumerate(a.get('args', [])) if any(y is u for y in walk(x))), None)
                            if idx is None:
                                return False
                            Pg = A.Parents(g['body'])
                            lg = A.local_inits(g['body'])
                            refs = [n for n in walk(g['body']) if n.get('k') == 'ref' and n.get('dk') == 'param' and n.get('idx') == idx]
                            return bool(refs) and all(any(is_retest(c, lg) for c, t in Pg.guards(r)) for r in refs)
                        if a.get('k') in ('ret', 'decl', 'block'):
                            break
                    return False
                for u in uses:
                    ok = helper_retests(u)
                    for cond, truth in P.guards(u):
                        retest = any((x.get('k') == 'call' and (A.callee(x) == SS + '::isSmall' or (A.cshort(x) == 'empty' and member_of(x, linit) == ('this', '_set'))))
                                     for x in walk(cond))
                        first_c = A.first_eval(cond, order)
                        if retest and first_c > order[id(rm)]:
                            ok = True
                    rr.instance('%s|%s' % (f['key'], rel(prog.site(f, u))), {'function': f['pname'][:150], 'removal': '_set.' + A.cshort(rm), 'active_container_retested': ok})
                    if not ok:
                        rr.add(Finding('ITER-ALT', '%s' % f['key'], prog.site(f, u),
                                       'the iterator returned by _set.%s is handed to the caller without re-testing the state: when the last element is removed '
                                       'the set is inline again and end() is an iterator of the other alternative (erase-while-iterating never reaches end())' % A.cshort(rm),
                                       where=f['pname'], unit=prog.uname))
    return rr


def alt_sib(progs):
    rr = RuleResult('ALT-SIB', 'begin/end/rbegin/rend/size/find and friends select their alternative with the same predicate: under isSmall() only the '
                               'inline vector is consulted, otherwise only the set')
    for prog in progs:
        for f in prog.amc_functions():
            if not in_class(f, SS) or f.get('body') is None or not f.get('const') or f.get('lambda'):
                continue
            body = f['body']
            linit = A.local_inits(body)
            for n in walk(body):
                if n.get('k') not in ('cond', 'if'):
                    continue
                cn, neg = unwrap_cond(n.get('c'))
                if not (isinstance(cn, dict) and cn.get('k') == 'call' and A.callee(cn) == SS + '::isSmall'):
                    continue
                kind, r = A.root(cn.get('obj'), linit) if cn.get('obj') is not None else ('this', {})
                if kind != 'this':
                    continue
                a, b = (n.get('a'), n.get('b')) if n['k'] == 'cond' else (n.get('then'), n.get('else'))
                if neg:
                    a, b = b, a

                def members(x):
                    out = set()
                    for y in walk(x or {}):
                        if y.get('k') == 'mem' and y.get('field') and y.get('name') in ('_vec', '_set') and y.get('clsq') == SS and A.root(y.get('base'), linit)[0] == 'this':
                            out.add(y['name'])
                        if y.get('k') == 'call' and A.cshort(y) in ('find_small', 'mfind_small', 'insert_small'):
                            out.add('_vec')
                    return out
                ma, mb = members(a), members(b)
                ok = '_set' not in ma and '_vec' not in mb
                rr.instance('%s|%s' % (f['key'], rel(prog.site(f, n))), {'function': f['pname'][:140], 'inline_branch_uses': sorted(ma), 'large_branch_uses': sorted(mb), 'ok': ok})
                if not ok:
                    rr.add(Finding('ALT-SIB', '%s' % f['key'], prog.site(f, n),
                                   'the branch selected for the inline state consults %s and the one for the large state %s: the alternatives are crossed'
                                   % (sorted(ma), sorted(mb)), where=f['pname'], unit=prog.uname))
            # a public const member that consults only one of the two containers outside any test of the state gives the answer of a
            # container that is empty (or stale) in the other state; consulting both (empty(), max_size()) is symmetric and fine
            if f.get('access') == 'public' and short(f['name']) not in ('isSmall', 'key_comp', 'value_comp', 'get_allocator'):
                Pu = None
                ung = []
                for c in A.calls(body):
                    m = member_of(c, linit)
                    if not m or m[0] != 'this':
                        continue
                    Pu = Pu or A.Parents(body)
                    tested = any(any(x.get('k') == 'call' and A.callee(x) == SS + '::isSmall' for x in walk(cond)) for cond, truth in Pu.guards(c))
                    rr.instance('%s|%s|%s' % (f['key'], m[1], rel(prog.site(f, c))), {'function': f['pname'][:140], 'consults': m[1] + '.' + A.cshort(c), 'under_state_test': tested})
                    if not tested:
                        ung.append((m[1], c))
                if ung and len({w for w, _ in ung}) == 1:
                    w, c = ung[0]
                    rr.add(Finding('ALT-SIB', '%s|unguarded|%s' % (f['key'], w), prog.site(f, c),
                                   'only %s is consulted (%s), outside any test of the state: in the other state that container is empty (or stale) and the '
                                   'answer is wrong' % (w, A.cshort(c)), where=f['pname'], unit=prog.uname))
    return rr


# ------------------------------------------------------------------------------ MERGE-ORDER / LEX-SIB / SS-GROW
def merge_order(progs):
    rr = RuleResult('MERGE-ORDER', 'merge offers the elements of the source to the destination in the source\'s iteration order (the first of several '
                                   'elements that are equivalent for the destination wins, as std::set::merge): the cursor that is moved from starts at the '
                                   'source\'s begin and is never decremented')
    for prog in progs:
        for f in prog.amc_functions():
            if not (in_class(f, FS) or in_class(f, SS)) or short(f['name']) != 'merge' or f.get('body') is None:
                continue
            body = f['body']
            linit = A.local_inits(body)
            # cursors: locals X with *X moved out of the source:  std::move(*X) handed to insert / push_back
            cursors = {}
            for c in A.calls(body):
                if A.callee(c) == 'std::move' and len(c.get('args', [])) == 1:
                    a = A.strip(c['args'][0])
                    if isinstance(a, dict) and ((a.get('k') == 'un' and a.get('op') == '*') or (a.get('k') == 'call' and a.get('op') == '*')):
                        x = A.strip(a.get('sub') if a.get('k') == 'un' else a.get('obj'))
                        if isinstance(x, dict) and x.get('k') == 'ref' and x.get('dk') == 'local':
                            cursors[x['did']] = x.get('name')
            for did, name in cursors.items():
                ini = linit.get(did, (None, ''))[0]
                starts_at_begin = ini is not None and any(A.cshort(c) in ('mbegin', 'begin', 'cbegin') for c in A.calls({'i': ini}))
                starts_at_end = ini is not None and any(A.cshort(c) in ('mend', 'end', 'cend', 'rbegin') for c in A.calls({'i': ini}))
                dec = None
                for st, lhs in A.stores(body):
                    l = A.strip(lhs)
                    if isinstance(l, dict) and l.get('k') == 'ref' and l.get('did') == did:
                        if (st.get('k') == 'un' and st.get('op') == '--') or (st.get('k') == 'bin' and st.get('op') == '-=') or (st.get('k') == 'call' and st.get('op') in ('--', '-=')):
                            dec = st
                        if st.get('k') == 'bin' and st.get('op') == '=' and any(A.cshort(c) in ('prev',) for c in A.calls({'r': st.get('rhs')})):
                            dec = st
                ok = starts_at_begin and not starts_at_end and dec is None
                rr.instance('%s|%s' % (f['key'], name), {'function': f['pname'][:150], 'cursor': name, 'starts_at_begin': bool(starts_at_begin), 'decremented': dec is not None})
                if not ok:
                    rr.add(Finding('MERGE-ORDER', '%s|%s' % (f['key'], name), prog.site(f, dec) if dec is not None else f['loc'],
                                   'the source of merge is not traversed from its beginning forwards: among source elements that are equivalent for the destination '
                                   'comparator another one than the first is transferred (std::set::merge transfers the first)', where=f['pname'], unit=prog.uname))
    return rr


def lex_sib(progs):
    rr = RuleResult('LEX-SIB', 'every state combination of SmallSet::operator< / <=> returns a lexicographical comparison of (this, other) in that order '
                               '(or the comparison of the two large sets): the four siblings agree')
    LEX = {'std::lexicographical_compare', 'std::lexicographical_compare_three_way'}
    for prog in progs:
        for f in prog.amc_functions():
            if f['name'] not in (SS + '::operator<', SS + '::operator<=>') or f.get('body') is None:
                continue
            body = f['body']
            linit = A.local_inits(body)

            def side(n):
                """'this' / 'other' / None: which set does the range argument come from."""
                for x in walk(n):
                    if x.get('k') == 'mem' and x.get('field') and x.get('name') in ('_vec', '_set') and x.get('clsq') == SS:
                        kind, r = A.root(x.get('base'), linit)
                        return 'this' if kind == 'this' else 'other'
                    if x.get('k') == 'ref' and x.get('dk') == 'local' and linit.get(x.get('did')) and linit[x['did']][0] is not None:
                        s2 = side(linit[x['did']][0])
                        if s2:
                            return s2
                return None
            for i, rt in enumerate(n for n in walk(body) if n.get('k') == 'ret' and n.get('e') is not None):
                e = A.strip(rt['e'])
                ok = False
                why = 'is not a lexicographical comparison'
                # look through an implicit conversion / construct of the result
                cands = [x for x in walk(e) if x.get('k') == 'call' and (A.callee(x) in LEX or x.get('op') in ('<', '<=>'))]
                top = cands[0] if cands else None
                if isinstance(e, dict) and e.get('k') == 'un' and e.get('op') == '!':
                    top = None
                    why = 'is the negation of another comparison'
                if top is not None and A.callee(top) in LEX and len(top.get('args', [])) >= 4:
                    a, b = side(top['args'][0]), side(top['args'][2])
                    ok = a == 'this' and b == 'other'
                    why = 'compares (%s, %s) instead of (this, other)' % (a, b)
                elif top is not None and top.get('op') in ('<', '<=>'):
                    a = side(top.get('obj') if top.get('method') else top['args'][0])
                    b = side(top['args'][-1])
                    ok = a == 'this' and b == 'other'
                    why = 'compares (%s, %s) instead of (this, other)' % (a, b)
                rr.instance('%s|%d' % (f['key'], i), {'function': f['pname'][:150], 'return': rel(prog.site(f, rt)), 'lexicographical_this_vs_other': ok})
                if not ok:
                    rr.add(Finding('LEX-SIB', '%s|%d' % (f['key'], i), prog.site(f, rt),
                                   'this state combination of the ordering comparison %s; its siblings return lexicographical_compare(this, other)' % why,
                                   where=f['pname'], unit=prog.uname))
    return rr


def ss_grow(progs):
    rr = RuleResult('SS-GROW', 'SmallSet leaves its inline state (the only step that allocates) only when the inline vector is full and a new element has '
                               'to be added, or when it merges a set that is itself large')
    for prog in progs:
        for f in prog.amc_functions():
            if not in_class(f, SS) or f.get('body') is None:
                continue
            body = f['body']
            gs = [c for c in A.calls(body) if A.callee(c) == SS + '::grow']
            if not gs:
                continue
            P = A.Parents(body)
            for g in gs:
                ok = False
                for cond, truth in P.guards(g):
                    cn, neg = unwrap_cond(cond)
                    t = truth != neg
                    for x in walk(cond):
                        if x.get('k') == 'call' and A.callee(x) == SS + '::isSmallContFull' and (x.get('obj') is None or A.root(x['obj'])[0] == 'this'):
                            if isinstance(cn, dict) and cn is A.strip(x) and t:
                                ok = True
                        if x.get('k') == 'call' and A.callee(x) == SS + '::isSmall' and x.get('obj') is not None and A.root(x['obj'])[0] == 'param':
                            # the other operand is large:  if (!o.isSmall()) { if (isSmall()) grow(); ... }
                            from .encoding import _negated_in
                            if (truth and _negated_in(cond, x)) or (not truth and not _negated_in(cond, x)):
                                ok = True
                rr.instance('%s|%s' % (f['key'], rel(prog.site(f, g))), {'function': f['pname'][:150], 'grow_only_when_full_or_other_large': ok})
                if not ok:
                    rr.add(Finding('SS-GROW', '%s' % f['key'], prog.site(f, g),
                                   'grow() (the inline -> large transition, which allocates) is not conditioned on the inline vector being full: a set that '
                                   'never needs more than N elements can allocate', where=f['pname'], unit=prog.uname))
    return rr


# ------------------------------------------------------------------------------ ITER-STATE
def iter_state(progs):
    rr = RuleResult('ITER-STATE', 'an iterator returned by a SmallSet modifier is built from the container that holds the elements at the return: not '
                                  'from the inline vector once the set has grown, not from the large set while it is known to be inline')
    for prog in progs:
        for f in prog.amc_functions():
            if not in_class(f, SS) or f.get('body') is None or f.get('kind') in ('ctor', 'dtor') or f.get('const') or f.get('lambda'):
                continue
            ret = f.get('ret', '')
            if not ('Iterator' in ret or ret.rstrip().endswith('*') or 'pair<' in ret):
                continue
            body = f['body']
            linit = A.local_inits(body)

            def source(n, depth=0, st=frozenset()):
                """'_vec' / '_set' / None: which container the iterator value comes from (in state st)."""
                out = set()
                n0 = A.strip(n)
                # a ternary on isSmall(): only the branch selected in this state contributes
                while isinstance(n0, dict) and n0.get('k') == 'construct' and len(n0.get('args', [])) == 1:
                    n0 = A.strip(n0['args'][0])
                if isinstance(n0, dict) and n0.get('k') == 'cond':
                    cn, neg = unwrap_cond(n0.get('c'))
                    if isinstance(cn, dict) and cn.get('k') == 'call' and A.callee(cn) == SS + '::isSmall':
                        small = ('S', 'this') in st
                        large = ('L', 'this') in st
                        if small != large:
                            take_a = small != neg
                            return source(n0.get('a') if take_a else n0.get('b'), depth, st)
                for x in walk(n):
                    if x.get('k') == 'mem' and x.get('field') and x.get('name') in ('_vec', '_set') and x.get('clsq') == SS and A.root(x.get('base'), linit)[0] == 'this':
                        out.add(x['name'])
                    if x.get('k') == 'call' and A.cshort(x) in ('mfind_small', 'find_small'):
                        out.add('_vec')
                    if x.get('k') == 'call' and A.cshort(x) in ('insert_set',):
                        out.add('_set')
                    if x.get('k') == 'call' and A.cshort(x) in ('insert_small', 'insert', 'emplace') and x.get('amc') and A.callee(x).startswith(SS + '::'):
                        out.add('(member)')      # forwards to a member that is checked itself
                    if depth < 3 and x.get('k') == 'ref' and x.get('dk') == 'local' and linit.get(x.get('did')) and linit[x['did']][0] is not None:
                        out |= source(linit[x['did']][0], depth + 1, st)
                    # locals re-assigned later (elIt = it)
                return out
            sites = {}

            class Cl(SSClient):
                def is_event(self, n):
                    return n.get('k') in ('call', 'bin')
            cl = Cl(f, linit, lambda *a: None)
            for did, (ini, ty) in linit.items():
                if ty == 'bool' and ini is not None and A.strip(ini).get('k') == 'call' and A.callee(A.strip(ini)) == SS + '::isSmall':
                    cl.bool_locals[did] = True
            init = frozenset()
            sn = short(f['name'])
            if sn in ('insert_small',):
                init = frozenset({('S', 'this')})
            if sn == 'insert_set':
                init = frozenset({('L', 'this')})
            eng = Engine(cl)
            o = eng.run(body, init, f.get('inits'))
            for st, nid in o.returns:
                rn = eng.nodes.get(nid)
                if rn is None or rn.get('e') is None:
                    continue
                src = source(rn['e'], 0, st)
                # forwarding to another SmallSet member: that member is checked itself
                if not src or '(member)' in src:
                    continue
                bad = None
                if '_vec' in src and '_set' not in src and ('L', 'this') in st:
                    bad = 'built from the inline vector although the set is in its large state at this return'
                if '_set' in src and '_vec' not in src and ('S', 'this') in st:
                    bad = 'built from the large-state set although the set is inline at this return'
                v = sites.setdefault(nid, [rn, None, src])
                v[1] = v[1] or bad
            for rn, bad, src in sites.values():
                rr.instance('%s|%s' % (f['key'], rel(prog.site(f, rn))), {'function': f['pname'][:150], 'returned_iterator_from': sorted(src), 'ok': bad is None})
                if bad:
                    rr.add(Finding('ITER-STATE', '%s' % f['key'], prog.site(f, rn), 'the iterator returned here is ' + bad + ': it does not compare against end() '
                                   'of the active container and designates an element that is gone', where=f['pname'], unit=prog.uname))
    return rr


# ------------------------------------------------------------------------------ CMP-INIT / SWAP-BOTH
def cmp_init(progs):
    rr = RuleResult('CMP-INIT', 'a set constructed with a comparator argument, or from another set, stores that comparator (the Compare base of FlatSet / '
                                'the backing set of SmallSet is initialised from it), and swap exchanges the comparators together with the elements')
    for prog in progs:
        cmps = compare_types(prog)
        for f in prog.amc_functions():
            if f.get('kind') == 'ctor' and f.get('clsq') in (FS, SS) and f.get('body') is not None:
                ps = f.get('params', [])
                cmp_params = [i for i, p in enumerate(ps) if norm(p['t']) in cmps]
                set_params = [i for i, p in enumerate(ps) if norm(p['t']) == norm(f.get('cls', '')) and i == 0]
                if not cmp_params and not set_params:
                    continue
                want = cmp_params or set_params
                inits = f.get('inits') or []
                ok = False
                deleg = False
                for i in inits:
                    uses = {x.get('idx') for x in walk(i.get('init') or {}) if x.get('k') == 'ref' and x.get('dk') == 'param'}
                    if i.get('delegating'):
                        deleg = True
                        ok = ok or bool(uses & set(want))
                    target_is_cmp = (i.get('base') and norm(i['base']) in cmps) or i.get('member') == '_set'
                    if target_is_cmp and (uses & set(want)):
                        ok = True
                if in_class(f, SS) and set_params and not cmp_params:
                    # copy / move with allocator: `_set(o._set, alloc)` carries the comparator
                    ok = any(i.get('member') == '_set' and any(x.get('k') == 'ref' and x.get('dk') == 'param' and x.get('idx') == 0 for x in walk(i.get('init') or {})) for i in inits)
                rr.instance('%s' % f['key'], {'constructor': f['pname'][:150], 'comparator_source_params': want, 'stored': ok})
                if not ok:
                    rr.add(Finding('CMP-INIT', '%s' % f['key'], f['loc'],
                                   'this constructor receives a comparator (or another set) but the stored comparator is not initialised from it: the set orders with a '
                                   'default-constructed comparator', where=f['pname'], unit=prog.uname))
            if short(f['name']) == 'swap' and f.get('clsq') in (FS, SS) and f.get('body') is not None and f.get('params'):
                body = f['body']
                if in_class(f, FS):
                    sw_cmp = any(A.cshort(c) == 'swap' and any(norm(a.get('t', '')) in cmps or norm(A.strip(a).get('t', '')) in cmps for a in c.get('args', []) if isinstance(a, dict))
                                 for c in A.calls(body))
                    sw_vec = any(A.cshort(c) == 'swap' and ((c.get('obj') is not None and A.strip(c['obj']).get('name') == '_sortedVector') or
                                                           any(A.strip(a).get('name') == '_sortedVector' for a in c.get('args', []) if isinstance(a, dict))) for c in A.calls(body))
                    ok = sw_cmp and sw_vec
                    what = 'comparator=%s vector=%s' % (sw_cmp, sw_vec)
                else:
                    names = set()
                    for c in A.calls(body):
                        if A.cshort(c) == 'swap':
                            for x in walk(c):
                                if x.get('k') == 'mem' and x.get('name') in ('_vec', '_set'):
                                    names.add(x['name'])
                    ok = names >= {'_vec', '_set'}
                    what = 'swapped members %s' % sorted(names)
                rr.instance('%s' % f['key'], {'function': f['pname'][:150], 'exchanges': what, 'ok': ok})
                if not ok:
                    rr.add(Finding('CMP-INIT', '%s|swap' % f['key'], f['loc'],
                                   'swap does not exchange every part of the set (%s): with stateful comparators the elements end up under a comparator they were not '
                                   'sorted with' % what, where=f['pname'], unit=prog.uname))
    return rr


# ------------------------------------------------------------------------------ NODE-MOVE
def node_move(progs):
    rr = RuleResult('NODE-MOVE', 'the value of a node handed to insert(node) is moved from only where the insertion happens: along the call chain it is '
                                 'forwarded as an rvalue reference, never used to build a temporary before the lookup')
    for prog in progs:
        for f in prog.amc_functions():
            if not (in_class(f, FS) or in_class(f, SS)) or short(f['name']) != 'insert' or f.get('body') is None:
                continue
            if not any('node_type' in p['t'] and p['t'].rstrip().endswith('&&') for p in f.get('params', [])):
                continue
            # the call that receives std::move(*node._optV)
            starts = []
            for c in A.calls(f['body']):
                if not (c.get('amc') and c.get('fn')):
                    continue
                for i, a in enumerate(c.get('args', []) or []):
                    if isinstance(a, dict) and any(x.get('k') == 'mem' and x.get('name') == '_optV' for x in walk(a)) and A.callee(A.strip(a)) in ('std::move', 'std::forward'):
                        starts.append((c, i))
            seen = set()
            verdicts = []

            def follow(fid, pidx, depth=0):
                if (fid, pidx) in seen or depth > 6:
                    return
                seen.add((fid, pidx))
                g = prog.fns.get(fid)
                if g is None or g.get('body') is None or not g.get('amc'):
                    return
                P = A.Parents(g['body'])
                for n in walk(g['body']):
                    if not (n.get('k') == 'ref' and n.get('dk') == 'param' and n.get('idx') == pidx):
                        continue
                    # climb through std::forward / std::move to the consumer
                    cur = n
                    par, slot = P.parent(cur)
                    while par is not None and par.get('k') == 'call' and A.callee(par) in ('std::forward', 'std::move'):
                        cur = par
                        par, slot = P.parent(cur)
                    if par is None:
                        continue
                    if cur is n and not (par.get('k') in ('call', 'construct')):
                        continue          # read as an lvalue (comparisons): does not move
                    if par.get('k') == 'construct' and cur is not n:
                        # T(std::forward<Args>(args)...) : a temporary is built from the node's value, unconditionally
                        guarded = bool(P.guards(par))
                        verdicts.append((g, par, guarded, 'a temporary %s is constructed from it' % par.get('t', '')[:60]))
                    elif par.get('k') == 'call' and cur is not n:
                        if par.get('amc') and par.get('fn') and (A.callee(par).startswith(FS + '::') or A.callee(par).startswith(SS + '::')):
                            idx = [i for i, a in enumerate(par.get('args', [])) if a is cur]
                            if idx:
                                follow(par['fn'], idx[0], depth + 1)
                        else:
                            # handed to the underlying container (vector insert / push_back, std::set::insert)
                            nm = A.cshort(par)
                            if nm in ('insert', 'push_back', 'emplace_back', 'emplace') and 'std::set' not in (A.strip(par.get('obj') or {}).get('t', '')) \
                                    and '_Rb_tree' not in A.callee(par):
                                guarded = bool(P.guards(par))
                                verdicts.append((g, par, guarded, 'it is moved into the underlying container by %s' % nm))
            for c, i in starts:
                follow(c['fn'], i)
            for g, node, guarded, what in verdicts:
                rr.instance('%s|%s|%s' % (f['key'], g['key'], rel(prog.site(g, node))), {'insert_node': f['pname'][:120], 'in': g['pname'][:120], 'consumption': what, 'conditional_on_lookup': guarded})
                if not guarded:
                    rr.add(Finding('NODE-MOVE', '%s|%s' % (f['key'], g['key']), prog.site(g, node),
                                   'the value of the node is consumed unconditionally (%s) before it is known whether an equivalent element exists: a refused node '
                                   'is left holding a moved-from value' % what, where=g['pname'], unit=prog.uname))
            if starts:
                rr.instance('%s|chain' % f['key'], {'insert_node': f['pname'][:140], 'functions_followed': len(seen)})
    return rr


# ------------------------------------------------------------------------------ SS-PAIR
class PairClient(Client):
    """State: which of this set's two containers have been replaced / emptied as a whole on this path."""

    def __init__(self, linit):
        self.linit = linit

    def is_event(self, n):
        return n.get('k') == 'call'

    def event(self, n, s):
        m = member_of(n, self.linit)
        if m and m[0] == 'this' and (n.get('op') == '=' or A.cshort(n) in ('swap', 'clear', 'operator=')):
            # whole-container assignment, exchange with the counterpart, or emptying
            return [('n', s | {m[1]})]
        if A.callee(n) in ('std::swap', 'amc::swap') and len(n.get('args', [])) == 2:
            a = A.strip(n['args'][0])
            if a.get('k') == 'mem' and a.get('name') in ('_vec', '_set') and A.root(a.get('base'), self.linit)[0] == 'this':
                return [('n', s | {a['name']})]
        return [('n', s)]


def ss_pair(progs):
    rr = RuleResult('SS-PAIR', 'a SmallSet member that replaces one of its two containers as a whole (assignment, swap) also replaces or empties the other '
                               'one on the same path: no element of the previous state survives hidden in the unused container')
    for prog in progs:
        for f in prog.amc_functions():
            if not in_class(f, SS) or f.get('body') is None or f.get('kind') in ('ctor', 'dtor'):
                continue
            body = f['body']
            linit = A.local_inits(body)
            whole = [c for c in A.calls(body) if (member_of(c, linit) or (None,))[0] == 'this' and (c.get('op') == '=' or A.cshort(c) in ('swap', 'operator='))]
            if not whole:
                continue
            o = Engine(PairClient(linit)).run(body, frozenset(), f.get('inits'))
            exits = list(o.normal) + [st for st, _ in o.returns]
            bad = [st for st in exits if len(st & {'_vec', '_set'}) == 1]
            rr.instance('%s|%s' % (f['key'], prog.uname), {'function': f['pname'][:150], 'whole_container_writes': len(whole), 'exit_states': len(exits),
                                                           'verdict': 'both containers handled on every path' if not bad else 'FAILS'})
            if bad:
                only = sorted(bad[0] & {'_vec', '_set'})[0]
                other = '_set' if only == '_vec' else '_vec'
                rr.add(Finding('SS-PAIR', '%s|%s' % (f['key'], other), prog.site(f, whole[0]),
                               'on some path %s is replaced as a whole while %s is neither replaced nor emptied: elements of the previous state stay hidden in '
                               '%s and come back when the set changes state' % (only, other, other), where=f['pname'], unit=prog.uname))
    return rr


# ------------------------------------------------------------------------------ NODE-POS
class NodePosClient(Client):
    def __init__(self, cls):
        self.cls = cls

    def is_event(self, n):
        return n.get('k') == 'call' or (n.get('k') == 'bin' and n.get('op') == '=')

    @staticmethod
    def _is_position(x):
        x = A.strip(x)
        return isinstance(x, dict) and x.get('k') == 'mem' and x.get('name') == 'position'

    def event(self, n, s):
        if n.get('k') == 'bin':
            return [('n', s | {'pos'} if self._is_position(n.get('lhs')) else s)]
        if n.get('op') == '=' and n.get('obj') is not None:
            o = A.strip(n['obj'])
            if self._is_position(o) or (o.get('k') == 'call' and A.callee(o) == 'std::tie' and any(self._is_position(a) for a in o.get('args', []))):
                return [('n', s | {'pos'})]
        if n.get('amc') and A.callee(n).startswith(self.cls + '::') and A.cshort(n) in ('insert', 'insert_val', 'emplace', 'emplace_hint', 'insert_hint'):
            return [('n', (s - {'pos'}) | {'ins'})]
        return [('n', s)]


def node_pos(progs):
    rr = RuleResult('NODE-POS', 'insert(node) reports the position returned by the insertion it performed on every path on which it performed one - also '
                                'when the insertion was refused (the position then designates the element that prevented it)')
    for prog in progs:
        for f in prog.amc_functions():
            cls = FS if in_class(f, FS) else SS if in_class(f, SS) else None
            if cls is None or f.get('body') is None or short(f['name']) != 'insert' or 'nsert' not in (f.get('ret') or '') or \
                    not ('eturn' in (f.get('ret') or '') or 'IRT' in (f.get('ret') or '')):
                continue
            o = Engine(NodePosClient(cls)).run(f['body'], frozenset(), f.get('inits'))
            exits = list(o.normal) + [st for st, _ in o.returns]
            bad = [st for st in exits if 'ins' in st and 'pos' not in st]
            rr.instance('%s|%s' % (f['key'], prog.uname), {'function': f['pname'][:150], 'exit_states': len(exits), 'verdict': 'position always reported' if not bad else 'FAILS'})
            if bad:
                rr.add(Finding('NODE-POS', '%s' % f['key'], f['loc'],
                               'on some path insert(node) performs the insertion but does not store the returned position into the result: a refused node '
                               'reports end() although an equivalent element exists', where=f['pname'], unit=prog.uname))
    return rr


# ------------------------------------------------------------------------------ TRANSPARENT-SIB (not wired: see DESIGN 10.9 - two
# overloads may legitimately be implemented differently, so body equality fires on behaviour-preserving edits)
_SHAPE_KEEP = ('k', 'op', 'name', 'v', 'method', 'arrow', 'field', 'dk', 'idx', 'null', 'all')
_SHAPE_CHILD = ('s', 'args', 'obj', 'sub', 'lhs', 'rhs', 'base', 'c', 'a', 'b', 'then', 'else', 'e', 'init', 'vars', 'body', 'inc', 'handlers', 'cond', 'var', 'placement')


def shape_canon(n, locals_=None):
    """Structure of a body without types, locations and identities: what two overloads that differ only in a parameter type share."""
    locals_ = {} if locals_ is None else locals_
    if isinstance(n, list):
        return [shape_canon(x, locals_) for x in n]
    if not isinstance(n, dict):
        return n
    s = A.strip(n) if n.get('k') == 'cast' else n
    if s is not n and isinstance(s, dict):
        return shape_canon(s, locals_)
    out = {}
    for k_ in _SHAPE_KEEP:
        if k_ in n:
            out[k_] = n[k_]
    if n.get('k') == 'ref' and n.get('dk') == 'local':
        out['local'] = locals_.setdefault(n.get('did'), len(locals_))
        out.pop('name', None)
    if n.get('k') == 'ref' and n.get('dk') == 'param':
        out.pop('name', None)
    if 'did' in n and n.get('k') != 'ref':
        out['local'] = locals_.setdefault(n.get('did'), len(locals_))
    if n.get('k') == 'construct' and len(n.get('args', [])) == 1 and not n.get('amc'):
        pass
    for k_ in _SHAPE_CHILD:
        if k_ in n and isinstance(n[k_], (dict, list)):
            out[k_] = shape_canon(n[k_], locals_)
    return out


def transparent_sib(progs):
    import json as _json
    rr = RuleResult('TRANSPARENT-SIB', 'every heterogeneous-key overload (const K&) of a lookup has the same body as the overload taking the element type: a '
                                       'transparent lookup performs exactly the search its sibling performs')
    for prog in progs:
        groups = {}
        for f in prog.amc_functions():
            cls = FS if in_class(f, FS) else SS if in_class(f, SS) else None
            if cls is None or f.get('body') is None or f.get('kind') != 'method' or len(f.get('params', [])) != 1:
                continue
            groups.setdefault((f.get('cls'), short(f['name']), bool(f.get('const'))), []).append(f)
        for (cls_, name, _c), fs in groups.items():
            rec = prog.record(cls_ or '')
            elem = ((rec or {}).get('targs') or [None])[0]
            plain = [f for f in fs if not f.get('targs') and elem and norm(f['params'][0]['t']) == elem]
            hetero = [f for f in fs if f.get('targs') and elem and norm(f['params'][0]['t']) != elem]
            if not plain or not hetero:
                continue
            ref = _json.dumps(shape_canon(plain[0]['body']), sort_keys=True)
            for h in hetero:
                same = _json.dumps(shape_canon(h['body']), sort_keys=True) == ref
                rr.instance('%s|%s|%s' % (h['key'], h['params'][0]['t'][:40], prog.uname), {'function': h['pname'][:140], 'sibling': plain[0]['pname'][:140], 'same_shape': same})
                if not same:
                    rr.add(Finding('TRANSPARENT-SIB', '%s' % h['key'], h['loc'],
                                   'the heterogeneous-key overload of %s does not have the body of the overload taking the element type: the two lookups no longer '
                                   'perform the same search (different result for equivalent keys, or a different number of comparisons)' % name,
                                   where=h['pname'], unit=prog.uname))
    return rr


# ------------------------------------------------------------------------------ ARROW-STAR
def arrow_star(progs):
    """it->m must be (*it).m: operator-> of every amc iterator class returns the address of what its operator* returns."""
    rr = RuleResult('ARROW-STAR', 'operator-> of each amc iterator class designates the object operator* designates: it takes the address of operator*(), '
                                  'or of the very expression operator* returns')
    for prog in progs:
        by_cls = {}
        for f in prog.amc_functions():
            if f.get('kind') == 'method' and f.get('body') is not None and f.get('op') in ('*', '->') and not f.get('params'):
                by_cls.setdefault(f.get('cls'), {})[f['op']] = f
        for cls_, d in by_cls.items():
            if '*' not in d or '->' not in d:
                continue
            star, arrow = d['*'], d['->']

            def ret_expr(g):
                rs = [n for n in walk(g['body']) if n.get('k') == 'ret' and n.get('e') is not None]
                return rs[0]['e'] if len(rs) == 1 else None
            ea, es = ret_expr(arrow), ret_expr(star)
            ok = False
            if ea is not None:
                if any(c.get('k') == 'call' and c.get('fn') == star['id'] for c in walk(ea)):
                    ok = True       # &**this / addressof(operator*())
                else:
                    x = A.strip(ea)
                    if x.get('k') == 'un' and x.get('op') == '&':
                        x = x.get('sub')
                    elif x.get('k') == 'call' and A.cshort(x) in ('addressof', '__addressof') and x.get('args'):
                        x = x['args'][0]
                    ok = es is not None and A.struct_eq(A.strip(x), A.strip(es))
            rr.instance('%s|%s' % (arrow['key'], (cls_ or '')[:90]), {'class': (cls_ or '')[:140], 'arrow_is_address_of_star': ok})
            if not ok:
                rr.add(Finding('ARROW-STAR', '%s' % arrow['key'], arrow['loc'],
                               'operator-> does not return the address of what operator* returns: it->m and (*it).m designate different elements',
                               where=arrow['pname'], unit=prog.uname))
    return rr
