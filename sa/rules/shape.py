"""Rules decided on the shape of the instantiated bodies (guards, argument discipline, counting)."""
from fractions import Fraction

from ..lib.core import RuleResult, Finding, short, walk, rel, AnalysisBroken
from ..lib import ast as A
from . import callgraph as CG

VEC_NS = 'amc::vec::'
GROW_NAMES = {'amc::vec::SmallVectorBase::grow', 'amc::vec::StdVectorBase::grow'}
SEARCH_ALGOS = {'std::lower_bound', 'std::upper_bound', 'std::equal_range', 'std::binary_search'}


def unwrap_cond(n):
    """Look through casts, AMC_LIKELY/UNLIKELY (__builtin_expect(!!(x), k)) and double negation.
    Returns (node, negated)."""
    neg = False
    while isinstance(n, dict):
        n = A.strip(n)
        if n.get('k') == 'call' and A.callee(n) == '__builtin_expect' and n.get('args'):
            n = n['args'][0]
            continue
        if n.get('k') == 'un' and n.get('op') == '!':
            neg = not neg
            n = n['sub']
            continue
        break
    return n, neg


def has_call(n, *names):
    return any(A.cshort(c) in names for c in A.calls(n))


def is_grow_call(c):
    return c.get('k') == 'call' and A.callee(c) in GROW_NAMES


# ------------------------------------------------------------------------------ GROW-GUARD
def grow_guard(progs):
    rr = RuleResult('GROW-GUARD', 'every call to grow is control-dependent on the current capacity being insufficient '
                                  '(capacity() < needed, or size() == capacity()), and grows to the compared request')
    for prog in progs:
        for f in prog.amc_functions():
            if f['name'] in GROW_NAMES or f.get('body') is None:
                continue
            body = f['body']
            gcalls = [c for c in A.calls(body) if is_grow_call(c)]
            if not gcalls:
                continue
            P = A.Parents(body)
            for i, c in enumerate(gcalls):
                key = '%s|grow|%d' % (f['key'], i)
                ok, why = False, 'no enclosing capacity comparison'
                for cond, truth in P.guards(c):
                    cn, neg = unwrap_cond(cond)
                    truth = truth != neg
                    if cn.get('k') != 'bin':
                        continue
                    op, l, r = cn.get('op'), cn.get('lhs'), cn.get('rhs')
                    arg0 = c['args'][0] if c.get('args') else None
                    form = None
                    if op == '<' and has_call(l, 'capacity') and truth:
                        form, other = 'lt', r
                    elif op == '>' and has_call(r, 'capacity') and truth:
                        form, other = 'lt', l
                    elif op == '>=' and has_call(l, 'capacity') and not truth:
                        form, other = 'lt', r
                    elif op == '<=' and has_call(r, 'capacity') and not truth:
                        form, other = 'lt', l
                    elif op == '==' and truth and ((has_call(l, 'capacity') and has_call(r, 'size')) or (has_call(r, 'capacity') and has_call(l, 'size'))):
                        form, other = 'eq', None
                    elif op == '!=' and not truth and ((has_call(l, 'capacity') and has_call(r, 'size')) or (has_call(r, 'capacity') and has_call(l, 'size'))):
                        form, other = 'eq', None
                    if form == 'lt':
                        if arg0 is not None and A.contains(arg0, other):
                            ok = True
                        else:
                            why = 'guarded by a capacity comparison but grows to something else than the compared request'
                    elif form == 'eq':
                        a0 = A.strip(arg0) if arg0 else None
                        if a0 and a0.get('k') == 'bin' and a0.get('op') == '+' and has_call(a0, 'size'):
                            ok = True
                        else:
                            why = 'size()==capacity() guard but the request is not size()+k'
                    if ok:
                        break
                rr.instance('%s|%d' % (f['key'], i), {'function': f['pname'][:150], 'site': rel(prog.site(f, c)), 'guarded': ok})
                if not ok:
                    rr.add(Finding('GROW-GUARD', key, prog.site(f, c),
                                   'call to grow is not conditioned on insufficient capacity (%s): an operation whose result fits '
                                   'would reallocate / change capacity' % why, where=f['pname'], unit=prog.uname))
    return rr


# ------------------------------------------------------------------------------ ONE-GROW
def one_grow(progs):
    rr = RuleResult('ONE-GROW', 'no grow / adjustCapacity call is inside a loop and at most one per object is executed on any path '
                                'of an operation')
    for prog in progs:
        for f in prog.amc_functions():
            body = f.get('body')
            if body is None or not f['name'].startswith(VEC_NS) and not f['name'].startswith('amc::Vector'):
                continue

            def is_g(n):
                return n.get('k') == 'call' and (is_grow_call(n) or (A.cshort(n) in ('adjustCapacity', 'adjustEachOtherCapacity') and n.get('amc')))
            gs = [c for c in A.calls(body) if is_g(c)]
            if not gs:
                continue
            P = A.Parents(body)
            for i, c in enumerate(gs):
                lp = P.in_loop(c)
                rr.instance('%s|%d' % (f['key'], i), {'function': f['pname'][:150], 'site': rel(prog.site(f, c)), 'in_loop': bool(lp)})
                if lp:
                    rr.add(Finding('ONE-GROW', '%s|loop|%d' % (f['key'], i), prog.site(f, c),
                                   'capacity adjustment inside a loop: the number of reallocations of one operation is no longer bounded by one',
                                   where=f['pname'], unit=prog.uname))
            # per receiver object
            by_obj = {}
            for c in gs:
                kind, r = A.root(c.get('obj')) if c.get('obj') is not None else ('this', None)
                by_obj.setdefault((kind, (r or {}).get('name')), []).append(id(c))
            for objk, ids in by_obj.items():
                m = A.max_count(body, lambda n: id(n) in ids)
                if m > 1:
                    rr.add(Finding('ONE-GROW', '%s|twice' % f['key'], f['loc'],
                                   '%d capacity adjustments of the same object can execute on one path' % m, where=f['pname'], unit=prog.uname))
    return rr


# ------------------------------------------------------------------------------ CAP-STABLE (ALLOC-WHO as reachability)
CAP_STABLE_OPS = {'erase', 'clear', 'pop_back', 'pop_back_val', 'assign', 'resize', 'insert', 'push_back', 'emplace',
                  'emplace_back', 'append', 'operator='}


def cap_stable(progs):
    """From the operations that must never lower capacity nor allocate when the result fits, every
    path to an allocator request / release passes through grow."""
    rr = RuleResult('CAP-STABLE', 'from erase/clear/pop_back/assign/resize/insert/push_back/emplace*/append/copy-assignment every '
                                  'call path to an allocator request, release, shrink or resetToSmall passes through grow')

    def is_grow(fx):
        return fx['name'] in GROW_NAMES

    for prog in progs:
        for f in prog.amc_functions():
            if short(f['name']) not in CAP_STABLE_OPS or f.get('access') != 'public':
                continue
            if not (f['name'].startswith(VEC_NS) or f['name'].startswith('amc::Vector::')):
                continue
            if short(f['name']) == 'operator=' and f.get('params') and f['params'][0]['t'].endswith('&&'):
                continue   # move assignment may release (C07 allows it)
            reach = prog.reachable(f['id'], stop=is_grow)
            bad = None
            # the allocator of *this container* (an element type may manage memory of its own)
            rec = prog.record(f.get('cls', ''))
            alloc_t = (rec.get('targs') or [None, None])[1] if rec and len(rec.get('targs') or []) > 1 else None
            elem_t = (rec.get('targs') or [None])[0] if rec else None

            def own_base(fx):
                # shrink / resetToSmall / freeStorage of this container's own base (an element may itself be an amc vector)
                br = prog.record(fx.get('cls', ''))
                return br is None or elem_t is None or (br.get('targs') or [None])[0] == elem_t
            for fid in reach:
                fx = prog.fns.get(fid)
                if fx is None or fid == f['id']:
                    continue
                own_alloc = fx.get('kind') == 'method' and short(fx['name']) in ('allocate', 'deallocate', 'reallocate') and \
                    (alloc_t is None or fx.get('cls') == alloc_t)
                if own_alloc or (fx['name'] in (
                        'amc::vec::SmallVectorBase::shrink', 'amc::vec::StdVectorBase::shrink', 'amc::vec::SmallVectorBase::resetToSmall',
                        'amc::vec::SmallVectorBase::freeStorage', 'amc::vec::StdVectorBase::freeStorage') and own_base(fx)):
                    bad = fx
                    break
            rr.instance('%s|%s' % (f['key'], rel(f['loc'])), {'function': f['pname'][:150], 'unit': prog.uname,
                                                              'functions_reachable_without_grow': len(reach), 'verdict': 'no allocator call outside grow' if not bad else 'FAILS'})
            if bad:
                path = prog.path(f['id'], lambda x: x['id'] == bad['id'])
                rr.add(Finding('CAP-STABLE', '%s|%s' % (f['key'], bad['name']), f['loc'],
                               '%s is reachable without passing through grow: %s  - capacity can change although the result fits'
                               % (bad['name'], CG.fmt_path(path or [f, bad])), where=f['pname'], unit=prog.uname))
    return rr


# ------------------------------------------------------------------------------ EXACT-WHO
GROWING_OPS = {'push_back', 'emplace_back', 'insert', 'emplace', 'append', 'resize'}


def exact_who(progs, all_entries=False):
    """Who may ask for an exact (non geometric) capacity: a call that passes anything but `false` to a parameter named `exact`
    is an exact request; no element-adding operation may reach one (reserve / shrink_to_fit / assignments / constructors may)."""
    rr = RuleResult('EXACT-WHO', 'no element-adding operation (push_back, emplace_back, insert, emplace, append, resize) reaches a capacity request '
                                 'made with exact = true (grow(n, true), reserve): growth through them is always the geometric one')
    exact_sites = 0
    for prog in progs:
        exactish = {}                     # function id -> (call node, callee name) of the exact request it contains
        for f in prog.amc_functions():
            body = f.get('body')
            if body is None:
                continue
            own_exact = [i for i, n in enumerate(f.get('pparams') or []) if n == 'exact']
            for c in A.calls(body):
                tgt = prog.fns.get(c.get('fn')) if c.get('fn') is not None else None
                pn = (tgt or {}).get('pparams') or []
                if 'exact' not in pn:
                    continue
                i = pn.index('exact')
                args = c.get('args', [])
                a = A.strip(args[i]) if i < len(args) else None
                if a is None or (a.get('k') == 'lit' and a.get('v') is False):
                    continue
                if a.get('k') == 'ref' and a.get('dk') == 'param' and a.get('idx') in own_exact:
                    continue               # forwards its own `exact` parameter
                exactish[f['id']] = (prog.site(f, c), tgt['name'])
                exact_sites += 1
        for f in prog.amc_functions():
            if f.get('access') != 'public':
                continue
            if not all_entries and short(f['name']) not in GROWING_OPS:
                continue
            if all_entries and (short(f['name']) in ('reserve', 'shrink_to_fit') or f.get('kind') == 'dtor'):
                continue      # reserve takes a size_type: its request cannot exceed the maximum of that type
            if not (f['name'].startswith(VEC_NS) or f['name'].startswith('amc::Vector::')):
                continue
            reach = prog.reachable(f['id'])
            hit = next((fid for fid in reach if fid in exactish), None)
            rr.instance('%s|%s' % (f['key'], rel(f['loc'])), {'function': f['pname'][:150], 'unit': prog.uname, 'functions_reachable': len(reach),
                                                              'verdict': 'no exact capacity request reachable' if hit is None else 'FAILS'})
            if hit is not None:
                c, tname = exactish[hit]
                path = prog.path(f['id'], lambda x: x['id'] == hit)
                rr.add(Finding('EXACT-WHO', '%s|%s' % (f['key'], prog.fns[hit]['name']), c,
                               'an exact capacity request (%s with exact = true) is reachable from %s: %s  - growing through this operation is not '
                               'geometric (one reallocation per call)' % (short(tname), short(f['name']), CG.fmt_path(path or [f, prog.fns[hit]])),
                               where=f['pname'], unit=prog.uname))
    rr.exact_sites = exact_sites
    return rr

# ------------------------------------------------------------------------------ THROW-TYPE
THROW_ROLES = {
    'amc::vec::ExceptionGrowingPolicy::Check': 'std::out_of_range',
    'amc::vec::SafeNextCapacity': 'std::overflow_error',
    'amc::vec::swap_sizetype': 'std::overflow_error',
    'amc::vec::VectorImpl::at': 'std::out_of_range',
}


def throw_type(progs):
    rr = RuleResult('THROW-TYPE', 'capacity-limit errors have the documented exception types: out_of_range for the fixed-capacity '
                                  'check and at(), overflow_error for size_type overflow; at() tests idx >= size()')
    seen_roles = set()
    role_throws = {}
    for prog in progs:
        for f in prog.amc_functions():
            body = f.get('body')
            if body is None:
                continue
            if not (f['name'].startswith(VEC_NS) or f['name'].startswith('amc::Vector')):
                continue
            P = None
            # a private helper that only the members of one documented role call throws on their behalf
            # (`at()` delegating its index test to a shared `throwIfOutOfRange`)
            role_name = f['name'] if f['name'] in THROW_ROLES else None
            if role_name is None and any(n.get('k') == 'throw' and n.get('sub') is not None for n in walk(body)):
                callers = {g['name'] for g in prog.amc_functions() if f['id'] in (g.get('calls') or []) and g['id'] != f['id']}
                if callers and len(callers) == 1 and list(callers)[0] in THROW_ROLES:
                    role_name = list(callers)[0]
                    ent = role_throws.setdefault(role_name, [False, f, prog])
                    ent[0] = True
            if f['name'] in THROW_ROLES:
                seen_roles.add(f['name'])
                # the 2-type swap_sizetype only: the same-type overload is noexcept; with `if constexpr` an instantiation for two
                # size types of equal width legitimately contains no throw, so presence is required over all instantiations
                is_role_instance = not (f['name'].endswith('swap_sizetype') and f.get('nothrow'))
                if is_role_instance:
                    has = any(n.get('k') == 'throw' and n.get('sub') is not None for n in walk(body))
                    ent = role_throws.setdefault(f['name'], [False, f, prog])
                    ent[0] = ent[0] or has
            for n in walk(body):
                if n.get('k') != 'throw' or n.get('sub') is None:
                    continue
                ty = n.get('of', '').replace('const ', '')
                want = THROW_ROLES.get(role_name)
                rr.instance('%s|%s' % (f['key'], rel(prog.site(f, n))), {'function': f['pname'][:120], 'throws': ty, 'expected': want})
                if want is None:
                    rr.add(Finding('THROW-TYPE', '%s|unlisted' % f['key'], prog.site(f, n),
                                   'throw of %s in a vector function that has no documented error' % ty, where=f['pname'], unit=prog.uname))
                    continue
                if ty != want:
                    rr.add(Finding('THROW-TYPE', '%s|type' % f['key'], prog.site(f, n),
                                   'throws %s where %s is documented' % (ty, want), where=f['pname'], unit=prog.uname))
                if (role_name or '').endswith('::at'):
                    P = P or A.Parents(body)
                    g = P.guards(n)
                    ok = False
                    for cond, truth in g:
                        cn, neg = unwrap_cond(cond)
                        truth = truth != neg
                        if cn.get('k') == 'bin':
                            op, l, r = cn['op'], A.strip(cn['lhs']), A.strip(cn['rhs'])
                            lp = l.get('k') == 'ref' and l.get('dk') == 'param'
                            rp = r.get('k') == 'ref' and r.get('dk') == 'param'
                            if (op == '>=' and lp and has_call(r, 'size') and truth) or (op == '<=' and rp and has_call(l, 'size') and truth) \
                                    or (op == '<' and lp and has_call(r, 'size') and not truth) or (op == '>' and rp and has_call(l, 'size') and not truth):
                                ok = True
                    if not ok:
                        rr.add(Finding('THROW-TYPE', '%s|cond' % f['key'], prog.site(f, n),
                                       'at() does not throw exactly when idx >= size()', where=f['pname'], unit=prog.uname))
            if f['name'] == 'amc::vec::swap_sizetype' and not f.get('nothrow'):
                # the exchange is impossible exactly when a value exceeds the maximum of the other size type: `max < value` (strict)
                Ps = A.Parents(body)
                for n in [x for x in walk(body) if x.get('k') == 'throw' and x.get('sub') is not None]:
                    ok = False
                    seen_cmp = False
                    for cond, truth in Ps.guards(n):
                        cn, neg = unwrap_cond(cond)
                        t = truth != neg
                        if not (isinstance(cn, dict) and cn.get('k') == 'bin' and cn.get('op') in ('<', '>', '<=', '>=')):
                            continue
                        l, r = A.strip(cn['lhs']), A.strip(cn['rhs'])
                        lconst, rconst = l.get('cv') is not None, r.get('cv') is not None
                        lpar = l.get('k') == 'ref' and l.get('dk') == 'param'
                        rpar = r.get('k') == 'ref' and r.get('dk') == 'param'
                        if not ((lconst and rpar) or (lpar and rconst)):
                            continue      # e.g. the sizeof comparison selecting the direction
                        seen_cmp = True
                        op = cn['op']
                        # value strictly greater than the constant maximum
                        if (lconst and rpar and ((op == '<' and t) or (op == '>=' and not t))) or (lpar and rconst and ((op == '>' and t) or (op == '<=' and not t))):
                            ok = True
                    rr.instance('%s|range|%s' % (f['key'], rel(prog.site(f, n))), {'function': f['pname'][:120], 'throws_iff_value_exceeds_max': ok or not seen_cmp})
                    if seen_cmp and not ok:
                        rr.add(Finding('THROW-TYPE', '%s|range' % f['key'], prog.site(f, n),
                                       'swap_sizetype does not throw exactly when a size exceeds the maximum of the other size type (the comparison with the '
                                       'maximum is not the strict `max < value`): an exchange that is possible is refused, or an impossible one accepted',
                                       where=f['pname'], unit=prog.uname))
            if f['name'] == 'amc::vec::ExceptionGrowingPolicy::Check':
                P = A.Parents(body)
                ths = [n for n in walk(body) if n.get('k') == 'throw']
                ok = False
                for n in ths:
                    for cond, truth in P.guards(n):
                        cn, neg = unwrap_cond(cond)
                        truth = truth != neg
                        if cn.get('k') == 'bin':
                            op, l, r = cn['op'], A.strip(cn['lhs']), A.strip(cn['rhs'])
                            names = (l.get('idx'), r.get('idx'))
                            # params: (capacity idx0, maxCapacity idx1): throw iff maxCapacity < capacity
                            if (op == '<' and names == (1, 0) and truth) or (op == '>' and names == (0, 1) and truth) or \
                               (op == '>=' and names == (1, 0) and not truth) or (op == '<=' and names == (0, 1) and not truth):
                                ok = True
                if not ok:
                    rr.add(Finding('THROW-TYPE', '%s|cond' % f['key'], f['loc'],
                                   'the fixed-capacity check does not throw exactly when the request exceeds the capacity', where=f['pname'], unit=prog.uname))
    for name, (has, f, prog) in role_throws.items():
        if not has:
            rr.add(Finding('THROW-TYPE', '%s|missing' % f['key'], f['loc'],
                           'the documented %s is no longer thrown by any instantiation of this function' % THROW_ROLES[name], where=f['pname'], unit=prog.uname))
    return rr, seen_roles


# ------------------------------------------------------------------------------ WIDEN
def widen(progs):
    rr = RuleResult('WIDEN', 'the size requested from a capacity check / grow is computed in a type that cannot wrap: wider than '
                             'size_type, or 64 bits')
    for prog in progs:
        for f in prog.amc_functions():
            body = f.get('body')
            if body is None or not f['name'].startswith(VEC_NS):
                continue
            linit = A.local_inits(body)
            for c in A.calls(body):
                nm = A.cshort(c)
                if not (nm in ('Check', 'adjustCapacity', 'grow') and c.get('args')):
                    continue
                if nm == 'Check' and not A.callee(c).endswith('GrowingPolicy::Check'):
                    continue
                arg = c['args'][0]
                # the request may have been computed into a local first: follow initialisers
                exprs = [arg]
                seen_l = set()
                frontier = [arg]
                while frontier:
                    e = frontier.pop()
                    for x in walk(e):
                        if x.get('k') == 'ref' and x.get('dk') == 'local' and x.get('did') not in seen_l and linit.get(x.get('did')) and linit[x['did']][0] is not None:
                            seen_l.add(x['did'])
                            exprs.append(linit[x['did']][0])
                            frontier.append(linit[x['did']][0])
                site = rel(prog.site(f, c))
                ariths = []
                narrow = []
                for e in exprs:
                    for n in walk(e):
                        if n.get('k') == 'bin' and n.get('op') in ('+', '*', '<<'):
                            ariths.append(n)
                        if n.get('k') == 'cast' and A.width(n.get('t', '')) and A.width(n.get('from', '')) and A.width(n['t']) < A.width(n['from']) and A.width(n['t']) < 64:
                            if any(y.get('k') == 'bin' and y.get('op') in ('+', '*', '<<') for y in walk(n.get('sub') or {})):
                                narrow.append(n)
                if not ariths:
                    rr.instance('%s|%s|pass' % (f['key'], site), {'function': f['pname'][:120], 'site': site, 'request': 'passed through'})
                    continue
                for n in narrow:
                    rr.add(Finding('WIDEN', '%s|%s|narrowed' % (f['key'], nm), prog.site(f, n),
                                   'the requested size is computed and then narrowed to %s before the capacity check: beyond the size_type limit it wraps '
                                   'around and the check passes' % n.get('t'), where=f['pname'], unit=prog.uname))
                for n in ariths:
                    w_op = A.width(n.get('t', ''))
                    leaves = [x for x in walk(n) if x.get('k') in ('ref', 'call', 'mem') and A.width(x.get('t', '')) and x.get('cv') is None
                              and not (x.get('k') == 'ref' and x.get('dk') == 'fn')]
                    # leaf widths before any explicit widening cast
                    w_src = max([A.width(x['t']) for x in leaves] or [0])
                    ok = w_op is not None and (w_op >= 64 or w_op > w_src)
                    rr.instance('%s|%s|%s' % (f['key'], site, w_src), {'function': f['pname'][:120], 'site': site, 'computed_in': n.get('t'), 'bits': w_op,
                                                                         'widest_operand_bits': w_src, 'ok': ok})
                    if not ok:
                        rr.add(Finding('WIDEN', '%s|%s' % (f['key'], nm), prog.site(f, n),
                                       'requested size is computed in %s (%s bits) from %s-bit operands: at the size_type limit it wraps '
                                       'around and the limit check passes' % (n.get('t'), w_op, w_src), where=f['pname'], unit=prog.uname))
    return rr


# ------------------------------------------------------------------------------ GEO
class Val:
    def __init__(self, lbs=(), exact=None, clamp=None, const=None):
        self.lbs = list(lbs)
        self.exact = exact
        self.clamp = clamp
        self.const = const

    @staticmethod
    def constant(v):
        v = Fraction(v)
        return Val([(Fraction(0), Fraction(0), v)], (Fraction(0), Fraction(0), v), None, v)


def _dominates(x, y):
    return x[0] >= y[0] and x[1] >= y[1] and x[2] >= y[2]


def geo_eval(n, env):
    # a narrowing conversion of a computed value can wrap: the lower bounds survive it only if the value was clamped into the
    # target's range before (widening conversions and conversions of plain variables are the identity)
    while isinstance(n, dict) and n.get('k') == 'cast':
        tw, fw = A.width(n.get('t', '')), A.width(n.get('from', ''))
        sub = n.get('sub')
        if tw and fw and tw < fw and n.get('cv') is None:
            inner = geo_eval(sub, env)
            has_arith = any(x.get('k') == 'bin' and x.get('op') in ('+', '*', '<<', '-') for x in walk(sub or {}))
            tmax = (1 << tw) - 1
            if has_arith and not (inner.clamp is not None and inner.clamp <= tmax):
                return Val([], None, inner.clamp)
            return inner
        n = sub
    if not isinstance(n, dict):
        return Val()
    if n.get('cv') is not None and n.get('k') != 'ref':
        try:
            return Val.constant(int(n['cv']))
        except Exception:
            return Val()
    kd = n.get('k')
    if kd == 'lit' and isinstance(n.get('v'), int):
        return Val.constant(n['v'])
    if kd == 'ref':
        if n.get('dk') == 'param':
            return env.get(('p', n.get('idx')), Val())
        if n.get('dk') == 'local':
            return env.get(('l', n.get('did')), Val())
        if n.get('cv') is not None:
            return Val.constant(int(n['cv']))
        return Val()
    if kd == 'bin':
        op = n.get('op')
        l, r = geo_eval(n.get('lhs'), env), geo_eval(n.get('rhs'), env)
        if op == '+':
            lbs = [(a[0] + b[0], a[1] + b[1], a[2] + b[2]) for a in l.lbs for b in r.lbs]
            ex = None
            if l.exact and r.exact:
                ex = tuple(x + y for x, y in zip(l.exact, r.exact))
            return Val(lbs, ex)
        if op == '*':
            for c, o in ((l, r), (r, l)):
                if c.const is not None and c.const >= 0:
                    lbs = [(b[0] * c.const, b[1] * c.const, b[2] * c.const) for b in o.lbs]
                    ex = tuple(x * c.const for x in o.exact) if o.exact else None
                    return Val(lbs, ex)
            return Val()
        if op in ('/', '>>'):
            if r.const is not None and r.const > 0:
                kk = r.const if op == '/' else Fraction(2) ** r.const
                lbs = [(b[0] / kk, b[1] / kk, (b[2] - (kk - 1)) / kk) for b in l.lbs]
                return Val(lbs)
            return Val()
        if op == '-':
            if r.const is not None:
                lbs = [(b[0], b[1], b[2] - r.const) for b in l.lbs]
                return Val(lbs)
            return Val()
        return Val()
    if kd == 'call':
        nm = A.callee(n)
        args = n.get('args', [])
        if nm == 'std::max' and len(args) >= 2:
            a, b = geo_eval(args[0], env), geo_eval(args[1], env)
            return Val(a.lbs + b.lbs)
        if nm == 'std::min' and len(args) >= 2:
            a, b = geo_eval(args[0], env), geo_eval(args[1], env)
            if b.const is not None:
                return Val(a.lbs, None, b.const)
            if a.const is not None:
                return Val(b.lbs, None, a.const)
            return Val()
        return Val()
    if kd == 'cond':
        a, b = geo_eval(n.get('a'), env), geo_eval(n.get('b'), env)
        lbs = [x for x in a.lbs if any(_dominates(y, x) for y in b.lbs)] + [y for y in b.lbs if any(_dominates(x, y) for x in a.lbs)]
        return Val(lbs)
    return Val()


def _geo_key(n):
    n = A.strip(n)
    if isinstance(n, dict) and n.get('k') == 'ref' and n.get('dk') in ('local', 'param'):
        return ('l', n.get('did')) if n['dk'] == 'local' else ('p', n.get('idx'))
    return None


def geo_run(n, env):
    """Statements in order: initialisers, plain assignments, and the statement forms of max / min:
    `if (x < e) x = e;` is x = max(x, e), `if (e < x) x = e;` is x = min(x, e) (a clamp when e is a constant)."""
    if isinstance(n, list):
        for x in n:
            geo_run(x, env)
        return
    if not isinstance(n, dict):
        return
    kd = n.get('k')
    if kd == 'block':
        geo_run(n.get('s', []), env)
    elif kd == 'decl':
        for v in n.get('vars', []):
            if v.get('init') is not None:
                env[('l', v['did'])] = geo_eval(v['init'], env)
    elif kd == 'bin' and n.get('op') == '=' and _geo_key(n.get('lhs')) is not None:
        env[_geo_key(n['lhs'])] = geo_eval(n.get('rhs'), env)
    elif kd == 'if' and n.get('else') is None:
        then = n.get('then')
        stmts = then.get('s', []) if isinstance(then, dict) and then.get('k') == 'block' else [then]
        stmts = [x for x in stmts if isinstance(x, dict) and x.get('k') != 'null']
        c, neg = unwrap_cond(n.get('c'))
        if len(stmts) == 1 and stmts[0].get('k') == 'bin' and stmts[0].get('op') == '=' and _geo_key(stmts[0].get('lhs')) is not None \
                and isinstance(c, dict) and c.get('k') == 'bin' and c.get('op') in ('<', '>', '<=', '>=') and not neg:
            key = _geo_key(stmts[0]['lhs'])
            e = stmts[0].get('rhs')
            l, r, op = c.get('lhs'), c.get('rhs'), c['op']
            if _geo_key(r) == key and A.struct_eq(A.strip(l), A.strip(e)):
                l, r, op = r, l, {'<': '>', '>': '<', '<=': '>=', '>=': '<='}[op]
            if _geo_key(l) == key and A.struct_eq(A.strip(r), A.strip(e)):
                cur, ev = env.get(key, Val()), geo_eval(e, env)
                if op in ('<', '<='):                    # x = max(x, e)
                    env[key] = Val(cur.lbs + ev.lbs, None, None)
                elif ev.const is not None:               # x = min(x, constant): a clamp
                    env[key] = Val(cur.lbs, None, ev.const)
                else:
                    env[key] = Val()
                return
        # any other conditional assignment: nothing is known about the variables it writes
        for x in walk(then or {}):
            if x.get('k') == 'bin' and x.get('op', '').endswith('=') and x['op'] not in ('==', '!=', '<=', '>=') and _geo_key(x.get('lhs')) is not None:
                env[_geo_key(x['lhs'])] = Val()
    elif kd in ('if', 'for', 'while', 'do', 'try'):
        for x in walk(n):
            if x.get('k') == 'bin' and x.get('op', '').endswith('=') and x['op'] not in ('==', '!=', '<=', '>=') and _geo_key(x.get('lhs')) is not None:
                env[_geo_key(x['lhs'])] = Val()


def sizetype_max(t):
    t = t.replace('const ', '').strip()
    w = A.width(t)
    if w is None:
        return None
    signed = not t.startswith('unsigned') and t not in ('bool',)
    if t == 'char':
        signed = True
    return (1 << (w - 1)) - 1 if signed else (1 << w) - 1


def geo(progs):
    rr = RuleResult('GEO', 'abstract interpretation (affine lower bounds) of SafeNextCapacity: growth by a factor a with a*a >= 2, at least '
                           'the request, clamped only at size_type max, overflow throws before any effect; exact path returns the request')
    facts = {}
    for prog in progs:
        for f in prog.by_name('amc::vec::SafeNextCapacity'):
            body = f.get('body')
            if body is None:
                continue
            if len(f.get('params', [])) != 3:
                raise AnalysisBroken('SafeNextCapacity no longer has (oldCapa, newSize, exact) parameters')
            env = {('p', 0): Val([(Fraction(1), Fraction(0), Fraction(0))], (Fraction(1), Fraction(0), Fraction(0))),
                   ('p', 1): Val([(Fraction(0), Fraction(1), Fraction(0))], (Fraction(0), Fraction(1), Fraction(0)))}
            P = A.Parents(body)
            geo_run(body, env)
            rets = [n for n in walk(body) if n.get('k') == 'ret' and n.get('e') is not None]
            smax = sizetype_max(f['ret'])
            key = 'SafeNextCapacity|%s' % f['ret']
            for rt in rets:
                exact_path = False
                for cond, truth in P.guards(rt):
                    cn, neg = unwrap_cond(cond)
                    if cn.get('k') == 'ref' and cn.get('dk') == 'param' and cn.get('idx') == 2 and (truth != neg):
                        exact_path = True
                v = geo_eval(rt['e'], env)
                if exact_path:
                    ok = any(b[1] >= 1 and b[0] >= 0 and b[2] >= 0 for b in v.lbs)
                    rr.instance(key + '|exact', {'function': f['pname'], 'path': 'exact (reserve)', 'lower_bounds': [[str(x) for x in b] for b in v.lbs], 'ok': ok})
                    if not ok:
                        rr.add(Finding('GEO', 'SafeNextCapacity|exact', prog.site(f, rt),
                                       'the exact (reserve) path does not return at least the requested size', where=f['pname'], unit=prog.uname))
                else:
                    grow_b = [b for b in v.lbs if b[0] * b[0] >= 2 and b[1] >= 0 and b[2] >= -1]
                    req_b = [b for b in v.lbs if b[1] >= 1 and b[0] >= 0 and b[2] >= 0]
                    clamp_ok = v.clamp is None or (smax is not None and v.clamp == smax)
                    # the overflow test: newCapa < newSize throws overflow_error, before the return
                    thr = False
                    for t in walk(body):
                        if t.get('k') == 'throw' and t.get('of', '').endswith('std::overflow_error'):
                            for cond, truth in P.guards(t):
                                cn, neg = unwrap_cond(cond)
                                if cn.get('k') == 'bin' and cn.get('op') in ('<', '>'):
                                    l, r = A.strip(cn['lhs']), A.strip(cn['rhs'])
                                    if cn['op'] == '>':
                                        l, r = r, l
                                    if r.get('k') == 'ref' and r.get('dk') == 'param' and r.get('idx') == 1 and l.get('k') == 'ref' and l.get('dk') == 'local' and (truth != neg):
                                        thr = True
                    need_thr = v.clamp is not None
                    ok = bool(grow_b) and bool(req_b) and clamp_ok and (thr or not need_thr)
                    a = max([b[0] for b in grow_b] or [Fraction(0)])
                    facts[f['ret']] = {'a': str(a), 'clamp': str(v.clamp), 'throws_on_overflow': thr}
                    rr.instance(key + '|grow', {'function': f['pname'], 'path': 'geometric', 'lower_bounds': [[str(x) for x in b] for b in v.lbs][:6],
                                                'growth_factor_a': str(a), 'clamp': str(v.clamp), 'size_type_max': smax, 'overflow_throw': thr, 'ok': ok})
                    if not grow_b:
                        rr.add(Finding('GEO', 'SafeNextCapacity|factor', prog.site(f, rt),
                                       'no affine lower bound a*oldCapa+c with a*a >= 2 holds for the new capacity (bounds found: %s): growth is not geometric, '
                                       'n appends need more than 2*ceil(log2 n)+4 reallocations' % [[str(x) for x in b] for b in v.lbs][:4], where=f['pname'], unit=prog.uname))
                    if not req_b:
                        rr.add(Finding('GEO', 'SafeNextCapacity|request', prog.site(f, rt),
                                       'the new capacity is not bounded below by the requested size', where=f['pname'], unit=prog.uname))
                    if not clamp_ok:
                        rr.add(Finding('GEO', 'SafeNextCapacity|clamp', prog.site(f, rt),
                                       'capacity is clamped at %s, not at the size_type maximum %s' % (v.clamp, smax), where=f['pname'], unit=prog.uname))
                    if need_thr and not thr:
                        rr.add(Finding('GEO', 'SafeNextCapacity|overflow', prog.site(f, rt),
                                       'clamped capacity smaller than the request is not rejected with overflow_error', where=f['pname'], unit=prog.uname))
    return rr, facts


# ------------------------------------------------------------------------------ grow structure (one allocator call, order)
def grow_shape(progs):
    """In grow / Reallocate the capacity computation (which may throw) and the allocator request
    precede every member store; exactly one allocator request per grow path."""
    rr = RuleResult('GROW-SHAPE', 'grow computes the new capacity (may throw) and requests memory before any member store, and performs '
                                  'exactly one allocator request per path')
    for prog in progs:
        for f in prog.amc_functions():
            if f['name'] not in GROW_NAMES or f.get('body') is None:
                continue
            body = f['body']

            def is_req(n):
                return n.get('k') == 'call' and (A.cshort(n) in ('allocate', 'reallocate') or A.callee(n) == 'amc::vec::Reallocate')
            m = A.max_count(body, is_req)
            # order: linear scan of statements in evaluation order
            order = []
            for n in walk(body):
                if n.get('k') == 'call' and A.callee(n) == 'amc::vec::SafeNextCapacity':
                    order.append(('capa', n))
                elif is_req(n):
                    order.append(('req', n))
            st_nodes = list(A.stores(body))
            rr.instance('%s' % f['key'], {'function': f['pname'][:140], 'allocator_requests_max_per_path': m})
            if m != 1:
                rr.add(Finding('GROW-SHAPE', '%s|requests' % f['key'], f['loc'], '%d allocator requests on one grow path (expected exactly 1)' % m,
                               where=f['pname'], unit=prog.uname))
    return rr


# ------------------------------------------------------------------------------ comparator helpers (sets)
def compare_type(prog, f):
    rec = prog.record(f.get('cls', ''))
    if rec is None:
        return None
    return rec.get('typedefs', {}).get('key_compare')


def is_cmp_call(n, cmp_t):
    if n.get('k') != 'call' or n.get('op') != '()' or n.get('obj') is None:
        return False
    t = A.strip(n['obj']).get('t', '').replace('const ', '').strip()
    return t == cmp_t


def cmp_typed(n, cmp_t):
    t = n.get('t', '').replace('const ', '').strip()
    return t == cmp_t


# ------------------------------------------------------------------------------ GROW-BASIS
class _BasisUnknown(Exception):
    pass


class _BasisFound(Exception):
    def __init__(self, v):
        Exception.__init__(self)
        self.v = v


def _basis_in_state(body, target, state):
    """Value ('CAP' / 'SIZE' / 'MAX' / ...) of the first argument of the SafeNextCapacity call `target` when the function is entered in
    `state`: large (_capa = capacity, _size = size), small (_capa = size, _size = N = capacity), full (_capa = size = N, _size = max).
    None if the call is not reached in that state."""
    WORD = {'_capa': {'large': 'CAP', 'small': 'SIZE', 'full': 'CAP'}, '_size': {'large': 'SIZE', 'small': 'CAP', 'full': 'MAX'}}
    env = {}

    def ev(n):
        n = A.strip(n)
        if not isinstance(n, dict):
            raise _BasisUnknown()
        if n is target:
            raise _BasisFound(ev(n['args'][0]))
        k = n.get('k')
        if k == 'mem' and n.get('field') and n.get('name') in WORD and A.root(n.get('base'))[0] == 'this':
            return WORD[n['name']][state]
        if k == 'mem' and (n.get('staticvar', '') or n.get('name', '')).endswith('kMaxSize'):
            return 'MAX'
        if k == 'ref' and n.get('name') == 'kMaxSize':
            return 'MAX'
        if k == 'call' and n.get('method') and not n.get('args') and A.cshort(n) in ('capacity', 'size', 'isSmall') and (n.get('obj') is None or A.root(n['obj'])[0] == 'this'):
            return {'capacity': 'CAP', 'size': 'SIZE', 'isSmall': state != 'large'}[A.cshort(n)]
        if k == 'call' and A.cshort(n) == 'max' and not n.get('args') and 'numeric_limits' in A.callee(n):
            return 'MAX'
        if k == 'ref' and n.get('dk') == 'local':
            if ('l', n.get('did')) in env:
                return env[('l', n['did'])]
            raise _BasisUnknown()
        if k == 'lit' and isinstance(n.get('v'), bool):
            return n['v']
        if k == 'cond':
            return ev(n.get('a') if truth(n.get('c')) else n.get('b'))
        if k == 'un' and n.get('op') == '!':
            return not truth(n.get('sub'))
        if k == 'bin' and n.get('op') in ('&&', '||', '==', '!='):
            return truth(n)
        if k == 'bin' and n.get('op') == '=':
            l = A.strip(n.get('lhs'))
            v = ev(n.get('rhs'))
            if isinstance(l, dict) and l.get('k') == 'ref' and l.get('dk') == 'local':
                env[('l', l['did'])] = v
                return v
            raise _BasisUnknown()
        if any(x is target for x in walk(n)):
            for x in (n.get('args') or []) + [n.get(key) for key in ('lhs', 'rhs', 'sub', 'obj', 'base') if isinstance(n.get(key), dict)]:
                if isinstance(x, dict) and any(y is target for y in walk(x)):
                    return ev(x)
        raise _BasisUnknown()

    def truth(n):
        n = A.strip(n)
        if isinstance(n, dict) and n.get('k') == 'call' and A.callee(n) == '__builtin_expect' and n.get('args'):
            return truth(n['args'][0])
        if isinstance(n, dict) and n.get('k') == 'bin' and n.get('op') == '&&':
            return truth(n.get('lhs')) and truth(n.get('rhs'))
        if isinstance(n, dict) and n.get('k') == 'bin' and n.get('op') == '||':
            return truth(n.get('lhs')) or truth(n.get('rhs'))
        if isinstance(n, dict) and n.get('k') == 'bin' and n.get('op') in ('==', '!='):
            a, b = ev(n.get('lhs')), ev(n.get('rhs'))
            if isinstance(a, bool) or isinstance(b, bool):
                eq = a == b
            elif a == b:
                eq = True
            elif 'MAX' in (a, b) and state != 'large':
                eq = False            # inline: the size (<= N) and N itself are below the marker
            else:
                raise _BasisUnknown()
            return eq if n['op'] == '==' else not eq
        v = ev(n)
        if isinstance(v, bool):
            return v
        raise _BasisUnknown()

    def run(n):
        if isinstance(n, list):
            for x in n:
                run(x)
            return
        if not isinstance(n, dict):
            return
        k = n.get('k')
        has = any(x is target for x in walk(n))
        if k == 'block':
            run(n.get('s', []))
        elif k == 'decl':
            for v in n.get('vars', []):
                if v.get('init') is not None:
                    try:
                        env[('l', v['did'])] = ev(v['init'])
                    except _BasisUnknown:
                        if any(x is target for x in walk(v['init'])):
                            raise
        elif k == 'if':
            run(n.get('then') if truth(n.get('c')) else n.get('else'))
        elif k in ('try',):
            run(n.get('body'))
        elif has or (k == 'bin' and n.get('op') == '='):
            try:
                ev(n)
            except _BasisUnknown:
                if has:
                    raise
                l = A.strip(n.get('lhs'))
                if isinstance(l, dict) and l.get('k') == 'ref' and l.get('dk') == 'local':
                    env.pop(('l', l['did']), None)
        elif k == 'ret':
            raise _BasisFound(None)
    try:
        run(body)
    except _BasisFound as e:
        return e.v
    return None


def grow_basis(progs):
    """The geometric candidate is 1.5 x the *current capacity*.  In SmallVectorBase the two size words swap their meaning between the
    inline and the heap state, so the first argument of SafeNextCapacity must be capacity() - or `_capa` where the vector is known to
    be large, or the decoded inline capacity (`_size == max ? _capa : _size`) where it is known to be inline."""
    rr = RuleResult('GROW-BASIS', 'every SafeNextCapacity call is given the current capacity as its basis: capacity(), `_capa` in the large state, or the '
                                  'decoded inline capacity in the inline state (never the word that holds the size)')
    SVB = 'amc::vec::SmallVectorBase'
    for prog in progs:
        for f in prog.amc_functions():
            body = f.get('body')
            if body is None or f.get('clsq') not in (SVB, 'amc::vec::StdVectorBase'):
                continue
            calls = [c for c in A.calls(body) if A.callee(c) == 'amc::vec::SafeNextCapacity' and c.get('args')]
            if not calls:
                continue
            linit = A.local_inits(body)
            P = A.Parents(body)
            written = {A.strip(l).get('did') for _s, l in A.stores(body) if isinstance(A.strip(l), dict) and A.strip(l).get('k') == 'ref'}

            def state_at(n):
                for cond, truth in P.guards(n):
                    cn, neg = unwrap_cond(cond)
                    if isinstance(cn, dict) and cn.get('k') == 'call' and A.callee(cn) == SVB + '::isSmall':
                        return 'small' if (truth != neg) else 'large'
                return None

            def is_capacity(x, at, depth=0):
                x = A.strip(x)
                if not isinstance(x, dict) or depth > 3:
                    return False
                if x.get('k') == 'call' and x.get('method') and A.cshort(x) == 'capacity' and not x.get('args'):
                    return True
                if x.get('k') == 'mem' and x.get('field') and x.get('name') == '_capa':
                    return f.get('clsq') != SVB or state_at(at) == 'large'
                if x.get('k') == 'cond':
                    # _size == max ? _capa : _size   (inline state)
                    c = A.strip(x.get('c'))
                    dec = isinstance(c, dict) and c.get('k') == 'bin' and c.get('op') in ('==', '!=') and any(y.get('k') == 'mem' and y.get('name') == '_size' for y in walk(c))
                    a, b = A.strip(x.get('a')), A.strip(x.get('b'))
                    if c.get('op') == '!=':
                        a, b = b, a
                    return dec and state_at(at) == 'small' and a.get('name') == '_capa' and b.get('name') == '_size'
                if x.get('k') == 'ref' and x.get('dk') == 'local' and x.get('did') not in written and linit.get(x.get('did')) and linit[x['did']][0] is not None:
                    ini = linit[x['did']][0]
                    return is_capacity(ini, ini, depth + 1)
                return False
            for c in calls:
                ok = is_capacity(c['args'][0], c)
                if not ok:
                    # not the idiom: evaluate the basis in each state of the encoding (large / inline / inline and full)
                    try:
                        vals = {st: _basis_in_state(body, c, st) for st in (('large', 'small', 'full') if f.get('clsq') == SVB else ('large',))}
                        ok = all(v in (None, 'CAP') for v in vals.values()) and any(v == 'CAP' for v in vals.values())
                    except _BasisUnknown:
                        ok = False
                rr.instance('%s|%s' % (f['key'], rel(prog.site(f, c))), {'function': f['pname'][:140], 'basis_is_current_capacity': ok, 'state': state_at(c)})
                if not ok:
                    rr.add(Finding('GROW-BASIS', '%s' % f['key'], prog.site(f, c),
                                   'SafeNextCapacity is not given the current capacity as its basis (in the inline state `_capa` holds the size): the first heap '
                                   'block is sized from size() instead of the capacity and the next append reallocates again', where=f['pname'], unit=prog.uname))
    return rr
