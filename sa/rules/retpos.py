"""RET-POS: the iterator returned by insert / emplace / erase (and by the helpers that re-base a position across a reallocation)
designates the position it was given, in the *current* storage.

std::vector's insert returns an iterator to the first inserted element, erase the iterator following the last removed one: in both
cases the element index of the position argument.  The rule interprets every iterator-returning member of the vector classes that takes
a position: pointer values are pairs (storage version, offset from begin()), offsets and counts are linear forms over the position's
index and opaque symbols (size() read at a given moment, parameters); a call that may reallocate opens a new storage version, a call
that re-bases a position (adjustCapacity) carries the offset over.  Every `return` must evaluate to (current version, index of the
position argument).  All paths are walked (conditions are not interpreted, both branches are taken).  Nothing is executed; a body the
interpreter cannot read ends ANALYSIS-BROKEN."""
from ..lib.core import RuleResult, Finding, short
from ..lib import ast as A

CLASSES = ('amc::vec::VectorImpl', 'amc::vec::StaticVector', 'amc::vec::DynamicVector', 'amc::Vector')
MAY_REALLOC = {'grow', 'adjustCapacity', 'reserve', 'append_range', 'shrink_to_fit', 'adjustEachOtherCapacity', 'push_back', 'emplace_back', 'append', 'resize', 'assign'}
SIZE_MUT = {'setSize', 'incrSize', 'decrSize', 'append_range', 'push_back', 'emplace_back', 'append', 'resize', 'assign', 'pop_back', 'clear'}
BEGIN = {'begin', 'cbegin', 'dynStorage', 'data', 'mbegin'}
END = {'end', 'cend', 'mend'}
POS_RETURNING = {'insert', 'emplace', 'erase', 'insert_range', 'adjustCapacity'}
TOP = ('top',)


class Unknown(Exception):
    pass


def ladd(a, b, sign=1):
    out = dict(a)
    for k, v in b.items():
        out[k] = out.get(k, 0) + sign * v
        if not out[k]:
            del out[k]
    return out


class State:
    def __init__(self):
        self.env, self.params, self.ver, self.sver = {}, {}, 0, 0

    def copy(self):
        s = State()
        s.env, s.params, s.ver, s.sver = dict(self.env), dict(self.params), self.ver, self.sver
        return s


class Interp:
    def __init__(self, prog, f):
        self.prog, self.f = prog, f
        self.returns = []          # (value, state version, node)

    def may_realloc(self, n):
        """May the resolved callee replace the storage?  It can iff a grow / allocator request is reachable from it."""
        fid = n.get('fn')
        if fid is None or fid not in self.prog.fns:
            return A.cshort(n) in MAY_REALLOC or A.cshort(n) in POS_RETURNING
        for x in self.prog.reachable(fid):
            fx = self.prog.fns.get(x)
            if fx and (fx['name'] in ('amc::vec::SmallVectorBase::grow', 'amc::vec::StdVectorBase::grow', 'amc::vec::Reallocate') or short(fx['name']) in ('allocate', 'reallocate')):
                return True
        return False

    def is_this(self, obj):
        return obj is None or A.root(obj, {})[0] == 'this'

    def ev(self, n, st):
        n = A.strip(n)
        if not isinstance(n, dict):
            return TOP
        k = n.get('k')
        if k == 'ref':
            if n.get('dk') == 'param':
                return st.params.get(n.get('idx'), TOP)
            if n.get('dk') == 'local':
                return st.env.get(n.get('did'), TOP)
            return TOP
        if k == 'lit' and isinstance(n.get('v'), int) and not isinstance(n.get('v'), bool):
            return ('int', {'': n['v']} if n['v'] else {})
        if k == 'bin' and n.get('op') in ('+', '-'):
            a, b = self.ev(n['lhs'], st), self.ev(n['rhs'], st)
            if a[0] == 'ptr' and b[0] == 'int':
                return ('ptr', a[1], ladd(a[2], b[1], 1 if n['op'] == '+' else -1))
            if a[0] == 'int' and b[0] == 'ptr' and n['op'] == '+':
                return ('ptr', b[1], ladd(b[2], a[1]))
            if a[0] == 'ptr' and b[0] == 'ptr' and n['op'] == '-':
                if a[1] != b[1]:
                    raise Unknown('difference of two positions taken in different storages (one of them is stale)')
                return ('int', ladd(a[2], b[2], -1))
            if a[0] == 'int' and b[0] == 'int':
                return ('int', ladd(a[1], b[1], 1 if n['op'] == '+' else -1))
            return TOP
        if k == 'bin' and n.get('op') == '=':
            v = self.ev(n['rhs'], st)
            l = A.strip(n['lhs'])
            if l.get('k') == 'ref' and l.get('dk') == 'local':
                st.env[l['did']] = v
            elif l.get('k') == 'ref' and l.get('dk') == 'param':
                st.params[l['idx']] = v
            elif l.get('k') == 'un' and l.get('op') == '*':      # *position = ... (position handed over by address)
                t = A.strip(l['sub'])
                if t.get('k') == 'ref' and t.get('dk') == 'param':
                    st.params[('deref', t['idx'])] = v
            return v
        if k == 'un' and n.get('op') == '*':
            t = A.strip(n['sub'])
            if t.get('k') == 'ref' and t.get('dk') == 'param' and ('deref', t['idx']) in st.params:
                return st.params[('deref', t['idx'])]
            self.ev(n['sub'], st)
            return TOP
        if k == 'cond':
            self.ev(n['c'], st)
            a, b = self.ev(n['a'], st), self.ev(n['b'], st)
            return a if a == b else TOP
        if k == 'call':
            return self.call(n, st)
        for key in ('sub', 'lhs', 'rhs', 'base', 'obj'):
            if isinstance(n.get(key), dict):
                self.ev(n[key], st)
        for a in n.get('args', []) or []:
            self.ev(a, st)
        return TOP

    def call(self, n, st):
        nm, sn, args = A.callee(n), A.cshort(n), n.get('args', [])
        on_this = n.get('method') and self.is_this(n.get('obj')) and (n.get('clsq') or '').startswith(('amc::vec::', 'amc::Vector'))
        vals = [self.ev(a, st) for a in args]
        if on_this and sn in BEGIN and not args:
            return ('ptr', st.ver, {})
        if on_this and sn in END and not args:
            return ('ptr', st.ver, {'size@%d' % st.sver: 1})
        if on_this and sn == 'size' and not args:
            return ('int', {'size@%d' % st.sver: 1})
        if nm == 'std::rotate' and len(vals) == 3 and all(v[0] == 'ptr' for v in vals):
            a, b, c = vals
            if not (a[1] == b[1] == c[1]):
                raise Unknown('std::rotate over positions of different storages')
            return ('ptr', a[1], ladd(a[2], ladd(c[2], b[2], -1)))
        if nm in ('std::next', 'std::prev') and vals and vals[0][0] == 'ptr':
            d = vals[1] if len(vals) > 1 and vals[1][0] == 'int' else ('int', {'': 1})
            return ('ptr', vals[0][1], ladd(vals[0][2], d[1], 1 if nm == 'std::next' else -1))
        if nm in ('std::move', 'std::forward', 'std::addressof') and len(vals) == 1:
            return vals[0] if nm != 'std::addressof' else TOP
        if on_this:
            res = TOP
            realloc = self.may_realloc(n)
            newver = st.ver + 1 if realloc else st.ver
            # positions handed over by address are re-based by the callee (adjustCapacity(n, v, &position))
            for a in args:
                a_ = A.strip(a)
                is_addr = (a_.get('k') == 'un' and a_.get('op') == '&') or (a_.get('k') == 'call' and A.cshort(a_) in ('addressof', '__addressof') and a_.get('args'))
                if is_addr:
                    t = A.strip(a_['sub'] if a_.get('k') == 'un' else a_['args'][0])
                    if t.get('k') == 'ref' and t.get('dk') == 'param' and st.params.get(t['idx'], TOP)[0] == 'ptr':
                        p = st.params[t['idx']]
                        st.params[t['idx']] = ('ptr', newver, p[2])
            if sn in POS_RETURNING:
                pv = next((v for v in vals if v[0] == 'ptr'), None)
                if pv is not None and (n.get('t', '').rstrip().endswith('*')):
                    if pv[1] != st.ver:
                        raise Unknown('a stale position is handed to %s' % sn)
                    res = ('ptr', newver, pv[2])
            st.ver = newver
            if sn in SIZE_MUT:
                st.sver += 1
            return res
        return TOP

    def run(self, n, st):
        """returns list of states that fall through"""
        if n is None:
            return [st]
        if isinstance(n, list):
            cur = [st]
            for s in n:
                nxt = []
                for c in cur:
                    nxt += self.run(s, c)
                cur = nxt
            return cur
        k = n.get('k')
        if 'assert' in (n.get('mac') or []) or 'arg:assert' in (n.get('mac') or []):
            return [st]
        if k == 'block':
            return self.run(n.get('s', []), st)
        if k == 'decl':
            for v in n.get('vars', []):
                st.env[v['did']] = self.ev(v['init'], st) if v.get('init') is not None else TOP
            return [st]
        if k == 'if':
            if isinstance(n.get('var'), dict) and n['var'].get('init') is not None:
                st.env[n['var']['did']] = self.ev(n['var']['init'], st)
            self.ev(n.get('c'), st)
            cv = (A.strip(n.get('c')) or {}).get('cv')
            outs = []
            if cv is None or cv:
                outs += self.run(n.get('then'), st.copy())
            if cv is None or not cv:
                outs += self.run(n.get('else'), st.copy()) if n.get('else') is not None else [st.copy()]
            return outs
        if k == 'ret':
            v = self.ev(n.get('e'), st) if n.get('e') is not None else TOP
            self.returns.append((v, st.ver, n))
            return []
        if k == 'try':
            return self.run(n.get('body'), st)          # handlers roll back and rethrow (RETHROW)
        if k == 'throw':
            return []
        if k in A.LOOPS:
            raise Unknown('loop')
        if k in ('null', 'break', 'continue'):
            return [st]
        self.ev(n, st)
        return [st]


def elem_ptr_param(f):
    for i, p in enumerate(f.get('params', [])[:2]):
        t = p['t'].replace('const ', '').strip()
        if t.endswith('*') and not t.endswith('**'):
            return i
    return None


def fmt(x):
    return ' '.join('%+d*%s' % (v, k or '1') for k, v in sorted(x.items())) or '0'


def ret_pos(progs):
    rr = RuleResult('RET-POS', 'insert / emplace / erase / insert_range (and adjustCapacity) return the index of the position they were given, in the '
                               'storage that is current when they return (abstract interpretation: storage versions x linear offsets)')
    seen = set()
    for prog in progs:
        for f in prog.amc_functions():
            body = f.get('body')
            if body is None or f.get('clsq') not in CLASSES or short(f['name']) not in POS_RETURNING:
                continue
            pi = elem_ptr_param(f)
            if pi is None or not (f.get('ret') or '').rstrip().endswith('*'):
                continue
            ip = Interp(prog, f)
            st = State()
            for i, p in enumerate(f.get('params', [])):
                t = p['t'].replace('const ', '').strip()
                if t.endswith('**'):
                    st.params[('deref', i)] = ('ptr', 0, {'P': 1})
                elif t.endswith('*') and i == pi:
                    st.params[i] = ('ptr', 0, {'P': 1})
                elif t.endswith('*'):
                    st.params[i] = ('ptr', 0, {'Q%d' % i: 1})
                elif A.width(p['t']):
                    st.params[i] = ('int', {p['name'] or 'p%d' % i: 1})
            why = None
            try:
                ip.run(body, st)
            except Unknown as e:
                if str(e) == 'loop':
                    rr.broken = rr.broken or 'RET-POS: cannot interpret %s (loop)' % f['pname'][:90]
                    continue
                why = str(e)
            bad = None
            if why is None:
                for v, ver, node in ip.returns:
                    if v[0] != 'ptr':
                        why, bad = 'returns a value that is not derived from the position argument or from begin()', node
                    elif v[1] != ver:
                        why, bad = 'returns a position computed in a storage that a later call may have replaced (stale iterator)', node
                    elif v[2] != {'P': 1}:
                        why, bad = 'returns begin() + [%s] where P is the index of the position argument: not that index' % fmt(v[2]), node
                    if why:
                        break
            key = '%s' % f['key']
            rr.instance('%s|%s' % (key, prog.uname), {'function': f['pname'][:140], 'returns': len(ip.returns), 'verdict': why or 'index of the position argument, current storage'})
            if why and key not in seen:
                seen.add(key)
                rr.add(Finding('RET-POS', key, prog.site(f, bad) if bad is not None else f['loc'],
                               '%s %s: std::vector returns the iterator to the first inserted element / the element following the erased ones, i.e. '
                               'the index of the position argument' % (short(f['name']), why), where=f['pname'], unit=prog.uname))
    return rr
