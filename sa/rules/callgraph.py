"""Rules decided on the resolved call graph (who-may-call / reachability / effects)."""
import re

from ..lib.core import RuleResult, Finding, short, walk, rel
from ..lib import ast as A

ALLOC_REQUEST = {'malloc', 'calloc', 'realloc', 'aligned_alloc', 'posix_memalign', 'operator new', 'operator new[]',
                 'std::get_temporary_buffer', 'std::__get_temporary_buffer'}
ALLOC_METHODS = {'allocate', 'reallocate', 'allocate_at_least'}
RELEASE = {'free', 'operator delete', 'operator delete[]'}
RELEASE_METHODS = {'deallocate'}
BYTECOPY = {'memcpy', 'memmove', 'realloc', '__builtin_memcpy', '__builtin_memmove', '__builtin_realloc',
            'std::memcpy', 'std::memmove'}


def is_alloc_request(f):
    n = f['name']
    if n in ALLOC_REQUEST:
        return True
    return short(n) in ALLOC_METHODS and f.get('kind') == 'method'


def is_release(f):
    n = f['name']
    if n in RELEASE:
        return True
    return short(n) in RELEASE_METHODS and f.get('kind') == 'method'


def entry_points(prog):
    return [f for f in prog.fns.values() if f.get('main') and f.get('hasbody')]


def norm_ptr(t):
    return re.sub(r'\b(const|volatile)\b\s*', '', t).strip()


def fmt_path(path):
    return ' -> '.join(p['pname'][:110] for p in path)


# ------------------------------------------------------------------------------ NOALLOC
def noalloc(progs, rr=None, what='FixedCapacityVector'):
    """From no function reachable from the entry points of a FixedCapacityVector unit is an
    allocation request reachable (std callee bodies included)."""
    rr = rr or RuleResult('NOALLOC', 'no allocation request is reachable from any member of a %s instantiation' % what)
    for prog in progs:
        for e in entry_points(prog):
            reach = prog.reachable(e['id'])
            nfun = 0
            for fid in reach:
                f = prog.fns.get(fid)
                if f is None:
                    continue
                nfun += 1
                if is_alloc_request(f):
                    path = prog.path(e['id'], lambda x: x['id'] == fid)
                    first_amc = next((p for p in path if p.get('amc')), e)
                    rr.add(Finding('NOALLOC', '%s|%s' % (first_amc['key'], f['name']), first_amc['loc'],
                                   'allocation request %s is reachable from a %s operation: %s' % (f['key'], what, fmt_path(path)),
                                   where=first_amc['pname'], unit=prog.uname))
            # one instance per amc function that was proven allocation-free in this instantiation
            for fid in reach:
                f = prog.fns.get(fid)
                if f is not None and f.get('amc') and f.get('hasbody'):
                    rr.instance(rel(f['loc']), {'function': f['pname'][:160], 'unit': prog.uname,
                                                'verdict': 'no allocation request reachable',
                                                'callees_followed': len(prog.reachable(fid))})
    return rr


# ------------------------------------------------------------------------------ MEMOP
def memop(progs_nonreloc, progs_reloc):
    """Raw byte copies move elements only when the trait allows: in an instantiation whose E is
    not relocatable no memcpy/memmove/realloc has an E* argument; for relocatable E such sites exist."""
    rr = RuleResult('MEMOP', 'no byte copy (memcpy/memmove/realloc, also inside std algorithm bodies) touches an E* '
                             'in instantiations whose element type is not relocatable; they do for relocatable ones')

    def sites(prog, E):
        out = []
        for f in prog.fns.values():
            for bc in f.get('bytecopies', []):
                if any(norm_ptr(t) == E + ' *' for t in bc['argt']):
                    out.append((f, bc['name'], bc['l']))
            if f.get('body') is not None:
                for c in A.calls(f['body']):
                    if A.callee(c) in BYTECOPY or A.cshort(c) in ('memcpy', 'memmove', 'realloc'):
                        ts = [A.strip(a).get('t', '') for a in c.get('args', []) if isinstance(a, dict)]
                        if any(norm_ptr(t) == E + ' *' for t in ts):
                            out.append((f, A.callee(c), prog.site(f, c)))
        return out

    for prog, E in progs_nonreloc:
        found = sites(prog, E)
        nf = sum(1 for f in prog.fns.values() if f.get('hasbody'))
        rr.instance('nonreloc|%s' % prog.uname, {'unit': prog.uname, 'element': E, 'functions_scanned': nf,
                                                  'byte_copies_on_E*': len(found)})
        for f, name, loc in found:
            rr.add(Finding('MEMOP', '%s|%s|%s' % (f['key'], name, E), loc,
                           '%s is applied to %s*, but %s is neither trivially copyable nor declared relocatable' % (name, E, E),
                           where=f['pname'], unit=prog.uname))
    npos = 0
    for prog, E in progs_reloc:
        found = sites(prog, E)
        npos += len({(f['name'], loc) for f, name, loc in found})
        for f, name, loc in found:
            rr.instance('reloc|%s|%s' % (f['key'], rel(loc)), {'unit': prog.uname, 'element': E, 'byte_copy': name,
                                                               'in': f['pname'][:140], 'site': rel(loc)})
    rr.notes.append('positive sites (byte copies on relocatable E*): %d' % npos)
    return rr, npos


# ------------------------------------------------------------------------------ REALLOC-TR
def realloc_tr(points):
    """points: list of (prog, E, reloc: bool, alloc_has_realloc: bool)."""
    rr = RuleResult('REALLOC-TR', "the allocator's reallocate / realloc is reachable from a vector instantiation only "
                                  'when the element type is trivially relocatable')
    for prog, E, reloc, has_re in points:
        reached = []
        for e in entry_points(prog):
            for fid in prog.reachable(e['id']):
                f = prog.fns.get(fid)
                if f is None:
                    continue
                if f['name'] in ('realloc', '__builtin_realloc') or (short(f['name']) == 'reallocate' and f.get('kind') == 'method'
                                                                    and not f['name'].startswith('amc::BasicAllocatorWrapper')):
                    reached.append((e, f))
        rr.instance('%s' % prog.uname, {'unit': prog.uname, 'element': E, 'relocatable': reloc, 'allocator_offers_reallocate': has_re,
                                        'reallocate_reachable': bool(reached)})
        if reached and not reloc:
            e, f = reached[0]
            path = prog.path(e['id'], lambda x: x['id'] == f['id'])
            first_amc = next((p for p in reversed(path) if p.get('amc')), e)
            rr.add(Finding('REALLOC-TR', '%s|%s' % (first_amc['key'], f['name']), first_amc['loc'],
                           '%s is reachable for the non-relocatable element type %s: %s' % (f['key'], E, fmt_path(path)),
                           where=first_amc['pname'], unit=prog.uname))
        if reloc and has_re and not reached:
            rr.notes.append('%s: reallocate not used although possible (performance only)' % prog.uname)
    return rr


# ------------------------------------------------------------------------------ THROW-REACH
# element operations and allocator requests of the archetypes: the throwing events C09 quantifies over
THROWING_ARCH = re.compile(r'^arch::(TC|TRnc|NTR|NTRtm|OptOut|MoveOnly|ReallocAlloc|ArenaAlloc)::')


STD_ALLOC_FAILURE = {'std::__throw_bad_alloc', 'std::__throw_bad_array_new_length', 'std::__throw_length_error'}


def throw_sources(prog):
    """The throwing events the properties quantify over: throw expressions of amc and of user code (element types, comparators
    of a real TU), allocator requests (operator new, the allocation-failure helpers of libstdc++, the archetype allocators) and
    the element operations of the archetypes that are not declared noexcept.  Other exceptions raised inside the standard
    library (bad_variant_access of a valueless variant, bad_optional_access, ...) are not among them."""
    src = {}
    for fid, f in prog.fns.items():
        n = f['name']
        if f.get('hasbody'):
            th = [t for t in f.get('throws', []) if t != 'rethrow']
            if th and not f.get('swallows') and not f.get('std'):
                src[fid] = 'throw %s' % th[0]
        else:
            if f.get('nothrow'):
                continue
            if THROWING_ARCH.match(n) or n in ('operator new', 'operator new[]') or n in STD_ALLOC_FAILURE:
                src[fid] = 'may throw by contract (%s)' % n
    return src


def may_throw_set(prog):
    """Functions from which a throw source is reachable without crossing a noexcept(true) callee."""
    src = throw_sources(prog)
    callers = {}
    for fid, f in prog.fns.items():
        for c in f.get('calls', []):
            callers.setdefault(c, []).append(fid)
    may = {}
    work = list(src)
    for s in src:
        may[s] = (None, src[s])
    while work:
        x = work.pop()
        fx = prog.fns[x]
        if fx.get('nothrow') and x not in src:
            continue  # exceptions do not leave a noexcept function
        if fx.get('nothrow') and x in src and fx.get('hasbody'):
            continue
        for c in callers.get(x, []):
            if c not in may:
                fc = prog.fns[c]
                if fc.get('swallows'):
                    continue
                may[c] = (x, None)
                work.append(c)
    return may, src


def throw_reach(progs, discharge=None):
    rr = RuleResult('THROW-REACH', 'no amc function whose evaluated exception specification is noexcept(true) can reach a '
                                   'throw source (throw expression, allocator request, may-throw element operation)')
    for prog in progs:
        may, src = may_throw_set(prog)
        for fid, f in prog.fns.items():
            if not (f.get('amc') and f.get('hasbody') and f.get('nothrow')):
                continue
            rr.instance('%s|%s' % (f['key'], rel(f['loc'])),
                        {'function': f['pname'][:160], 'unit': prog.uname, 'noexcept': True,
                         'reaches_throw_source': fid in may})
            if fid in may:
                chain = [f]
                x = fid
                while may[x][0] is not None:
                    x = may[x][0]
                    chain.append(prog.fns[x])
                reason = src.get(x, '')
                fin = Finding('THROW-REACH', '%s' % f['key'], f['loc'],
                              'declared noexcept (evaluates to true here) but can reach %s: %s  - an exception would call std::terminate'
                              % (reason, fmt_path(chain)), where=f['pname'], unit=prog.uname,
                              facts={'chain': [c['pname'][:120] for c in chain]})
                if discharge and discharge(prog, f, chain):
                    rr.notes.append('discharged by path fact: %s' % fin.key)
                    continue
                rr.add(fin)
    return rr


# ------------------------------------------------------------------------------ CONST-PURE / NO-STATIC
def no_static(progs):
    rr = RuleResult('NO-STATIC', 'no amc class has a mutable field; no variable of static or thread storage duration in '
                                 'the amc headers is writable (only constexpr / const constants)')
    for prog in progs:
        for r in prog.records:
            if not r.get('amc') or r.get('lambda'):
                continue
            if not r['loc'].startswith('/') or '/include/amc/' not in r['loc']:
                continue
            for fd in r['fields']:
                rr.instance('field|%s|%s' % (r['qname'], fd['name']), {'record': r['name'][:120], 'field': fd['name'],
                                                                       'mutable': fd['mutable']})
                if fd['mutable']:
                    rr.add(Finding('NO-STATIC', 'mutable|%s|%s' % (r['qname'], fd['name']), fd['l'],
                                   'mutable field %s::%s can be written by const operations (data race under concurrent const access)'
                                   % (r['qname'], fd['name']), where=r['name'], unit=prog.uname))
        for g in prog.statics:
            rr.instance('static|%s' % g['name'], {'variable': g['name'], 'constexpr': g['constexpr'], 'const': g['const']})
            if not (g['constexpr'] or g['const']) or g['tls']:
                rr.add(Finding('NO-STATIC', 'static|%s' % g['name'], g['loc'],
                               'writable %s variable %s in an amc header is shared between all containers and threads'
                               % ('static local' if g['staticlocal'] else 'static-storage', g['name']), unit=prog.uname))
    return rr


def pointee_const(t):
    """Is the pointee / referee of this pointer or reference type const-qualified?  None if t is neither."""
    t = t.strip()
    if t.endswith('&&'):
        inner = t[:-2]
    elif t.endswith('&'):
        inner = t[:-1]
    else:
        m = re.match(r'^(.*)\*\s*((const|volatile|__restrict)\s*)*$', t)
        if not m:
            return None
        inner = m.group(1)
    inner = inner.strip()
    if inner.endswith('*'):
        return False
    if re.search(r'\*\s*const$', inner):
        return True
    head = inner.split('<')[0]
    return head.startswith('const ') or inner.endswith(' const') or head.startswith('volatile const ')


def _removes_const(frm, to):
    """cast from pointer/reference-to-const to pointer/reference-to-non-const."""
    a, b = pointee_const(frm), pointee_const(to)
    if a is None or b is None:
        return False
    return a and not b


def const_pure(progs):
    """Every function reachable (through amc callees) from a public const member, with `this`
    (or a pointer/reference-to-const parameter) designating the shared object, performs no write to it."""
    rr = RuleResult('CONST-PURE', 'no function reachable from a public const member casts const away from, stores through, '
                                  'or calls a non-const member on the shared object; locals excepted')
    for prog in progs:
        visited = set()
        work = []
        for f in prog.amc_functions():
            if f.get('lambda'):
                continue
            ps = f.get('params', [])
            if f.get('const') and f.get('access') == 'public':
                # a const member: this and every parameter that can refer to const data may be the shared object
                work.append((f['id'], True, frozenset(i for i, p in enumerate(ps) if pointee_const(p['t']))))
            elif f.get('kind') == 'ctor' and f.get('access') == 'public' and ps and f.get('cls') and \
                    ps[0]['t'].replace('const ', '').replace('&', '').strip() == f['cls']:
                # copy construction from a (possibly shared) const container
                if pointee_const(ps[0]['t']):
                    work.append((f['id'], False, frozenset({0})))
        while work:
            fid, shared_this, shared_params = work.pop()
            if (fid, shared_this, shared_params) in visited:
                continue
            visited.add((fid, shared_this, shared_params))
            f = prog.fns.get(fid)
            if f is None or not f.get('amc') or f.get('body') is None:
                continue
            body = f['body']
            linit = A.local_inits(body)
            site_key = '%s|%s' % (f['key'], rel(f['loc']))
            rr.instance(site_key, {'function': f['pname'][:160], 'unit': prog.uname, 'this_is_shared': shared_this,
                                   'shared_params': sorted(shared_params), 'verdict': 'reads only'})

            def param_type(r):
                i = r.get('idx')
                ps = f.get('params', [])
                return ps[i]['t'] if i is not None and i < len(ps) else r.get('t', '')

            def is_shared(n):
                kind, r = A.root(n, linit)
                if kind == 'this':
                    return shared_this
                if kind == 'param':
                    return r.get('idx') in shared_params
                return kind in ('global',)

            whole = {'b': body, 'i': f.get('inits')}
            # (1) casts that shed const from something rooted in the shared object
            for n in walk(whole):
                if n.get('k') == 'cast' and n.get('ck') in ('const', 'cstyle', 'reinterpret', 'functional'):
                    if _removes_const(n.get('from', ''), n.get('t', '')) and is_shared(n.get('sub')):
                        kind, r = A.root(n.get('sub'), linit)
                        if kind == 'param' and not pointee_const(param_type(r)):
                            continue   # a const added and removed again inside one expression sheds nothing
                        rr.add(Finding('CONST-PURE', '%s|cast' % f['key'], prog.site(f, n),
                                       'const is cast away from the shared object inside a function reachable from the const API'
                                       ' (%s -> %s)' % (n.get('from'), n.get('t')), where=f['pname'], unit=prog.uname))
            # (2) stores: the type system protects fields of a const object, not what its pointer members point to
            for st, lhs in A.stores(body):
                l0 = A.strip(lhs)
                if isinstance(l0, dict) and l0.get('k') == 'ref' and l0.get('dk') == 'local':
                    continue      # the local variable itself is written (e.g. ++current), nothing it points to
                kind, r = A.root(lhs, linit)
                if kind == 'global':
                    rr.add(Finding('CONST-PURE', '%s|store-global|%s' % (f['key'], r.get('name')), prog.site(f, st),
                                   'store to static-storage variable %s in a function reachable from the const API' % r.get('name'),
                                   where=f['pname'], unit=prog.uname))
                elif kind == 'this' and shared_this:
                    rr.add(Finding('CONST-PURE', '%s|store-this' % f['key'], prog.site(f, st),
                                   'store through the shared object (via a pointer member or a mutable field) in a function '
                                   'reachable from the const API', where=f['pname'], unit=prog.uname))
                elif kind == 'param' and r.get('idx') in shared_params:
                    pt = param_type(r)
                    direct = l0 is r
                    if direct and not pt.rstrip().endswith('&'):
                        continue      # the callee's own copy (iterator, count)
                    rr.add(Finding('CONST-PURE', '%s|store-param|%s' % (f['key'], r.get('name')), prog.site(f, st),
                                   'store through parameter %s (%s), which can designate the shared object, in a function reachable from the const API' % (r.get('name'), pt),
                                   where=f['pname'], unit=prog.uname))
            # (2b) / (3) calls
            for c in A.calls(whole):
                callee_rec = prog.fns.get(c.get('fn')) if c.get('fn') else None
                cps = callee_rec.get('params', []) if callee_rec else []
                args = c.get('args', []) or []
                sh = set()
                for i, a in enumerate(args):
                    if not isinstance(a, dict) or i >= len(cps):
                        continue
                    if not is_shared(a):
                        continue
                    pt = cps[i]['t']
                    pc = pointee_const(pt)
                    if pc is None:
                        continue          # by value: a copy
                    sh.add(i)
                    if pc or pt.rstrip().endswith('&&'):
                        continue
                    # mutable access to the shared object handed to a callee
                    at = A.strip(a).get('t', '')
                    if pt.rstrip().endswith('&'):
                        mutable_arg = a.get('lv') and not (at.startswith('const ') or at.endswith(' const'))
                    else:
                        mutable_arg = pointee_const(at) is False
                    if mutable_arg:
                        rr.add(Finding('CONST-PURE', '%s|escape|%s' % (f['key'], short(callee_rec['name'])), prog.site(f, c),
                                       'mutable access to the shared object (argument %d, %s) is handed to %s, which takes it as %s'
                                       % (i, at, callee_rec['name'], pt), where=f['pname'], unit=prog.uname))
                cid = c.get('fn')
                if not c.get('amc') or cid is None:
                    continue
                if c.get('k') == 'call' and c.get('method') and c.get('obj') is not None and not c.get('staticm'):
                    obj_shared = is_shared(c['obj'])
                    if not c.get('constm') and obj_shared:
                        rr.add(Finding('CONST-PURE', '%s|nonconst-call|%s' % (f['key'], short(c.get('name', ''))), prog.site(f, c),
                                       'non-const member %s is called on the shared object from the const API' % c.get('pname', '')[:120],
                                       where=f['pname'], unit=prog.uname))
                    work.append((cid, bool(obj_shared), frozenset(sh)))
                else:
                    work.append((cid, False, frozenset(sh)))
            for n in walk(body):
                if n.get('k') == 'lambda' and n.get('fn'):
                    work.append((n['fn'], False, frozenset()))
    return rr


# ------------------------------------------------------------------------------ BYTECMP
BYTE_COMPARE = {'memcmp', '__builtin_memcmp', 'bcmp', 'std::memcmp'}
BITWISE_EQ_TYPES = {'bool', 'char', 'signed char', 'unsigned char', 'short', 'unsigned short', 'int', 'unsigned int', 'long', 'unsigned long', 'long long',
                    'unsigned long long', 'wchar_t', 'char16_t', 'char32_t'}


def bytecmp(points):
    """points: [(prog, E)]: elements are compared for equality only through their own operator==, unless E is an integral type
    (for which bitwise and value equality coincide).  memcmp over double (0.0 == -0.0, NaN != NaN) or over a class is a finding."""
    rr = RuleResult('BYTECMP', 'elements are compared through their own operator==: no memcmp over an E* unless E is an integral type')
    for prog, E in points:
        bitwise_ok = E in BITWISE_EQ_TYPES or E.endswith('*')
        n = 0
        for f in prog.fns.values():
            hits = []
            for bc in f.get('bytecopies', []):
                if bc['name'] in BYTE_COMPARE and any(norm_ptr(t) == E + ' *' for t in bc['argt']):
                    hits.append((bc['name'], bc['l']))
            if f.get('body') is not None:
                for c in A.calls(f['body']):
                    if A.callee(c) in BYTE_COMPARE or A.cshort(c) in ('memcmp', 'bcmp'):
                        ts = [A.strip(a).get('t', '') for a in c.get('args', []) if isinstance(a, dict)]
                        if any(norm_ptr(t) == E + ' *' for t in ts):
                            hits.append((A.callee(c), prog.site(f, c)))
            for name, loc in hits:
                n += 1
                if not bitwise_ok:
                    rr.add(Finding('BYTECMP', '%s|%s' % (f['key'], E), loc,
                                   '%s compares %s objects byte-wise: for this type bitwise equality is not operator== (e.g. 0.0 == -0.0 but their bytes differ, '
                                   'NaN != NaN but its bytes are equal)' % (name, E), where=f['pname'], unit=prog.uname))
        rr.instance('%s' % prog.uname, {'unit': prog.uname, 'element': E, 'bitwise_equality_is_value_equality': bitwise_ok, 'byte_comparisons_on_E*': n})
    return rr


# ------------------------------------------------------------------------------ SAMETYPE
def bytecopy_sametype(progs):
    """A byte copy between two ranges is a copy of objects only if both have the same value type."""
    rr = RuleResult('SAMETYPE', 'every memcpy / memmove issued by amc copies between pointers to the same value type (a copy between different '
                                'types must convert each element, as the standard algorithm does)')
    for prog in progs:
        for f in prog.amc_functions():
            body = f.get('body')
            if body is None:
                continue
            for c in A.calls(body):
                if not (A.callee(c) in BYTECOPY or A.cshort(c) in ('memcpy', 'memmove', '__builtin_memcpy', '__builtin_memmove')) or len(c.get('args', [])) < 2:
                    continue
                ts = [norm_ptr(A.strip(a).get('t', '')) for a in c['args'][:2]]
                if not all(t.endswith('*') for t in ts) or any(t.startswith('void') for t in ts):
                    continue
                ok = ts[0] == ts[1]
                rr.instance('%s|%s|%s' % (f['key'], ts[0], ts[1]), {'function': f['pname'][:140], 'destination': ts[0], 'source': ts[1], 'ok': ok})
                if not ok:
                    rr.add(Finding('SAMETYPE', '%s|%s' % (f['key'], A.cshort(c)), prog.site(f, c),
                                   '%s copies bytes from %s to %s: objects of a different type are reinterpreted instead of converted'
                                   % (A.cshort(c), ts[1], ts[0]), where=f['pname'], unit=prog.uname))
    return rr
