#!/usr/bin/env python3
"""Regenerates MANIFEST.json from the table below (kept in one place so it stays valid)."""
import json, os
HERE = os.path.dirname(os.path.dirname(os.path.abspath(__file__)))

CHECKS = {}
NA = {}

def check(pid, technique, text, note, design):
    CHECKS[pid] = dict(technique=technique, text=text, note=note, design=design)

check('C17', 'compile-time witness matrix (static_assert) decided by clang++ and g++ constant evaluation against an independent constexpr oracle',
      'All clauses of C17 are compile-time constants; the generated witness matrix decides each instance exactly (element kinds x N x size_type x standard x two front ends). Decided in full for the enumerated matrix.',
      'Trusted: the compilers\' constant evaluators and record layout for x86-64; the oracle in sa/drivers/oracle.hpp transcribes the property statement.',
      'DESIGN.md section 4, C17')

check('C20', 'effect analysis over the resolved call graph of the instantiated program (public const API cone: no mutable/static state, no const-shedding cast, no store or mutable escape through pointer members)',
      'Decides C20 in full for the analysed matrix: every function reachable from a public const member of every container and iterator only loads from the shared object; everything else is C++ const checking. Static proof of race-freedom of the const API, independent of schedules.',
      'Assumes element/comparator/allocator const operations are race-free and libstdc++ const algorithms do not write through const iterators; malloc/free thread-safe.',
      'DESIGN.md section 4, C20')

check('C05', 'call-graph reachability (no allocation request reachable from any FixedCapacityVector member) + guard/encoding shape rules for SmallVector',
      'FixedCapacityVector clause decided in full (NOALLOC on the complete call graph of every instantiation). SmallVector/SmallSet: structural clauses only, see evidence.',
      'Also: ENC-SIB / SHRINK-INLINE (the three encoders agree; shrink_to_fit returns to the inline storage exactly when size <= N, element types with throwing moves included), NEED-SIZE (capacity requests are derived from element counts, never from the capacity of another container). Does not decide capacity()==N as a run-time relation; see DESIGN.md C05.',
      'DESIGN.md section 4, C05')

check('C07', 'call-graph exclusion (capacity-changing callees reachable only through grow) + control-dependence of every grow call on a capacity comparison + abstract interpretation of the growth function',
      'Decides in full, for the analysed matrix, the clauses "capacity never decreases except through shrink_to_fit/move/swap", "an operation whose result fits does not reallocate" and "after reserve(n) capacity()>=n"; structural only for size()<=capacity().',
      'Also: GROW-LAYOUT (grow / shrink / resetToSmall interpreted over the whole object - size words, storage pointer, inline / owned / new block, allocator events - once per state of the inline encoding: elements relocated completely and in order, words decode to the same size and the new capacity, old block given back once with its capacity). Also: RESERVE-POST (every path through reserve(n) grows or has compared n with capacity() itself), NEED-SIZE, MAX-SIZE (max_size() is the maximum of size_type for the dynamic vectors - signed archetypes included - and the capacity for the fixed ones). Partial: run-time inequalities and preserved element addresses over histories are not decided; see DESIGN.md C07.',
      'DESIGN.md section 4, C07')

check('C08', 'rule instances over the instantiated program: throw-type/condition table, computation-type (integral promotion) check of every capacity request, growth-function interpretation',
      'Decides the error-type clauses and "no size computation wraps around" per size_type archetype; check-before-mutation and leak clauses come from the typestate rules listed in the evidence.',
      'Also: THROW-REACH (no noexcept(true) function, the ADL swap between different N included, reaches the capacity check: the caller gets the exception, not std::terminate), CHECK-FIRST (path-sensitive: the limit test precedes the first modification), EXACT-WHO (no uintmax_t request reaches the exact path of SafeNextCapacity, which has no overflow test), strictness of the swap_sizetype range test, RANGE-MEASURE (a multi-pass range is measured and tested against the limit once, before anything is modified). Partial: "contents exactly as before" is decided in its structural form.',
      'DESIGN.md section 4, C08')

check('C18', 'abstract interpretation (affine lower bounds with clamp) of the growth function + loop/once-per-path rule for capacity adjustments',
      'The reallocation bound follows for every n from two static facts: growth factor a with a*a>=2 (derived: 3/2) and at most one grow with one allocator request per appended element; decided for every size_type archetype.',
      'Also: GROW-LAYOUT (grow / shrink / resetToSmall interpreted over the whole object - size words, storage pointer, inline / owned / new block, allocator events - once per state of the inline encoding: elements relocated completely and in order, words decode to the same size and the new capacity, old block given back once with its capacity). Also: EXACT-WHO (no element-adding operation reaches an exact request), GROW-BASIS (SafeNextCapacity is given the current capacity, never the word holding the size), SHRINK-INLINE, SHRINK-ALL (shrink_to_fit of amc::vector reduces the capacity whenever it differs from size(), with no further condition). Trusted: constant folding of numeric_limits; arithmetic from the factor to 2*ceil(log2 n)+4 is in the evidence explanation.',
      'DESIGN.md section 4, C18')

check('C09', 'typestate analysis on the structured bodies of the instantiated program (slot holes, pending temporaries, uncommitted raw constructs, size commits) with may-throw points taken from the resolved call graph and evaluated exception specifications',
      'Decides the static form of both guarantees for every may-throw point of every vector operation and memory algorithm: an opened slot range is closed by a handler, a constructed-but-invisible object is destroyed, nothing observable changes before the last may-throw call of a strong operation, no noexcept function reaches a throw. Covers all throw indices k at once because it quantifies over program points, not runs.',
      'Also: DEAD-TAIL (no may-throw call between destroying counted elements and the size commit), BLOCK (a fresh block held by a local is owned or given back on every exit, scope guards understood), RETHROW (no handler swallows), CLOSER (the roll-back helpers are symbolically the inverse of shift_right), CURSOR (roll-back cursors advance after the construct), RANGE-MEASURE. Partial: values after a failed operation, std::sort/inplace_merge internals and throwing destructors are not decided. The defects these rules found in the pinned tree (F8-F10, F18, F20, F21) are repaired; known_findings.txt holds no open finding.',
      'DESIGN.md section 4, C09')

check('C10', 'effect-ordering (typestate) analysis: no read of an element-reference argument after an element-moving effect, with the re-basing overloads checked by the same engine',
      'Decides, for every operation of C10 x flavour x element category, that the argument is only read before any element is moved/destroyed/reallocated or through the re-based reference; a necessary and (with C01) sufficient condition for "as if copied first".',
      'Mutating members of this (clear, erase, ...) count as element-moving effects; pointer re-basing idioms are interpreted exactly. Partial: the resulting sequence itself is C01. rvalue arguments are assumed not to alias (as std::vector).',
      'DESIGN.md section 4, C10')

check('C01', 'array-segmentation abstract interpretation of every inserting / removing / replacing vector member (segment bounds = linear forms over size, position, count; Fourier-Motzkin constraint store; helpers inlined; memory algorithms as transformers; final storage compared with the std::vector result) + typestate / dataflow rules over the instantiated program (size-word write discipline, capacity-check dominance, single-pass iterator use, union-alternative state) + record-layout facts',
      'SEG-LAYOUT decides, for every instantiation of the matrix and every N, P, C at once, that each of insert x5 / emplace / erase x2 / push_back / emplace_back / pop_back / clear / resize x2 / assign x3 / append x4 leaves on every normal path exactly the storage std::vector leaves (which slot holds which old element, the new elements in order, size(), nothing alive beyond it): the one-step refinement of C01 for these operations, multi-pass ranges, normal paths. Plus structural clauses each necessary for C01 (inline encoding discipline, inline span, single traversal of input ranges, capacity check before every construct, size commit follows lifetime op). Sequences over whole histories follow by induction only for the operations covered; exceptional paths, single-pass ranges, swap / assignment operators and element values are not decided by it.',
      'Also decided: RET-POS (abstract interpretation - storage versions x linear offsets - of every position-returning member: the returned iterator is the index of the position argument in the current storage), VALUE-INIT (who-may-call: no default-initialisation in the vector classes), BYTECMP, ALIAS, result types (SIG witnesses), XCHG-LAYOUT (swap_impl / move_construct / move_assign of SmallVectorBase interpreted with two objects for every pair of states of the inline encoding: each vector decodes afterwards to the size and elements it was to receive, a moved-from vector is empty and inline, every heap block ends owned once or released once with its capacity; XCHG-STD: the same for StdVectorBase), UNION-STATE (the heap pointer of the pointer / inline-elements union is read only where the vector is known to be on the heap; requirements of private helpers travel to their call sites), SIGN-DIFF (no difference of two unsigned sizes is computed in the narrow unsigned type and then widened to a signed one). Partial: necessary conditions only; element sequences over histories are not decided.',
      'DESIGN.md section 4, C01')

check('C02', 'who-may-call analysis of byte copies over the resolved call graph (incl. libstdc++ bodies) per element archetype + overload-pair effect signatures + typestate (normal paths) + array-segmentation abstract interpretation with slot liveness (construct only on raw, assign / destroy / read only on alive, exactly [0,size()) alive on return)',
      'Second sentence of C02 decided in full for the matrix: no memcpy/memmove/realloc touches an E* for non-relocatable E anywhere in the call graph, reallocate only for relocatable E, overload pairs consistent. First sentence: necessary structural clauses (hole re-filled once, size commits matched, no self-assignment, temporaries released, destructor layer present).',
      'Also: SEG-LAYOUT (slot liveness of every element-moving vector member on normal paths, for every size / position / count: the static form of constructed-once / destroyed-once per operation, incl. no range move-assigned onto itself), SELF-MOVE (no element assigned from a possibly identical element designator of the same container), LIVE-COUNT (the "already constructed" count given to move_n / assign_n / fill is the size at the call), SHIFT-KEEP (for element types that are not trivially relocatable shift_right neither destroys nor relocates the vacated slots: its consumers assign onto them). Partial: exactly-once as a count over histories is not decided.',
      'DESIGN.md section 4, C02')

check('C06', 'argument-provenance and typestate rules on allocator call sites (who passes which word), release-on-all-heap-paths analysis, hand-over effect analysis',
      'Decides that every deallocate/reallocate call site passes the block with the capacity word that travels with it, that every path that abandons or overwrites a storage pointer released the block first, that hand-over transfers pointer+capacity jointly without element operations, and that reallocate is reached only for relocatable element types.',
      'Also: XCHG-LAYOUT (block ownership and contents across swap_impl / move_construct / move_assign for every pair of states). Also: GROW-LAYOUT (grow / shrink / resetToSmall interpreted over the whole object - size words, storage pointer, inline / owned / new block, allocator events - once per state of the inline encoding: elements relocated completely and in order, words decode to the same size and the new capacity, old block given back once with its capacity). Also: UNION-STATE, BLOCK (fresh blocks owned or given back on every exit), XALLOC (buffers exchanged only between equal allocator type and size_type), STALE-READ (the capacity travels with the block in swap2). Partial: exactly-once as a count over histories and unequal stateful allocators are not decided.',
      'DESIGN.md section 4, C06')

check('C13', 'typestate rules over every swap2 instantiation (ordered flavour pairs): throw-before-mutation ordering, size-word write discipline, noexcept soundness on the call graph, capacity-check dominance',
      'Decides, for all ordered pairs of the flavour matrix, that a failing exchange throws before either operand is modified (and really throws rather than terminating), that sizes are exchanged through the encoding discipline, that the deep swap is capacity-checked and the buffer exchange touches no element; for pairs of SmallVectors the exchange of the element sequences itself is decided on normal paths (SWAP2-LAYOUT), for every pair swap_deep is.',
      'Also: SWAP2-LAYOUT (swap2_impl between two SmallVectors interpreted with two objects for every feasible pair of states after the capacity adjustment: each ends with the size and elements of the other in order, a valid encoding, one owner per block) and the helper contract of swap_deep (SEG-LAYOUT); EACH-OTHER, STALE-READ, XALLOC, ENC-SIB, strict swap_sizetype range test (THROW-TYPE), SWAP-WHO (swap_impl, which assumes equal inline capacity N, is only called with operands whose static type carries N). Partial: for the other flavour pairs the exchange of the element sequences is decided through swap_deep only; element values are not decided.',
      'DESIGN.md section 4, C13')

check('C03', 'who-may-construct rule on comparator-typed expressions, post-dominance of sort/merge/unique after bulk writes, control dependence of the node reset, comparator-call counting, type-level const-view witnesses',
      'Decides structural clauses necessary for C03: stored comparator used for every decision, every bulk writer re-establishes sorted+unique with a stable sort, insert(node) empties the node only on insertion, no mutable access to the sorted storage, every lookup is one binary search.',
      'Also: CMP-INIT (constructors / swap carry the comparator), NODE-MOVE / NODE-POS (a refused node keeps its value and reports the blocking element), LOOKUP-CASE (find / contains / count / equal_range / lower_bound / upper_bound evaluated per case of the key - nothing at or after it, absent with a successor, present - return what std::set returns), MUTATE-CASE (insert(value) / emplace / erase(key) evaluated in the same cases: what is inserted or erased where, and the (position, flag) / count returned, are those of std::set), MERGE-ORDER, EQ-ELEM (operator== / != compare the element sequences with the element equality, not with the comparator). Partial: equality with std::set over histories is not decided; the hint decision tree is C12.',
      'DESIGN.md section 4, C03')

check('C04', 'typestate analysis over SmallSet members with facts from isSmall()/isSmallContFull()/grow() per operand; membership-test dominance; comparator provenance',
      'Decides the state anchor of C04: exactly one of the two containers is written in each state on every path (incl. merge across template parameters), no add to the inline vector without a membership test, stored comparator everywhere, both backings analysed against the same rules.',
      'Also: SS-PAIR (replacing one container as a whole replaces or empties the other), LEX-SIB, SS-GROW, ITER-STATE, one-sided unguarded access (ALT-SIB), EQ-ELEM; SS-DUP requires the membership scan to cover the whole inline vector. SS-CASE evaluates insert(value) x2 / emplace / find / contains / count / erase(key) in each state (inline not full, inline full, large) for a present and an absent key against std::set semantics (abstract inline vector and set, helpers inlined): decided for these members on normal paths. Partial: observable equality with std::set over histories is not decided.',
      'DESIGN.md section 4, C04')

check('C11', 'typestate on the knowledge "large": results of removing calls are used only after re-testing the active container; sibling agreement of the alternative-selecting members; alternative access only in the matching state',
      'Decides that every iterator handed to the caller is built from the container active at the return (erase returns end() of the active container when the last element goes) and that begin/end/rbegin/rend/find agree on the alternative in both states.',
      'Also: POSTFIX-COPY (postfix ++ / -- return a copy taken before the step), ITER-STATE, NODE-POS, ARROW-STAR (operator-> is the address of operator*, forward and reverse), ERASE-RET (in the inline state SmallSet::erase returns what the erase of the inline vector returned, not the stale last). Partial: "visits every element exactly once" is inherited from the underlying containers (trusted).',
      'DESIGN.md section 4, C11')

check('C19', 'comparator-call counting on the structured paths of the instantiated lookup members (max over paths, interprocedural through amc callees), loop / linear-algorithm exclusion',
      'Decides the stated bounds for every n: one binary search + <=2 direct comparisons per FlatSet lookup (2*ceil(log2(n+1))+4 with the standard\'s bound), <=4 comparisons on the search-free paths of insert_hint, <=2N+2 for the inline state of SmallSet.',
      'That each correct hint takes a search-free, loop-free path is decided by the ordering interpretation of C12 (HINT-FREE), incl. the node overload handing its hint on; ONE-SCAN (each public SmallSet operation scans the inline vector at most once on any path). Trusted: ISO complexity clauses of lower_bound/upper_bound.',
      'DESIGN.md section 4, C19')

check('C14', 'provenance analysis of every value stored into a pointer field / heap-pointer slot of the container classes (never derived from this) + record-layout facts + compile-time trait matrix',
      'Decides the static argument for relocatability: no field of a container that claims the trait can hold an address of the object itself (so a byte copy is a faithful copy), the inline elements are inside the object, and each container claims the trait exactly when all its parts do (matrix incl. std::set backing => false).',
      'The trait matrix covers pair elements (each member position), non relocatable comparators / vectors inside FlatSet and FlatSet-backed SmallSet. Partial: the behaviour of the relocated object over further histories is the same object state and falls under C01/C03.',
      'DESIGN.md section 4, C14')

check('C15', 'per-language-standard analysis of the instantiated memory algorithms: all-paths-return (path engine), typestate clean-up rule on the construct loops, construct-before-destroy ordering, byte-copy who-may-call, compile-time signature witnesses, cross-standard effect-signature comparison',
      'Decides for c++11/14/17/20 (different implementations selected) that every algorithm returns on all paths with the standard result type, destroys its partial output on throw, relocates as construct-then-destroy with the sources alive until all constructs succeeded, and byte-copies only when the trait allows.',
      'Also: ADVANCE, EMUL-EFFECT (incl. value- vs default-initialisation from the initialisation style of the new-expressions), CURSOR, SAMETYPE (byte copies only between equal value types; cross-type copies instantiated), MEMALG-LAYOUT (each algorithm with its own body, raw-pointer instantiations: interpreted over an abstract source / destination range with a symbolic count - implementation modes inlined, memcpy / placement new / construct_at as transformers - the destination holds exactly the n source elements in order, the sources are untouched / alive / gone as specified, the returned positions are the standard ones), CONTIG (a multi-element byte copy takes both addresses from raw pointers: random access is not contiguity; reverse_iterator instantiated), DIRECT-INIT / CTOR-FWD (construct_at direct-initialises with perfectly forwarded arguments in every standard). Partial: value equality of the constructed objects is not decided.',
      'DESIGN.md section 4, C15')

check('C16', 'cross-configuration comparison of the instantiated program (structural hashes of every function body, API tables, effect signatures) over the lattice {c++11..20} x {extras on/off} x {NDEBUG on/off} + assert-purity + detection-idiom and constant witnesses',
      'Decides the static slice of C16: AMC_NONSTD_FEATURES and NDEBUG leave every function body unchanged (assert expansions aside, which are side-effect free), pedantic mode only hides the documented extras, SmallSet is absent before C++17, member sets agree across standards except the documented ones, #if alternatives have equal effect signatures and equal compile-time constants, no function falls off its end.',
      'ASSERT-PURE follows the callees of assert arguments (a single-pass range consumed by std::distance), effect signatures ignore branches the instantiated program cannot take and are compared per instantiation, the swappable-trait emulation is checked against unqualified-lookup + ADL witnesses, DIRECT-INIT compares the pre-C++20 construct_at emulation with std::construct_at. Partial: transcript equality of whole programs and undiagnosed undefined behaviour are not decided.',
      'DESIGN.md section 4, C16')

check('C12', 'abstract interpretation of every hinted entry point of FlatSet (recognised by shape: insert(hint, v), emplace_hint, the hinted helper) over the finite domain of orderings (value vs. up to three neighbours on each side of the hint, boundary flags), std::lower_bound given its specified result; in-place insertion + neighbour tests + erase modelled; delegation is an action of its own',
      'Decides C12 for the ordering abstraction, exhaustively: for each of the 112 consistent orderings the action taken by insert_hint (return an iterator / insert at a position / search + epilogue / un-hinted insert) is the right one, and no invalid position is dereferenced; insert(hint,v), emplace_hint and insert(hint,node) all forward to it. The behaviour of insert_hint depends on the set, the hint and the value only through this abstraction, because it touches them only through comparator calls and iterator equality.',
      'Assumes a strict weak ordering, a sorted duplicate-free set on entry (C03), and std::lower_bound / vector::insert as specified. A decision tree using constructs the interpreter does not model ends ANALYSIS-BROKEN.',
      'DESIGN.md sections 6 and 10.5, C12')

PENDING = []
for p in PENDING:
    if p not in CHECKS:
        NA[p] = 'static check not registered yet in this revision (see DESIGN.md section 4 for the plan); nothing is claimed for it until its rules pass the both-ways self-test'
# C12 was listed as not applicable in the design; it is decided by abstract interpretation over the finite domain of orderings (DESIGN.md 10.5)

def main():
    m = {
        'version': 1,
        'setup_cmd': './setup.sh',
        'hooks': {
            'guard': 'AMC_VERIF',
            'enable': 'no hook is needed: every rule reads the unmodified headers (the guard name is reserved, no source commit uses it)',
            'baseline_off_cmd': 'cmake -G Ninja -S /repo -B /repo/_build >/dev/null && cmake --build /repo/_build && ctest --test-dir /repo/_build -j8 --timeout 900',
            'source_commits': [],
            'add_only': True,
        },
        'engines': [
            {'name': 'amcsa', 'path': 'sa/plugin/amcsa.cc', 'serves_properties': sorted(CHECKS),
             'kind_free_text': 'clang-14 frontend plugin exporting the template-instantiated, overload-resolved program (call graph with evaluated exception specifications, structured bodies, record layouts) as facts; rules in sa/rules/*.py decide on those facts'},
            {'name': 'witness', 'path': 'sa/witness.py', 'serves_properties': ['C17', 'C14', 'C16'],
             'kind_free_text': 'generated static_assert / detection-idiom matrices decided by clang++ and g++ -fsyntax-only'},
        ],
        'checks': [],
        'not_applicable': [{'property_id': p, 'reason': r} for p, r in sorted(NA.items()) if p not in CHECKS],
        'notes': 'Technique family: static analysis only. Exit codes: 0 pass, 1 VIOLATION, 2 ANALYSIS-BROKEN (vanished or renamed anchor - sa/rules/anchors.py names the functions, fields and types the rules are filled from - / instance count below floor / driver no longer compiles).',
    }
    for pid in sorted(CHECKS):
        c = CHECKS[pid]
        m['checks'].append({
            'property_id': pid,
            'quick_cmd': './check %s --tier quick' % pid,
            'thorough_cmd': './check %s --tier thorough' % pid,
            'evidence_file': 'evidence/%s.json' % pid,
            'replay_cmd_template': './check %s --replay {path}' % pid,
            'engine': 'amcsa',
            'level_claimed': {'category': 'other', 'text': c['text'], 'design_ref': c['design']},
            'level_note': c['note'],
            'technique': c['technique'],
        })
    with open(os.path.join(HERE, 'MANIFEST.json'), 'w') as f:
        json.dump(m, f, indent=1)
        f.write('\n')

if __name__ == '__main__':
    main()
