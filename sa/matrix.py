"""The instantiation matrix: which driver units each tier analyses (DESIGN.md section 2.1)."""
from . import gen


class Point:
    def __init__(self, unit, **meta):
        self.unit = unit
        self.meta = meta

    def __getattr__(self, k):
        try:
            return self.__dict__['meta'][k]
        except KeyError:
            raise AttributeError(k)


def vec_points(tier, elems=None, std=17, nonstd=True, ndebug=False, flavours=None):
    """(element archetype x flavour x N x size_type x allocator) points for the vector flavours."""
    pts = []
    if tier == 'quick':
        elems = elems or ['TC', 'TRnc', 'NTR']
        combos = [('vector', 0, 'u32', 'amc'), ('small', 1, 'u32', 'amc'), ('small', 4, 'u32', 'amc'),
                  ('fcv', 4, None, 'amc')]
        extra = [('NTR', 'vector', 0, 'u32', 'std'), ('TRnc', 'vector', 0, 'u32', 'realloc'), ('TC', 'small', 4, 'u8', 'amc'),
                 ('NTR', 'small', 12, 'u64', 'std'), ('TC', 'fcv', 4, None, 'amc', 'UncheckedGrowingPolicy'),
                 ('NTR', 'fcv', 4, 'u32', 'amc'), ('NTR', 'vector', 0, 'u32', 'realloc'), ('NTR', 'small', 3, 'u16', 'realloc'),
                 ('double', 'small', 4, 'u32', 'amc'), ('int', 'vector', 0, 'u32', 'amc')]
        iters = ('ptr', 'input', 'fwd')
    else:
        elems = elems or ['TC', 'TRnc', 'NTR', 'NTRtm', 'OptOut', 'MoveOnly']
        combos = [('vector', 0, 'u32', 'amc'), ('vector', 0, 'u32', 'std'), ('vector', 0, 'u64', 'realloc'),
                  ('vector', 0, 'u8', 'arena'), ('vector', 0, 'i32', 'amc'),
                  ('small', 1, 'u32', 'amc'), ('small', 2, 'u16', 'std'), ('small', 4, 'u32', 'amc'), ('small', 8, 'u8', 'amc'),
                  ('small', 9, 'u64', 'realloc'), ('small', 4, 'i8', 'amc'), ('small', 4, 'u32', 'arena'),
                  ('fcv', 1, None, 'amc'), ('fcv', 4, None, 'amc'), ('fcv', 4, 'u32', 'amc'), ('fcv', 300, None, 'amc')]
        extra = [('TC', 'fcv', 4, None, 'amc', 'UncheckedGrowingPolicy'), ('NTR', 'fcv', 4, None, 'amc', 'UncheckedGrowingPolicy'),
                 ('int', 'vector', 0, 'u32', 'amc'), ('char', 'small', 8, 'u32', 'amc'), ('char', 'small', 9, 'u32', 'amc'),
                 ('double', 'small', 4, 'u32', 'amc'), ('double', 'vector', 0, 'u32', 'std'), ('double', 'fcv', 4, None, 'amc')]
        iters = ('ptr', 'input', 'fwd', 'list', 'moveit')
    if flavours:
        combos = [c for c in combos if c[0] in flavours]
        extra = [x for x in extra if x[1] in flavours]
    seen = set()
    for e in elems:
        for (fl, n, st, al) in combos:
            its = tuple(i for i in iters if not (i == 'moveit' and e == 'MoveOnly'))
            u = gen.vec_unit(e, fl, n, st, al, iters=its, std=std, nonstd=nonstd, ndebug=ndebug)
            if u.name not in seen:
                seen.add(u.name)
                pts.append(Point(u, elem=e, E=gen.ELEMS[e], flavour=fl, n=n, st=st, alloc=al, policy='ExceptionGrowingPolicy'))
    for x in extra:
        e, fl, n, st, al = x[:5]
        if elems and e not in elems and e not in ('int', 'char', 'double'):
            continue
        pol = x[5] if len(x) > 5 else 'ExceptionGrowingPolicy'
        u = gen.vec_unit(e, fl, n, st, al, iters=iters, std=std, nonstd=nonstd, ndebug=ndebug, policy=pol)
        if u.name not in seen:
            seen.add(u.name)
            pts.append(Point(u, elem=e, E=gen.ELEMS[e], flavour=fl, n=n, st=st, alloc=al, policy=pol))
    return pts


def swap2_points(tier, std=17):
    specs = [('vector', 0, 'u32', 'amc'), ('small', 4, 'u32', 'amc'), ('small', 2, 'u8', 'amc'), ('fcv', 4, 'u8', 'amc'),
             ('vector', 0, 'u32', 'std'), ('small', 3, 'u32', 'std'), ('vector', 0, 'i32', 'amc')]
    if tier == 'thorough':
        specs += [('small', 3, 'u64', 'std'), ('vector', 0, 'u16', 'amc'), ('fcv', 300, 'u16', 'amc'), ('small', 6, 'i32', 'amc')]
    elems = ['NTR', 'TRnc'] if tier == 'quick' else ['NTR', 'TRnc', 'TC', 'NTRtm', 'MoveOnly']
    pairs = [(('small', 4, 'u32', 'amc'), ('small', 6, 'u32', 'amc')), (('fcv', 4, 'u8', 'amc'), ('fcv', 8, 'u8', 'amc'))]
    return [Point(gen.swap2_unit(e, specs, std=std), elem=e, E=gen.ELEMS[e], specs=specs) for e in elems] + \
        [Point(gen.adl_swap_unit(e, pairs, std=std), elem=e, E=gen.ELEMS[e], specs=[x for p in pairs for x in p]) for e in elems]


def flatset_points(tier, std=17, nonstd=True, ndebug=False, elems=None):
    pts = []
    if tier == 'quick':
        elems = elems or ['TC', 'NTR']
        combos = [('less', 'vector', 4), ('stateful', 'vector', 4), ('greater', 'small', 4), ('transparent', 'vector', 4),
                  ('less', 'fcv', 8), ('less', 'stdvector', 4)]
        iters = ('ptr', 'input')
    else:
        elems = elems or ['TC', 'TRnc', 'NTR', 'NTRtm']
        combos = [(c, v, n) for c in ('less', 'greater', 'coarse', 'stateful', 'transparent')
                  for (v, n) in (('vector', 4), ('small', 4), ('fcv', 8), ('stdvector', 4))]
        iters = ('ptr', 'input', 'fwd', 'moveit')
    for e in elems:
        for (c, v, n) in combos:
            if c == 'transparent' and std < 14:
                continue
            u = gen.flatset_unit(e, c, v, n, iters=iters, std=std, nonstd=nonstd, ndebug=ndebug,
                                 cmp2='greater' if c != 'greater' else 'less')
            pts.append(Point(u, elem=e, E=gen.ELEMS[e], cmp=c, vec=v, n=n))
    return pts


def smallset_points(tier, std=17, nonstd=True, ndebug=False, elems=None):
    pts = []
    if tier == 'quick':
        elems = elems or ['TC', 'NTR']
        combos = [(4, 'less', 'set'), (4, 'stateful', 'flat'), (2, 'transparent', 'set'), (1, 'greater', 'flat')]
        iters = ('ptr', 'input')
    else:
        elems = elems or ['TC', 'TRnc', 'NTR', 'NTRtm']
        combos = [(n, c, b) for n in (1, 2, 4, 8) for c in ('less', 'greater', 'coarse', 'stateful', 'transparent')
                  for b in ('set', 'flat') if (n in (2, 4) or c in ('less', 'stateful'))]
        iters = ('ptr', 'input', 'fwd')
    for e in elems:
        for (n, c, b) in combos:
            u = gen.smallset_unit(e, n, c, b, iters=iters, std=std, nonstd=nonstd, ndebug=ndebug,
                                  cmp2='greater' if c != 'greater' else 'less')
            pts.append(Point(u, elem=e, E=gen.ELEMS[e], n=n, cmp=c, backing=b))
    return pts


def memalg_points(tier, stds=None):
    stds = stds or ([14, 17] if tier == 'quick' else [11, 14, 17, 20])
    elems = ['TC', 'TRnc', 'NTR'] if tier == 'quick' else ['TC', 'TRnc', 'NTR', 'NTRtm', 'OptOut', 'MoveOnly']
    return [Point(gen.memalg_unit(e, std=s), elem=e, E=gen.ELEMS[e], std=s) for s in stds for e in elems]


def programs(runner, points):
    progs = runner.programs([p.unit for p in points])
    for p, pr in zip(points, progs):
        pr.meta = p.meta
    return progs


def real_programs(runner, tier):
    """The build's own translation units (tests and benchmarks) parsed with the build's flags: every instantiation the shipped
    suite creates is analysed too (thorough tier only)."""
    if tier != 'thorough':
        return []
    progs = runner.programs(gen.real_tu_units())
    for p in progs:
        p.meta = {'real': True}
    return progs
