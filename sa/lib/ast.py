"""Helpers over the exported statement/expression trees."""
from .core import walk, short

IGNORED_KEYS = {'l', 't', 'mac', 'lv', 'cv', 'did', 'pname', 'fn', 'lt', 'rt', 'st', 'from', 'cast', 'defarg'}
STMT_KINDS = {'block', 'if', 'for', 'while', 'do', 'rangefor', 'try', 'ret', 'decl', 'break', 'continue', 'null',
              'switch', 'case', 'default', 'goto', 'otherstmt'}
LOOPS = {'for', 'while', 'do', 'rangefor'}

WIDTH = {'bool': 1, 'char': 8, 'signed char': 8, 'unsigned char': 8, 'short': 16, 'unsigned short': 16, 'int': 32,
         'unsigned int': 32, 'long': 64, 'unsigned long': 64, 'long long': 64, 'unsigned long long': 64,
         '__int128': 128, 'unsigned __int128': 128, 'wchar_t': 32, 'char16_t': 16, 'char32_t': 32}


def width(t):
    t = t.replace('const ', '').replace('volatile ', '').strip()
    return WIDTH.get(t)


ASSIGN_OPS = {'=', '+=', '-=', '*=', '/=', '%=', '&=', '|=', '^=', '<<=', '>>=', '++', '--'}


def k(n):
    return n.get('k') if isinstance(n, dict) else None


def strip(n):
    """Look through casts (explicit ones; implicit ones are not exported)."""
    while isinstance(n, dict) and n.get('k') == 'cast':
        n = n.get('sub')
    return n


def callee(n):
    """Plain qualified callee name of a call / construct node, or ''."""
    if isinstance(n, dict) and n.get('k') in ('call', 'construct'):
        return n.get('name', '')
    return ''


def cshort(n):
    return short(callee(n)) if callee(n) else ''


def is_call(n, *shortnames):
    return isinstance(n, dict) and n.get('k') == 'call' and cshort(n) in shortnames


def calls(node, pred=None):
    for n in walk(node):
        if n.get('k') in ('call', 'construct'):
            if pred is None or pred(n):
                yield n


def struct_eq(a, b):
    if type(a) != type(b):
        return False
    if isinstance(a, dict):
        a = strip(a)
        b = strip(b)
        ka = {x for x in a if x not in IGNORED_KEYS}
        kb = {x for x in b if x not in IGNORED_KEYS}
        if ka != kb:
            return False
        return all(struct_eq(a[x], b[x]) for x in ka)
    if isinstance(a, list):
        return len(a) == len(b) and all(struct_eq(x, y) for x, y in zip(a, b))
    return a == b


def contains(hay, needle):
    """needle occurs structurally inside hay."""
    needle = strip(needle)
    for n in walk(hay):
        if struct_eq(strip(n), needle):
            return True
    return False


class Parents:
    """Parent links for one function body: id(node) -> (parent, slot)."""

    def __init__(self, body):
        self.p = {}
        self.nodes = {}
        self.body = body
        self._cl = None
        self._build(body, None, None)

    def _build(self, n, parent, slot):
        st = [(n, parent, slot)]
        while st:
            n, parent, slot = st.pop()
            if isinstance(n, dict):
                self.p[id(n)] = (parent, slot)
                for key, v in n.items():
                    if isinstance(v, dict):
                        st.append((v, n, key))
                    elif isinstance(v, list):
                        for i, x in enumerate(v):
                            if isinstance(x, dict):
                                st.append((x, n, key))
                            elif isinstance(x, list):
                                for y in x:
                                    if isinstance(y, dict):
                                        st.append((y, n, key))

    def parent(self, n):
        return self.p.get(id(n), (None, None))

    def ancestors(self, n):
        """Yields (ancestor, slot-through-which-n-is-reached)."""
        cur = n
        while True:
            par, slot = self.p.get(id(cur), (None, None))
            if par is None:
                return
            yield par, slot
            cur = par

    def in_loop(self, n):
        for a, slot in self.ancestors(n):
            if a.get('k') in LOOPS and slot in ('body', 'inc', 'c', 'desugar'):
                return a
        return None

    @staticmethod
    def always_exits(st):
        """Does control never fall out of the end of this statement (return / throw / break / continue on every path)?"""
        if not isinstance(st, dict):
            return False
        kd = st.get('k')
        if kd in ('ret', 'throw', 'break', 'continue'):
            return True
        if kd == 'block':
            return any(Parents.always_exits(x) for x in st.get('s', []))
        if kd == 'if':
            return st.get('else') is not None and Parents.always_exits(st.get('then')) and Parents.always_exits(st.get('else'))
        if kd == 'try':
            return Parents.always_exits(st.get('body')) and all(Parents.always_exits(h.get('body')) for h in st.get('handlers', []))
        return False

    def _const_locals(self):
        """did -> initialiser of the boolean-ish locals that are never written again: `const bool fits = a <= b; if (!fits) ...`
        tests `a <= b`."""
        if self._cl is None:
            self._cl = {}
            written = set()
            for st, lhs in stores(self.body):
                l = strip(lhs)
                if isinstance(l, dict) and l.get('k') == 'ref' and l.get('dk') == 'local':
                    written.add(l.get('did'))
            for did, (ini, ty) in local_inits(self.body).items():
                if ini is not None and did not in written and ty.replace('const ', '').strip() == 'bool':
                    self._cl[did] = ini
        return self._cl

    def resolve_cond(self, c, depth=0):
        """Condition with never-reassigned bool locals replaced by their initialiser (under !, casts and __builtin_expect)."""
        if not isinstance(c, dict) or depth > 6:
            return c
        k = c.get('k')
        if k == 'cast' and isinstance(c.get('sub'), dict):
            return dict(c, sub=self.resolve_cond(c['sub'], depth + 1))
        if k == 'un' and c.get('op') == '!':
            return dict(c, sub=self.resolve_cond(c.get('sub'), depth + 1))
        if k == 'call' and callee(c) == '__builtin_expect' and c.get('args'):
            return dict(c, args=[self.resolve_cond(c['args'][0], depth + 1)] + list(c['args'][1:]))
        if k == 'bin' and c.get('op') in ('&&', '||'):
            return dict(c, lhs=self.resolve_cond(c.get('lhs'), depth + 1), rhs=self.resolve_cond(c.get('rhs'), depth + 1))
        if k == 'ref' and c.get('dk') == 'local' and c.get('did') in self._const_locals():
            return self.resolve_cond(self._const_locals()[c['did']], depth + 1)
        return c

    def guards(self, n):
        """Conditions known where n executes: enclosing if / ternary / && / || / loop conditions and preceding guard clauses, with
        never-reassigned bool locals resolved, and conjunctions (disjunctions known false) split into their operands."""
        out = []
        todo = [(self.resolve_cond(c), t) for c, t in self._guards(n)]
        for a, slot in self.ancestors(n):
            if a.get('k') in ('while', 'for') and slot in ('body', 'inc') and a.get('c') is not None:
                todo.append((self.resolve_cond(a['c']), True))
        while todo:
            c, t = todo.pop(0)
            out.append((c, t))
            x, neg, depth = c, False, 0
            while isinstance(x, dict) and depth < 8:
                depth += 1
                if x.get('k') == 'cast' and isinstance(x.get('sub'), dict):
                    x = x['sub']
                elif x.get('k') == 'call' and callee(x) == '__builtin_expect' and x.get('args'):
                    x = x['args'][0]
                elif x.get('k') == 'un' and x.get('op') == '!':
                    neg = not neg
                    x = x.get('sub')
                elif x.get('k') == 'paren' and isinstance(x.get('sub'), dict):
                    x = x['sub']
                else:
                    break
            if isinstance(x, dict) and x.get('k') == 'bin' and x.get('op') in ('&&', '||'):
                eff = t != neg
                if (x['op'] == '&&' and eff) or (x['op'] == '||' and not eff):
                    todo.append((x.get('lhs'), eff))
                    todo.append((x.get('rhs'), eff))
        return out

    def _guards(self, n):
        """Control-dependence (structured): list of (condition node, truth) for the if/ternary/&&/||
        ancestors of n, and for the guard clauses that precede it (an earlier `if (c) return ...;` of an enclosing block means c
        is false here).  truth is True when n executes only if the condition was true."""
        out = []
        cur = n
        for a, slot in self.ancestors(n):
            if a.get('k') == 'block' and slot == 's':
                for st in a.get('s', []):
                    if st is cur:
                        break
                    if isinstance(st, dict) and st.get('k') == 'if':
                        te, ee = self.always_exits(st.get('then')), (st.get('else') is not None and self.always_exits(st.get('else')))
                        if te and not ee:
                            out.append((st['c'], False))
                        elif ee and not te:
                            out.append((st['c'], True))
            cur = a
        for a, slot in self.ancestors(n):
            kd = a.get('k')
            if kd == 'if':
                if slot == 'then':
                    out.append((a['c'], True))
                elif slot == 'else':
                    out.append((a['c'], False))
            elif kd == 'cond':
                if slot == 'a':
                    out.append((a['c'], True))
                elif slot == 'b':
                    out.append((a['c'], False))
            elif kd == 'bin' and a.get('op') in ('&&', '||') and slot == 'rhs':
                out.append((a['lhs'], a['op'] == '&&'))
        return out

    def stmt_of(self, n):
        """Innermost statement-level node containing n (child of a block, or body of a control stmt)."""
        cur = n
        for a, slot in self.ancestors(n):
            if a.get('k') == 'block' and slot == 's':
                return cur
            cur = a
        return cur


def root(n, locals_init=None, depth=0):
    """Root object of an lvalue/pointer expression: returns ('this'|'param'|'local'|'global'|'temp'|'other', node).
    Looks through member access, subscripts, dereference, address-of, casts, pointer arithmetic and
    method calls that return a reference/pointer into their object (begin(), operator[], ptr(), ...)."""
    while isinstance(n, dict) and depth < 64:
        depth += 1
        kd = n.get('k')
        if kd == 'this':
            return 'this', n
        if kd == 'ref':
            dk = n.get('dk')
            if dk == 'param':
                return 'param', n
            if dk == 'local':
                if locals_init is not None and n.get('did') in locals_init:
                    ini, ty = locals_init[n['did']]
                    if ini is not None and ty.rstrip().endswith(('*', '&', '*const', '* const')):
                        n = ini
                        continue
                return 'local', n
            if dk in ('global', 'staticlocal'):
                return 'global', n
            return 'other', n
        if kd == 'mem':
            n = n.get('base')
            continue
        if kd == 'idx':
            n = n.get('base')
            continue
        if kd == 'un' and n.get('op') in ('*', '&', '++', '--', '+', '-'):
            n = n.get('sub')
            continue
        if kd == 'cast':
            n = n.get('sub')
            continue
        if kd == 'bin' and n.get('op') in ('+', '-', ','):
            # pointer arithmetic: the pointer side
            l, r = n.get('lhs'), n.get('rhs')
            if n.get('op') == ',':
                n = r
            elif isinstance(l, dict) and '*' in l.get('t', ''):
                n = l
            elif isinstance(r, dict) and '*' in r.get('t', ''):
                n = r
            else:
                n = l
            continue
        if kd == 'bin' and n.get('op') in ('=', '+=', '-='):
            n = n.get('lhs')
            continue
        if kd == 'cond':
            ra = root(n.get('a'), locals_init, depth)
            rb = root(n.get('b'), locals_init, depth)
            order = ['this', 'param', 'global', 'other', 'temp', 'local']
            return (ra if order.index(ra[0]) <= order.index(rb[0]) else rb)
        if kd == 'call':
            if n.get('method') and n.get('obj') is not None:
                t = n.get('t', '').rstrip()
                if not n.get('lv') and not t.endswith('*') and n.get('op') not in ('->',):
                    return 'temp', n      # returns an object by value: a copy, not a way into the object
                n = n['obj']
                continue
            nm = callee(n)
            if nm in ('std::addressof', 'std::move', 'std::forward', 'std::next', 'std::prev', 'std::__addressof',
                      'std::launder') and n.get('args'):
                n = n['args'][0]
                continue
            return 'temp', n
        if kd in ('construct', 'lit', 'new', 'lambda', 'initlist', 'valueinit'):
            return 'temp', n
        return 'other', n
    return 'other', n


def local_inits(body):
    """did -> (init node, type string) for every local declared in the body."""
    out = {}
    for n in walk(body):
        if n.get('k') == 'decl':
            for v in n.get('vars', []):
                out[v['did']] = (v.get('init'), v.get('t', ''))
        elif n.get('k') in ('if', 'rangefor') and isinstance(n.get('var'), dict):
            v = n['var']
            out[v['did']] = (v.get('init'), v.get('t', ''))
    return out


def local_values(body):
    """did -> list of every expression the local can receive (initialiser and plain assignments)."""
    out = {}
    for did, (ini, ty) in local_inits(body).items():
        if ini is not None:
            out.setdefault(did, []).append(ini)
    for n in walk(body):
        if n.get('k') == 'bin' and n.get('op') == '=':
            l = strip(n.get('lhs'))
            if isinstance(l, dict) and l.get('k') == 'ref' and l.get('dk') == 'local':
                out.setdefault(l.get('did'), []).append(n.get('rhs'))
        elif n.get('k') == 'call' and n.get('op') == '=' and n.get('obj') is not None and n.get('args'):
            l = strip(n.get('obj'))
            if isinstance(l, dict) and l.get('k') == 'ref' and l.get('dk') == 'local':
                out.setdefault(l.get('did'), []).append(n['args'][0])
    return out


def stores(body):
    """Yield (node, lhs) for every assignment / compound assignment / ++ / -- in the tree."""
    for n in walk(body):
        kd = n.get('k')
        if kd == 'bin' and n.get('op', '').endswith('=') and n.get('op') not in ('==', '!=', '<=', '>='):
            yield n, n.get('lhs')
        elif kd == 'un' and n.get('op') in ('++', '--'):
            yield n, n.get('sub')
        elif kd == 'call' and n.get('op') in ASSIGN_OPS and n.get('method') and n.get('obj') is not None:
            # class-type assignment is an operator call on the assigned object
            yield n, n.get('obj')


def max_count(node, pred):
    """Maximum number of nodes satisfying pred executed on any single path through the
    structured tree (loops count their body once; use Parents.in_loop for the loop rule)."""
    if isinstance(node, list):
        return sum(max_count(x, pred) for x in node)
    if not isinstance(node, dict):
        return 0
    kd = node.get('k')
    own = 1 if pred(node) else 0
    if kd == 'if':
        return own + max_count(node.get('init'), pred) + max_count(node.get('c'), pred) + max(
            max_count(node.get('then'), pred), max_count(node.get('else'), pred))
    if kd == 'cond':
        return own + max_count(node.get('c'), pred) + max(max_count(node.get('a'), pred), max_count(node.get('b'), pred))
    if kd == 'try':
        return own + max_count(node.get('body'), pred) + max([max_count(h.get('body'), pred) for h in node.get('handlers', [])] or [0])
    tot = own
    for key, v in node.items():
        if isinstance(v, (dict, list)):
            tot += max_count(v, pred)
    return tot


def eval_children(n):
    """Children of a node in evaluation order (the exported JSON objects are key-sorted, so plain
    traversal order means nothing)."""
    k = n.get('k')
    if k == 'bin' and n.get('op', '').endswith('=') and n.get('op') not in ('==', '!=', '<=', '>='):
        return [n.get('rhs'), n.get('lhs')]
    if k == 'bin':
        return [n.get('lhs'), n.get('rhs')]
    if k == 'call':
        out = []
        if n.get('callee') is not None:
            out.append(n.get('callee'))
        if n.get('op') in ('=', '+=', '-=') and n.get('method'):
            return out + list(n.get('args', [])) + [n.get('obj')]
        if n.get('obj') is not None:
            out.append(n.get('obj'))
        return out + list(n.get('args', []))
    if k == 'construct':
        return list(n.get('args', []))
    if k == 'new':
        return list(n.get('placement', [])) + [n.get('init')]
    if k == 'cond':
        return [n.get('c'), n.get('a'), n.get('b')]
    if k == 'if':
        return [n.get('init'), n.get('var'), n.get('c'), n.get('then'), n.get('else')]
    if k == 'for':
        return [n.get('init'), n.get('c'), n.get('body'), n.get('inc')]
    if k == 'while':
        return [n.get('c'), n.get('body')]
    if k == 'do':
        return [n.get('body'), n.get('c')]
    if k == 'rangefor':
        return [n.get('range'), n.get('var')] + list(n.get('desugar', [])) + [n.get('body')]
    if k == 'try':
        return [n.get('body')] + [h.get('body') for h in n.get('handlers', [])]
    if k == 'block':
        return list(n.get('s', []))
    if k == 'decl':
        return list(n.get('vars', []))
    if k == 'ret':
        return [n.get('e')]
    if k == 'mem':
        return [n.get('base')]
    if k == 'idx':
        return [n.get('base'), n.get('index')]
    out = []
    for key, v in n.items():
        if isinstance(v, dict):
            out.append(v)
        elif isinstance(v, list):
            out += [x for x in v if isinstance(x, dict)]
    return out


def eval_order(root, inits=None):
    """id(node) -> sequence number in evaluation order (post-order: a call is numbered after its arguments)."""
    order = {}
    counter = [0]

    def rec(n):
        if isinstance(n, list):
            for x in n:
                rec(x)
            return
        if not isinstance(n, dict):
            return
        for ch in eval_children(n):
            rec(ch)
        order[id(n)] = counter[0]
        counter[0] += 1
    for i in inits or []:
        if isinstance(i, dict):
            rec(i.get('init'))
    rec(root)
    return order


def first_eval(node, order):
    """Smallest sequence number inside node (when its evaluation starts)."""
    return min([order[id(x)] for x in walk(node) if id(x) in order] or [0])
