"""Path engine over the structured statement tree: abstract execution with client-defined states.

The analysed code is fully structured (no goto), so the tree *is* the control-flow graph; the engine
adds the exceptional successors of may-throw events and routes them through try/catch.  States are
hashable values; a client supplies

  event(node, state)  -> iterable of ('n'|'x', state')   for every event node, in evaluation order
  is_event(node)      -> bool
  assume(cond, truth, state) -> state | None             (path facts; None = infeasible)

Results: states on normal fall-through / return (with the return node) / exceptional exit (with the
node that threw)."""
from .ast import strip

MAX_ITER = 6


class Client:
    def is_event(self, node):
        return False

    def event(self, node, state):
        return [('n', state)]

    def assume(self, cond, truth, state):
        return state

    def enter_handler(self, try_node, handler, state, thrower):
        return state


class Out:
    __slots__ = ('normal', 'returns', 'throws', 'breaks', 'continues')

    def __init__(self):
        self.normal = set()
        self.returns = set()    # (state, id(return node))
        self.throws = set()     # (state, id(node that threw))
        self.breaks = set()
        self.continues = set()

    def absorb(self, o, normal=False):
        if normal:
            self.normal |= o.normal
        self.returns |= o.returns
        self.throws |= o.throws
        self.breaks |= o.breaks
        self.continues |= o.continues


class Engine:
    def __init__(self, client):
        self.c = client
        self.nodes = {}
        self.lvals = {}
        self.try_stack = []     # enclosing try nodes (innermost last) while a try *body* is executed
        self.handler_depth = 0

    def remember(self, n):
        self.nodes[id(n)] = n
        return id(n)

    # ---------------------------------------------------------------- expressions
    def eval(self, n, states, out):
        """Evaluate expression n from each state; exceptional successors are added to out.throws.
        Returns the set of normal successor states."""
        if not states or not isinstance(n, dict):
            return states
        k = n.get('k')
        if k == 'lambda':
            # captures are evaluated, the body is not
            for cpt in n.get('captures', []):
                states = self.eval(cpt, states, out)
            return states
        if k == 'bin' and n.get('op') in ('&&', '||'):
            t, f = self.cond(n, states, out)
            return t | f
        if k == 'cond':
            t, f = self.cond(n.get('c'), states, out)
            return self.eval(n.get('a'), t, out) | self.eval(n.get('b'), f, out)
        # children in evaluation order
        if k == 'bin' and n.get('op', '').endswith('=') and n.get('op') not in ('==', '!=', '<=', '>='):
            order = [n.get('rhs'), n.get('lhs')]
        elif k == 'call':
            order = []
            if n.get('callee') is not None:
                order.append(n.get('callee'))
            if n.get('op') in ('=', '+=', '-=') and n.get('method'):
                order += list(n.get('args', [])) + [n.get('obj')]
            else:
                if n.get('obj') is not None:
                    order.append(n.get('obj'))
                order += list(n.get('args', []))
        elif k == 'new':
            order = list(n.get('placement', [])) + [n.get('init')]
        else:
            order = []
            for key, v in n.items():
                if isinstance(v, dict):
                    order.append(v)
                elif isinstance(v, list):
                    order += [x for x in v if isinstance(x, dict)]
        for ch in order:
            if isinstance(ch, dict):
                states = self.eval(ch, states, out)
        if self.c.is_event(n):
            nxt = set()
            nid = self.remember(n)
            for s in states:
                for kind, s2 in self.c.event(n, s):
                    if kind == 'n':
                        nxt.add(s2)
                    else:
                        out.throws.add((s2, nid))
            states = nxt
        return states

    def cond(self, n, states, out):
        """Returns (states where n is true, states where n is false)."""
        if not isinstance(n, dict):
            return states, states
        k = n.get('k')
        if k == 'bin' and n.get('op') == '&&':
            lt, lf = self.cond(n['lhs'], states, out)
            rt, rf = self.cond(n['rhs'], lt, out)
            return rt, lf | rf
        if k == 'bin' and n.get('op') == '||':
            lt, lf = self.cond(n['lhs'], states, out)
            rt, rf = self.cond(n['rhs'], lf, out)
            return lt | rt, rf
        if k == 'un' and n.get('op') == '!':
            t, f = self.cond(n['sub'], states, out)
            return f, t
        if k == 'cast':
            return self.cond(n.get('sub'), states, out)
        if k == 'call' and n.get('name') == '__builtin_expect' and n.get('args'):
            return self.cond(n['args'][0], states, out)
        states = self.eval(n, states, out)
        if n.get('cv') is not None and k != 'ref':
            try:
                v = int(n['cv'])
                return (states, set()) if v else (set(), states)
            except (TypeError, ValueError):
                pass
        t, f = set(), set()
        # `const bool small = isSmall(); ... if (small)`: the client is told what the never-reassigned bool stands for
        n, flip = self.resolve_bool(n)
        for s in states:
            a = self.c.assume(n, True, s)
            if a is not None:
                t.add(a)
            b = self.c.assume(n, False, s)
            if b is not None:
                f.add(b)
        return (f, t) if flip else (t, f)

    # ---------------------------------------------------------------- statements
    def exec(self, n, states):
        out = Out()
        if not states:
            return out
        if n is None:
            out.normal = set(states)
            return out
        if isinstance(n, list):
            cur = set(states)
            for s in n:
                o = self.exec(s, cur)
                out.absorb(o)
                cur = o.normal
            out.normal = cur
            return out
        k = n.get('k')
        if k == 'block':
            return self.exec(n.get('s', []), states)
        if k == 'if':
            cur = set(states)
            if n.get('init') is not None:
                o = self.exec(n['init'], cur)
                out.absorb(o)
                cur = o.normal
            if isinstance(n.get('var'), dict):
                cur = self.decl_var(n['var'], cur, out)
            t, f = self.cond(n.get('c'), cur, out)
            ot = self.exec(n.get('then'), t) if n.get('then') is not None else None
            oe = self.exec(n.get('else'), f) if n.get('else') is not None else None
            if ot is not None:
                out.absorb(ot, True)
            else:
                out.normal |= t
            if oe is not None:
                out.absorb(oe, True)
            else:
                out.normal |= f
            return out
        if k in ('for', 'while', 'do', 'rangefor'):
            cur = set(states)
            if k == 'for' and n.get('init') is not None:
                o = self.exec(n['init'], cur)
                out.absorb(o)
                cur = o.normal
            if k == 'rangefor':
                cur = self.eval(n.get('range'), cur, out)
            seen = set()
            exits = set()
            frontier = cur
            it = 0
            while frontier and it < MAX_ITER:
                it += 1
                seen |= frontier
                if k == 'do':
                    t = frontier
                elif k == 'rangefor':
                    t = set(frontier)
                    for d in n.get('desugar', []):
                        if isinstance(d, dict) and d.get('k') not in ('decl',):
                            t = self.eval(d, t, out)
                    exits |= t
                else:
                    t, f = self.cond(n.get('c'), frontier, out) if n.get('c') is not None else (frontier, set())
                    exits |= f
                o = self.exec(n.get('body'), t)
                out.returns |= o.returns
                out.throws |= o.throws
                exits |= o.breaks
                after = o.normal | o.continues
                if k == 'for' and n.get('inc') is not None:
                    after = self.eval(n['inc'], after, out)
                if k == 'do':
                    t2, f2 = self.cond(n.get('c'), after, out)
                    exits |= f2
                    after = t2
                frontier = after - seen
            out.normal = exits | (frontier if it >= MAX_ITER else set())
            return out
        if k == 'try':
            self.try_stack.append(n)
            try:
                o = self.exec(n.get('body'), states)
            finally:
                self.try_stack.pop()
            out.normal |= o.normal
            out.returns |= o.returns
            out.breaks |= o.breaks
            out.continues |= o.continues
            handlers = n.get('handlers', [])
            if not handlers:
                out.throws |= o.throws
                return out
            for (s, thrower) in o.throws:
                # amc only uses catch (...); a typed handler is treated as catching as well, and the
                # uncaught alternative is kept too (conservative)
                caught_all = False
                for h in handlers:
                    s_in = self.c.enter_handler(n, h, s, self.nodes.get(thrower))
                    self._cur_rethrow = thrower
                    oh = self.exec_handler(h.get('body'), {s_in}, thrower)
                    out.absorb(oh, True)
                    if h.get('all'):
                        caught_all = True
                        break
                if not caught_all:
                    out.throws.add((s, thrower))
            return out
        if k == 'ret':
            cur = self.eval(n.get('e'), set(states), out)
            nid = self.remember(n)
            for s in cur:
                out.returns.add((s, nid))
            return out
        if k == 'decl':
            cur = set(states)
            for v in n.get('vars', []):
                cur = self.decl_var(v, cur, out)
            out.normal = cur
            return out
        if k == 'break':
            out.breaks = set(states)
            return out
        if k == 'continue':
            out.continues = set(states)
            return out
        if k in ('null', 'goto'):
            out.normal = set(states)
            return out
        if k in ('switch', 'case', 'default', 'otherstmt'):
            cur = set(states)
            for key in ('c', 'v'):
                if isinstance(n.get(key), dict):
                    cur = self.eval(n[key], cur, out)
            if isinstance(n.get('body'), dict):
                o = self.exec(n['body'], cur)
                out.absorb(o, True)
                out.normal |= cur | o.breaks
            else:
                for ch in n.get('ch', []) or []:
                    o = self.exec(ch, cur)
                    out.absorb(o)
                    cur = o.normal
                out.normal |= cur
            return out
        # expression statement
        out.normal = self.eval(n, set(states), out)
        return out

    def exec_handler(self, body, states, thrower):
        """Handler body: a bare `throw;` rethrows the original exception."""
        saved = getattr(self, '_rethrow_as', None)
        self._rethrow_as = thrower
        self.handler_depth += 1
        try:
            return self.exec(body, states)
        finally:
            self._rethrow_as = saved
            self.handler_depth -= 1

    def decl_var(self, v, states, out):
        if v.get('init') is not None:
            states = self.eval(v['init'], states, out)
        if self.c.is_event(v):
            nxt = set()
            nid = self.remember(v)
            for s in states:
                for kind, s2 in self.c.event(v, s):
                    if kind == 'n':
                        nxt.add(s2)
                    else:
                        out.throws.add((s2, nid))
            states = nxt
        return states

    def resolve_bool(self, n, depth=0):
        """(expression the bool local stands for, negated?) - looks through never-reassigned bool locals and `!`."""
        flip = False
        while isinstance(n, dict) and depth < 4:
            depth += 1
            if n.get('k') == 'cast':
                n = n.get('sub')
            elif n.get('k') == 'ref' and n.get('dk') == 'local' and (n.get('t') or '').replace('const ', '').strip() == 'bool':
                vals = self.lvals.get(n.get('did'), [])
                if len(vals) != 1 or not isinstance(vals[0], dict):
                    break
                n = vals[0]
            elif n.get('k') == 'un' and n.get('op') == '!':
                flip = not flip
                n = n.get('sub')
            else:
                break
        return n, flip

    def run(self, body, init, inits=None):
        from .ast import local_values
        try:
            self.lvals = local_values(body) if isinstance(body, (dict, list)) else {}
        except Exception:
            self.lvals = {}
        out = Out()
        cur = {init} if not isinstance(init, set) else init
        for i in inits or []:
            if isinstance(i.get('init'), dict):
                cur = self.eval(i['init'], cur, out)
        o = self.exec(body, cur)
        o.throws |= out.throws
        return o
