"""Core of the amc static-analysis framework: compiling units with the amcsa plugin, the fact
model (Program), findings, evidence, known findings and exit codes.

Exit-code contract (DESIGN.md section 7):
  0  property held on everything analysed (KNOWN-FINDING lines allowed)
  1  at least one 'VIOLATION property=<id> replay=<path>' line
  2  ANALYSIS-BROKEN: a unit no longer compiles, an anchor vanished, a rule fell below its floor
"""
import concurrent.futures
import hashlib
import json
import os
import shutil
import subprocess
import sys
import tempfile
import time

VERIF = os.path.dirname(os.path.dirname(os.path.dirname(os.path.abspath(__file__))))
REPO = os.environ.get('AMC_REPO', '/repo')
INCLUDE = os.path.join(REPO, 'include')
PLUGIN = os.path.join(VERIF, 'sa', 'build', 'amcsa.so')
DRIVERS = os.path.join(VERIF, 'sa', 'drivers')
FIXTURES = os.path.join(VERIF, 'sa', 'fixtures')
CLANG = 'clang++'
GXX = 'g++'
JOBS = int(os.environ.get('VERIF_JOBS', '16'))


class AnalysisBroken(Exception):
    pass


# ------------------------------------------------------------------------------ units
class Unit:
    """One translation unit to be parsed (never linked, never run)."""

    def __init__(self, name, text, std=17, nonstd=True, ndebug=False, extra=(), plugin=True, roots=None,
                 expect_fail=False, path=None, includes=()):
        self.name = name
        self.text = text
        self.std = std
        self.nonstd = nonstd
        self.ndebug = ndebug
        self.extra = tuple(extra)
        self.plugin = plugin
        self.roots = roots
        self.expect_fail = expect_fail
        self.path = path  # analyse an existing file instead of generated text
        self.includes = tuple(includes)

    def key(self):
        h = hashlib.sha1()
        h.update(repr((self.name, self.text, self.std, self.nonstd, self.ndebug, self.extra, self.plugin,
                       self.roots, self.path, self.includes)).encode())
        return h.hexdigest()[:16]

    def flags(self):
        fl = ['-std=c++%d' % self.std, '-I' + INCLUDE, '-I' + DRIVERS]
        for i in self.includes:
            fl.append(i)
        if self.nonstd:
            fl.append('-DAMC_NONSTD_FEATURES')
        fl.append('-DNDEBUG' if self.ndebug else '-UNDEBUG')
        fl += list(self.extra)
        return fl


class UnitResult:
    def __init__(self, unit, rc, stderr, facts, src, wall):
        self.unit = unit
        self.rc = rc
        self.stderr = stderr
        self.facts = facts
        self.src = src
        self.wall = wall


class Runner:
    """Compiles units in a scratch directory outside /repo and /verif, removed on close()."""

    def __init__(self):
        base = os.environ.get('VERIF_SCRATCH') or tempfile.gettempdir()
        self.dir = tempfile.mkdtemp(prefix='amcsa-', dir=base)
        self.cache = {}
        self.units_run = 0
        self.wall = 0.0

    def close(self):
        shutil.rmtree(self.dir, ignore_errors=True)

    def _one(self, unit, compiler=CLANG):
        k = unit.key() + ('-g' if compiler == GXX else '')
        src = unit.path or os.path.join(self.dir, '%s-%s.cc' % (unit.name, k))
        if not unit.path:
            with open(src, 'w') as f:
                f.write(unit.text)
        out = os.path.join(self.dir, '%s-%s.json' % (unit.name, k))
        cmd = [compiler, '-fsyntax-only'] + unit.flags()
        if compiler == CLANG:
            cmd += ['-ferror-limit=0', '-Wno-everything'] if not unit.extra_has_w() else ['-ferror-limit=0']
            if unit.plugin:
                cmd += ['-fplugin=' + PLUGIN, '-Xclang', '-add-plugin', '-Xclang', 'amcsa',
                        '-Xclang', '-plugin-arg-amcsa', '-Xclang', 'out=' + out]
                for r in (unit.roots or [os.path.join(REPO, 'include', 'amc') + '/']):
                    cmd += ['-Xclang', '-plugin-arg-amcsa', '-Xclang', 'root=' + r]
                for r in (DRIVERS + '/', FIXTURES + '/'):
                    cmd += ['-Xclang', '-plugin-arg-amcsa', '-Xclang', 'drv=' + r]
                if unit.path:
                    cmd += ['-Xclang', '-plugin-arg-amcsa', '-Xclang', 'nomain']
        else:
            cmd += ['-fmax-errors=0', '-w'] if not unit.extra_has_w() else ['-fmax-errors=0']
        cmd.append(src)
        t0 = time.time()
        p = subprocess.run(cmd, stdout=subprocess.PIPE, stderr=subprocess.PIPE, universal_newlines=True)
        facts = None
        if compiler == CLANG and unit.plugin and os.path.exists(out):
            try:
                with open(out) as f:
                    facts = json.load(f)
            except Exception as e:  # torn / invalid output is an analysis failure
                facts = None
            os.unlink(out)
        return UnitResult(unit, p.returncode, p.stderr, facts, src, time.time() - t0)

    def run(self, units, compiler=CLANG):
        todo = [u for u in units if (u.key(), compiler) not in self.cache]
        t0 = time.time()
        if todo:
            with concurrent.futures.ThreadPoolExecutor(max_workers=JOBS) as ex:
                for u, r in zip(todo, ex.map(lambda u: self._one(u, compiler), todo)):
                    self.cache[(u.key(), compiler)] = r
                    self.units_run += 1
        self.wall += time.time() - t0
        res = []
        for u in units:
            r = self.cache[(u.key(), compiler)]
            if not u.expect_fail:
                if r.rc != 0:
                    raise AnalysisBroken('unit %s does not compile with %s:\n%s' % (u.name, compiler, r.stderr[-3000:]))
                if compiler == CLANG and u.plugin and r.facts is None:
                    raise AnalysisBroken('unit %s produced no facts' % u.name)
            res.append(r)
        return res

    def programs(self, units):
        ps = [Program(r.facts, r.unit) for r in self.run(units)]
        # every program a check looks at is remembered: the anchors the rules are filled from are verified on them
        if not hasattr(self, 'analysed'):
            self.analysed = []
        self.analysed.extend(ps)
        return ps


def _extra_has_w(self):
    return any(x.startswith('-W') for x in self.extra)


Unit.extra_has_w = _extra_has_w


# ------------------------------------------------------------------------------ fact model
def walk(node):
    """Pre-order generator over all dict nodes of a statement/expression tree."""
    stack = [node]
    while stack:
        n = stack.pop()
        if isinstance(n, dict):
            yield n
            for v in reversed(list(n.values())):
                if isinstance(v, (dict, list)):
                    stack.append(v)
        elif isinstance(n, list):
            for v in reversed(n):
                if isinstance(v, (dict, list)):
                    stack.append(v)


def children(node):
    for k, v in node.items():
        if isinstance(v, dict):
            yield v
        elif isinstance(v, list):
            for x in v:
                if isinstance(x, dict):
                    yield x


def short(name):
    return name.rsplit('::', 1)[-1]


class Program:
    """Facts of one parsed unit."""

    def __init__(self, facts, unit=None):
        self.unit = unit
        self.facts = facts
        self.fns = facts['functions']
        for fid, f in self.fns.items():
            f['id'] = fid
            # stable, human-readable function key: plain qualified name + parameter names (no template
            # arguments, no line numbers), so that overloads are distinguished and instantiations coincide
            pn = f.get('pparams')
            if pn is None:
                pn = [p.get('name') for p in f.get('params', [])]
            f['key'] = '%s(%s)' % (f['name'], ','.join(x or '_' for x in pn))
        self.records = facts['records']
        self.statics = facts['statics']
        self._by_name = {}
        for fid, f in self.fns.items():
            self._by_name.setdefault(f['name'], []).append(f)
        self._reach = {}
        self._rec_by_name = {r['name']: r for r in self.records}

    @property
    def uname(self):
        return self.unit.name if self.unit else '?'

    def amc_functions(self, with_body=True):
        for f in self.fns.values():
            if f.get('amc') and (f.get('hasbody') or not with_body):
                yield f

    def by_name(self, name):
        return self._by_name.get(name, [])

    def by_short(self, sname, amc_only=True):
        return [f for f in self.fns.values() if short(f['name']) == sname and (f.get('amc') or not amc_only)]

    def fn(self, fid):
        return self.fns.get(fid)

    def record(self, name):
        return self._rec_by_name.get(name)

    def callees(self, fid):
        f = self.fns.get(fid)
        return f.get('calls', []) if f else []

    def reachable(self, fid, stop=None):
        """Set of function ids reachable from fid (inclusive) over resolved call edges.  `stop` is
        a predicate on a function record: edges out of such functions are not followed."""
        key = (fid, id(stop))
        if key in self._reach:
            return self._reach[key]
        seen = set()
        st = [fid]
        while st:
            x = st.pop()
            if x in seen:
                continue
            seen.add(x)
            fx = self.fns.get(x)
            if fx is None:
                continue
            if stop and x != fid and stop(fx):
                continue
            for c in fx.get('calls', []):
                if c not in seen:
                    st.append(c)
        self._reach[key] = seen
        return seen

    def path(self, src, pred):
        """Shortest call path from src to a function satisfying pred (list of function records)."""
        from collections import deque
        prev = {src: None}
        dq = deque([src])
        while dq:
            x = dq.popleft()
            fx = self.fns.get(x)
            if fx is None:
                continue
            if x != src and pred(fx):
                out = []
                while x is not None:
                    out.append(self.fns[x])
                    x = prev[x]
                return list(reversed(out))
            for c in fx.get('calls', []):
                if c not in prev:
                    prev[c] = x
                    dq.append(c)
        return None

    def site(self, f, node=None):
        """file:line:col of a node inside function f (or of f itself)."""
        file = (f.get('bloc') or f['loc']).rsplit(':', 2)[0]
        if node is not None and node.get('l'):
            return '%s:%s' % (file, node['l'])
        return f['loc']


def rel(path):
    """Path relative to the repository, for stable finding keys."""
    if path.startswith(REPO + '/'):
        return path[len(REPO) + 1:]
    return path


# ------------------------------------------------------------------------------ findings
class Finding:
    def __init__(self, rule, key, site, message, where='', unit='', facts=None):
        self.rule = rule
        self.key = '%s|%s' % (rule, key)   # stable: rule|function|subject|ordinal - no line numbers
        self.site = rel(site)
        self.message = message
        self.where = where
        self.unit = unit
        self.facts = facts or {}

    def as_dict(self):
        return {'rule': self.rule, 'key': self.key, 'site': self.site, 'message': self.message,
                'function': self.where, 'unit': self.unit, 'facts': self.facts}


class RuleResult:
    """Outcome of one rule: instances examined, findings, a few samples written out."""

    def __init__(self, rule, decides):
        self.rule = rule
        self.decides = decides
        self.instances = 0          # rule instances examined (over all instantiations)
        self.sites = set()          # distinct source sites examined
        self.findings = []
        self.samples = []
        self.floor = 0
        self.notes = []
        self.broken = None

    def instance(self, site_key, sample=None):
        self.instances += 1
        new = site_key not in self.sites
        self.sites.add(site_key)
        if sample is not None and new and len(self.samples) < 4:
            self.samples.append(sample)

    def add(self, finding):
        if all(f.key != finding.key for f in self.findings):
            self.findings.append(finding)

    def require(self, floor, what=''):
        self.floor = floor
        if len(self.sites) < floor:
            # reported by conclude(): a violation found by another rule takes precedence over a vanished anchor
            self.broken = ('rule %s examined %d distinct sites, floor is %d (%s): the anchor it is '
                           'filled from has vanished or the drivers no longer reach it'
                           % (self.rule, len(self.sites), floor, what))

    def summary(self):
        return {'rule': self.rule, 'decides': self.decides, 'instances': self.instances,
                'distinct_sites': len(self.sites), 'floor': self.floor, 'findings': len(self.findings),
                'notes': self.notes}


# ------------------------------------------------------------------------------ known findings
def load_known(path=None):
    path = path or os.path.join(VERIF, 'known_findings.txt')
    known, fixed = {}, []
    if not os.path.exists(path):
        return known, fixed
    for line in open(path):
        line = line.strip()
        if not line or line.startswith('#'):
            continue
        if line.startswith('known:'):
            parts = dict(p.split('=', 1) for p in line[6:].split() if '=' in p and p.split('=', 1)[0] in ('property', 'key'))
            # key may contain spaces: take everything between 'key=' and ' :: '
            body = line[6:].strip()
            prop = parts.get('property')
            kpos = body.find('key=')
            rest = body[kpos + 4:]
            key, _, what = rest.partition(' :: ')
            known.setdefault(prop, {})[key.strip()] = what.strip()
        elif line.startswith('fixed:'):
            fixed.append(line)
    return known, fixed


# ------------------------------------------------------------------------------ evidence / verdict
def conclude(prop, tier, results, runner, t0, explanation, assumptions, trusted, extra_cov=None, level='other'):
    """Write evidence, print the verdict lines, return the exit code."""
    known, _ = load_known()
    kn = known.get(prop, {})
    findings = [f for r in results for f in r.findings]
    viol = [f for f in findings if f.key not in kn]
    kfs = [f for f in findings if f.key in kn]
    instances = sum(r.instances for r in results)
    sites = sum(len(r.sites) for r in results)
    samples = []
    for r in results:
        for s in r.samples[:3]:
            samples.append(dict(rule=r.rule, **s) if isinstance(s, dict) else {'rule': r.rule, 'sample': s})
    cov = {
        'explanation': explanation,
        'evaluations': instances,
        'distinct_nontrivial': sites,
        'rule': 'one evaluation = one rule instance examined in one instantiation; distinct = distinct '
                '(rule, source site / witness) pairs after de-duplicating instantiations; an instance is '
                'non-trivial because every rule only enumerates sites that carry the construct it constrains',
        'obligations': instances,
        'discharged': instances - len(findings) if instances >= len(findings) else 0,
        'units_parsed': runner.units_run,
        'rules': [r.summary() for r in results],
        'samples': samples[:24] or [{'note': 'no instance'}],
        'checker_cmd': './check %s --tier %s' % (prop, tier),
        'trusted_base': trusted,
        'known_findings_reported': [f.as_dict() for f in kfs],
        'violations_reported': [f.as_dict() for f in viol],
    }
    if extra_cov:
        cov.update(extra_cov)
    ev = {
        'property_id': prop,
        'tier': tier,
        'seed': int(os.environ.get('VERIF_SEED', '0') or 0),
        'level': level,
        'coverage': cov,
        'assumptions': assumptions,
        'wall_s': round(time.time() - t0, 2),
        'violations': len(viol),
    }
    evdir = os.environ.get('VERIF_EVIDENCE_DIR') or os.path.join(VERIF, 'evidence')
    os.makedirs(evdir, exist_ok=True)
    with open(os.path.join(evdir, prop + '.json'), 'w') as f:
        json.dump(ev, f, indent=1, sort_keys=True)
        f.write('\n')
    for r in results:
        print('rule %-14s instances=%-5d sites=%-4d floor=%-3d findings=%d' %
              (r.rule, r.instances, len(r.sites), r.floor, len(r.findings)))
    for f in kfs:
        print('KNOWN-FINDING: property=%s %s at %s: %s' % (prop, f.key, f.site, kn[f.key] or f.message))
    if viol:
        rpdir = os.environ.get('VERIF_REPLAY_DIR') or os.path.join(VERIF, 'replays')
        os.makedirs(rpdir, exist_ok=True)
        for i, f in enumerate(viol):
            rp = os.path.join(rpdir, '%s-%s-%d.json' % (prop, tier, i))
            with open(rp, 'w') as fh:
                json.dump({'property': prop, 'tier': tier, 'finding': f.as_dict()}, fh, indent=1)
            print('%s: [%s] %s\n    in %s\n    key %s' % (f.site, f.rule, f.message, f.where, f.key))
            print('VIOLATION property=%s replay=%s' % (prop, rp))
        return 1
    broken = [r.broken for r in results if r.broken]
    if broken:
        for b in broken:
            print('ANALYSIS-BROKEN: property=%s %s' % (prop, b))
        return 2
    print('OK property=%s tier=%s instances=%d sites=%d units=%d wall=%.1fs' %
          (prop, tier, instances, sites, runner.units_run, time.time() - t0))
    return 0
