"""C04 - SmallSet is observationally a std::set across its inline/large transition (structural clauses)."""
from .. import matrix
from ..rules import sets

from ..rules import round5


def run(tier, runner):
    pts = matrix.smallset_points(tier)
    if tier == 'thorough':
        pts += matrix.smallset_points('quick', std=20)
    progs = matrix.programs(runner, pts) + matrix.real_programs(runner, tier)
    r_state = sets.ss_state(progs)
    r_dup = sets.ss_dup(progs)
    r_cmp = sets.cmp_obj(progs, (sets.SS,))
    r_node = sets.node(progs)
    r_node.findings = [f for f in r_node.findings if 'SmallSet' in f.key]
    r_sib = sets.alt_sib(progs)
    r_mo = sets.merge_order(progs)
    r_lex = sets.lex_sib(progs)
    r_gr = sets.ss_grow(progs)
    r_is = sets.iter_state(progs)
    r_nm = sets.node_move(progs)
    r_nm.findings = [f for f in r_nm.findings if 'SmallSet' in f.key]
    r_ci = sets.cmp_init(progs)
    r_ci.findings = [f for f in r_ci.findings if 'SmallSet' in f.key]
    r_pair = sets.ss_pair(progs)
    r_pair.require(1, 'members that replace a whole container (swap: positive control)')
    r_lex.require(2, 'state combinations of the ordering comparison')
    r_gr.require(2, 'grow call sites')
    r_state.require(25, 'writes to the two containers of SmallSet')
    r_dup.require(2, 'adds to the inline vector')
    r_cmp.require(2, 'SmallSet functions using a comparator')
    r_node.require(2, 'insert(node) overloads')
    r_sib.require(8, 'state-dependent const members')
    r_eq = round5.eq_elem(progs)
    r_eq.findings = [f for f in r_eq.findings if 'SmallSet' in f.key]
    from ..rules import round6
    r_sc = round6.ss_case(progs)
    r_sc.require(6, 'insert x2, emplace, find, contains, count, erase(key) of SmallSet')
    return {
        'results': [r_state, r_dup, r_cmp, r_node, r_sib, r_mo, r_lex, r_gr, r_is, r_ci, r_nm, r_pair, r_eq, r_sc],
        'explanation': 'SS-CASE: insert(value) x2 / emplace / find / contains / count / erase(key) are evaluated in each state (inline and not full, inline and full, large) for a present and an absent key, the inline vector and the set being abstract containers with their std semantics: the whole active container is searched, the key is added exactly once to the right container (after grow() when the inline vector is full), erased exactly there, and the position / flag / count returned are those of std::set.  EQ-ELEM: operator== never consults the ordering comparator.  C04 as stated (membership / size / comparison results over histories) is not decided.  Decided: SS-STATE - exactly one of the two '
                       'containers is written in each state (typestate on isSmall()/isSmallContFull()/grow() facts per operand; grow() moves all of the '
                       'vector into the set and clears it; private helpers are entered with their state established by every caller); SS-DUP - no path '
                       'adds to the inline vector without a membership test over it; CMP-OBJ - the stored comparator is used (also for the sorted '
                       'snapshot of operator<); NODE; ALT-SIB - every state-dependent const member consults only the active container; LEX-SIB - the four state combinations of operator< / <=> all return a lexicographical comparison of (this, other); MERGE-ORDER - merge traverses the source forwards; SS-PAIR - a member that replaces one of the two containers as a whole (assignment, swap) replaces or empties the other one on the same path; SS-GROW - the inline state is left only when the inline vector is full (or the merged set is large).  Both backings '
                       '(std::set and FlatSet) and several N are analysed, so the two instantiations are checked against the same rules.',
        'assumptions': ['the behaviour of the backing set (std::set / FlatSet) is trusted / C03'],
        'trusted': ['the amcsa plugin export', 'libstdc++ 12'],
    }
