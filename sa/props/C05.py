"""C05 - inline-storage promise: no dynamic allocation within N."""
from .. import matrix
from ..rules import callgraph, shape, shape2, encoding, sets

from ..rules import round5


def run(tier, runner):
    allp = matrix.vec_points(tier)
    progs_all = matrix.programs(runner, allp)
    progs = [p for p in progs_all if p.meta['flavour'] == 'fcv']
    small = [p for p in progs_all if p.meta['flavour'] == 'small']
    r1 = callgraph.noalloc(progs)
    r1.require(40, 'FixedCapacityVector members')
    real = matrix.real_programs(runner, tier)
    r_cs = shape.cap_stable(small + real)
    r_gg = shape.grow_guard(small + real)
    r_span = shape2.inline_span(progs_all)
    r_w = encoding.enc_w(small + real)
    r_r = encoding.enc_r(small + real)
    r_es = encoding.enc_sib(small + real)
    tm = matrix.programs(runner, [p for p in matrix.vec_points(tier, elems=['NTRtm']) if p.flavour == 'small'])
    r_si = encoding.shrink_inline(small + tm + real)
    r_es.require(3, 'the three encoders')
    r_si.require(1, 'shrink_impl')
    ssp = matrix.programs(runner, matrix.smallset_points(tier)) + real
    r_ssg = sets.ss_grow(ssp)
    r_sss = sets.ss_state(ssp)
    r_ssg.require(2, 'SmallSet grow call sites')
    r_cs.require(14, 'SmallVector mutators')
    r_gg.require(4, 'grow call sites')
    r_span.require(6, 'inline layouts')
    r_ns = round5.need_size(progs_all + real)
    r_ns.require(4, 'capacity requests of the vector members')
    return {
        'results': [r1, r_cs, r_gg, r_span, r_w, r_r, r_es, r_si, r_ssg, r_sss, r_ns],
        'explanation': 'NEED-SIZE: capacity requests derive from element counts, never from the capacity() of another container (copying from a vector that once was large does not make an inline destination allocate).  NOALLOC: on the complete resolved call graph of every FixedCapacityVector instantiation (all public members, '
                       'all archetypes, both growing policies; bodies of std algorithms included) no allocation request (malloc/realloc/'
                       'operator new/get_temporary_buffer/any allocator allocate) is reachable.  SmallVector, structural half: CAP-STABLE (an allocator request is reachable from the '
                       'mutators only through grow), GROW-GUARD (grow only when capacity() is insufficient), INLINE-SPAN (the elements live inside the '
                       'object), ENC-W / ENC-R (capacity() can report N while inline because the encoding is only written and read through its discipline).  SmallSet: SS-GROW (the allocating inline -> large transition happens only when the inline vector is full and a new element must be added, or when merging a large set) and SS-STATE (only the inline vector is written while inline).',
        'assumptions': ['the allocation of an exception object is not an AST call and is outside the property',
                        'capacity() == N in every reachable inline state is a relation between run-time words and is not decided',
                        'SmallSet: see C04 (SS-STATE); whether std::set allocates for an empty set is a run-time matter of the standard library'],
        'trusted': ['resolved call graph exported by the amcsa plugin', 'libstdc++ 12 headers'],
    }
