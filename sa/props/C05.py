"""C05 - inline-storage promise: no dynamic allocation within N."""
from .. import matrix
from ..rules import callgraph


def run(tier, runner):
    fcv = [p for p in matrix.vec_points(tier) if p.flavour == 'fcv']
    progs = matrix.programs(runner, fcv)
    r1 = callgraph.noalloc(progs)
    r1.require(40, 'FixedCapacityVector members')
    return {
        'results': [r1],
        'explanation': 'NOALLOC: on the complete resolved call graph of every FixedCapacityVector instantiation (all public members, '
                       'all archetypes, both growing policies; bodies of std algorithms included) no allocation request (malloc/realloc/'
                       'operator new/get_temporary_buffer/any allocator allocate) is reachable.',
        'assumptions': ['the allocation of an exception object is not an AST call and is outside the property'],
        'trusted': ['resolved call graph exported by the amcsa plugin', 'libstdc++ 12 headers'],
    }
