"""C10 - arguments that refer to the vector's own elements are handled as if copied first."""
from .. import matrix
from ..rules import lifetime


def run(tier, runner):
    pts = matrix.vec_points(tier)
    progs = matrix.programs(runner, pts)
    r = lifetime.alias(progs)
    r.require(14, 'vector functions taking a reference to an element value')
    return {
        'results': [r],
        'explanation': 'ALIAS: effect ordering inside each operation that takes a (const) reference to an element value (push_back, insert x2, emplace, '
                       'emplace_back, resize, assign, append and the helpers they forward to, per flavour and element category): no read of the reference '
                       'is sequenced after an effect that can move, destroy or reallocate the element it may designate (slot opening, range move / '
                       'relocate, destroy, growth), unless the value was first copied into a local or the reference is the one returned by the re-basing '
                       'adjustCapacity overloads.  In those overloads (REBASE) the in-range test and the index are computed before grow, the in-range '
                       'path returns begin()[idx] of the new buffer and `v` itself is only returned when idx == -1 (v is no element).  If the argument '
                       'is read only before any element moves, the result cannot depend on where the argument lives.',
        'assumptions': ['does not decide the resulting sequence (with ALIAS holding it equals the non-aliased call, which is C01)',
                        'rvalue arguments (T&&) may be assumed not to alias, as for std::vector'],
        'trusted': ['the helper-role table (which calls move elements)', 'the amcsa plugin export'],
    }
