"""C19 - lookups are logarithmic; a correct hint makes insertion search-free."""
from .. import matrix
from ..rules import sets, hint

from ..rules import round5


def run(tier, runner):
    pts = matrix.flatset_points(tier) + matrix.smallset_points(tier)
    progs = matrix.programs(runner, pts) + matrix.real_programs(runner, tier)
    r_s = sets.search(progs)
    r_h = sets.hint_k(progs)
    r_l = sets.lin_small(progs)
    r12, r_hf = hint.hint_ord(progs)
    r_hf.require(30, 'scenarios with a correct hint')
    r_s.require(10, 'FlatSet lookup members')
    r_h.require(1, 'insert_hint')
    r_l.require(5, 'inline-state lookups of SmallSet')
    r_os = round5.one_scan(progs)
    r_os.require(3, 'SmallSet members that scan the inline vector')
    return {
        'results': [r_s, r_h, r_hf, r_l, r_os],
        'explanation': 'ONE-SCAN: every SmallSet operation scans the inline vector at most once per path.  SEARCH: each FlatSet lookup and position search (find, contains, count, lower/upper_bound, equal_range, transparent variants, mfind, '
                       'insert_val, erase(key), extract(key)) performs, on every path through it and its amc callees, exactly one std binary search, at most 2 '
                       'further direct comparator calls, no loop and no linear algorithm that receives the comparator; with the standard\'s bound for the '
                       'search algorithms (<= ceil(log2(n+1))+1 comparisons) this gives <= 2*ceil(log2(n+1))+4 for every n.  HINT-K: insert_hint is '
                       'loop-free and makes at most 4 comparator calls on every path that reaches neither a search nor the un-hinted insert.  HINT-FREE: abstract interpretation of insert_hint over the finite domain of orderings (see C12): in every scenario in which the hint is correct (lower_bound <= hint <= upper_bound, present or absent value, at begin / middle / end) the path taken performs no search and at most 4 comparator calls.  LIN-SMALL: the '
                       'inline-state lookup of SmallSet is one linear scan whose predicate makes at most 2 comparator calls per element: <= 2N+2.',
        'assumptions': [
                        'the complexity clauses of std::lower_bound / upper_bound are trusted'],
        'trusted': ['ISO C++ complexity requirements of the binary-search algorithms', 'the amcsa plugin export'],
    }
