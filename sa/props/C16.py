"""C16 - behaviour independent of C++ standard, pedantic mode, assertions (static slice)."""
from .. import matrix, witness
from ..lib.core import Unit
from ..rules import config


def detection_witnesses():
    w = witness.Witnesses('c16', ['<amc/vector.hpp>', '<amc/smallvector.hpp>', '<amc/fixedcapacityvector.hpp>', '<amc/flatset.hpp>', 'oracle.hpp', '<utility>', '<cstdint>'])
    w.prelude.append('''
namespace k16 {
struct ThrowingAdlSwap { ThrowingAdlSwap(ThrowingAdlSwap&&) noexcept; ThrowingAdlSwap& operator=(ThrowingAdlSwap&&) noexcept; ~ThrowingAdlSwap(); int a; };
void swap(ThrowingAdlSwap&, ThrowingAdlSwap&);                 // found by ADL, may throw although the moves cannot
struct NoexceptAdlSwap { NoexceptAdlSwap(NoexceptAdlSwap&&); NoexceptAdlSwap& operator=(NoexceptAdlSwap&&); ~NoexceptAdlSwap(); int a; };
void swap(NoexceptAdlSwap&, NoexceptAdlSwap&) noexcept;         // found by ADL, cannot throw although the moves can
struct ThrowingMoves { ThrowingMoves(ThrowingMoves&&); ThrowingMoves& operator=(ThrowingMoves&&); ~ThrowingMoves(); int a; };
}
using V = amc::SmallVector<int, 4>;
using F = amc::FlatSet<int>;
template <class X> using append_t = decltype(std::declval<X &>().append(2));
template <class X> using pop_back_val_t = decltype(std::declval<X &>().pop_back_val());
template <class X> using swap2_t = decltype(std::declval<X &>().swap2(std::declval<X &>()));
template <class X> using data_t = decltype(std::declval<X &>().data());
template <class X> using index_t = decltype(std::declval<X &>()[0]);
template <class X> using at_t = decltype(std::declval<X &>().at(0));
template <class X> using capacity_t = decltype(std::declval<X &>().capacity());
template <class X> using reserve_t = decltype(std::declval<X &>().reserve(2));
template <class X> using shrink_t = decltype(std::declval<X &>().shrink_to_fit());
template <class X> using steal_t = decltype(std::declval<X &>().steal_vector());
template <class X> using push_back_t = decltype(std::declval<X &>().push_back(1));
template <class X> using insert_t = decltype(std::declval<X &>().insert(1));
#ifdef AMC_NONSTD_FEATURES
#define W_EXTRAS true
#else
#define W_EXTRAS false
#endif
''')
    for nm, T in [('append', 'V'), ('pop_back_val', 'V'), ('swap2', 'V'), ('data', 'F'), ('index', 'F'), ('at', 'F'), ('capacity', 'F'), ('reserve', 'F'),
                  ('shrink', 'F'), ('steal', 'F')]:
        w.add('DETECT', 'extra|%s|%s' % (nm, T), 'oracle::is_detected<%s_t, %s>::value == W_EXTRAS' % (nm, T),
              'the non-standard extra %s of %s is usable exactly when AMC_NONSTD_FEATURES is defined' % (nm, T))
    # compile-time constants that have separate pre-C++14/17 source: same value in every configuration
    for T, n in [('char', 'sizeof(void*)'), ('int', 'sizeof(void*) / sizeof(int)'), ('oracle::Blob<3, 1>', 'sizeof(void*) / 3'), ('oracle::Blob<16, 8>', '1'), ('double', '1')]:
        w.add('CONST', 'kNbSlots|' + T, 'amc::vec::ElemWithPtrStorage<%s >::kNbSlots == (%s)' % (T, n), 'kNbSlots<%s> is max(sizeof(pointer)/sizeof(T), 1) in every configuration' % T)
    w.add('CONST', 'sizeof|SmallVector<char,8>', 'sizeof(void*) != 8 || sizeof(amc::SmallVector<char, 8>) == sizeof(amc::vector<char>)', 'layout constant identical in every configuration')
    w.add('CONST', 'sizeof|SmallVector<int,5>', 'sizeof(void*) != 8 || sizeof(amc::SmallVector<int, 5>) == 32', 'layout constant identical in every configuration')
    w.add('CONST', 'sizetype|256', 'std::is_same<amc::vec::SmallestSizeType<256>::type, std::uint16_t>::value', 'SmallestSizeType identical in every configuration')
    w.add('CONST', 'sizetype|255', 'std::is_same<amc::vec::SmallestSizeType<255>::type, std::uint8_t>::value', 'SmallestSizeType identical in every configuration')
    for t in ('int', 'k16::ThrowingAdlSwap', 'k16::NoexceptAdlSwap', 'k16::ThrowingMoves', 'amc::vector<int>', 'amc::FixedCapacityVector<k16::ThrowingAdlSwap, 3>'):
        w.add('CONST', 'nothrow_swappable|' + t, 'amc::is_nothrow_swappable<%s >::value == oracle::sw::nothrow<%s >::value' % (t, t),
              'is_nothrow_swappable<%s> is the noexcept of the swap that unqualified lookup + ADL selects, in every standard' % t)
    for t in ('k16::ThrowingAdlSwap', 'k16::ThrowingMoves'):
        V3 = 'amc::SmallVector<%s, 3>' % t
        w.add('CONST', 'swap_noexcept|' + t, 'noexcept(std::declval<%s &>().swap(std::declval<%s &>())) == (std::is_nothrow_move_constructible<%s >::value && oracle::sw::nothrow<%s >::value)' % (V3, V3, t, t),
              'swap of SmallVector<%s,3> has the same exception specification in every standard' % t)
    w.add('CONST', 'nothrow_swappable', 'amc::is_nothrow_swappable<int>::value && amc::is_nothrow_swappable<amc::vector<int> >::value', 'is_nothrow_swappable emulation agrees with the standard trait')
    w.add('DETECT', 'std|push_back', 'oracle::is_detected<push_back_t, V>::value', 'standard members stay available in every mode')
    w.add('DETECT', 'std|insert', 'oracle::is_detected<insert_t, F>::value', 'standard members stay available in every mode')
    w.add('DETECT', 'spaceship', '(__cplusplus >= 202002L) == (__cpp_impl_three_way_comparison >= 201907L)', 'three-way comparison is a C++20 feature', minstd=20)
    return w


def run(tier, runner):
    stds = [14, 17] if tier == 'quick' else [11, 14, 17, 20]
    elems = ['TC', 'NTR']
    # same drivers under several configurations
    def cfg(std, nonstd, ndebug):
        pts = matrix.vec_points('quick', elems=elems, std=std, nonstd=nonstd, ndebug=ndebug) + \
            matrix.flatset_points('quick', elems=['TC'], std=std, nonstd=nonstd, ndebug=ndebug)
        if std >= 17:
            pts += matrix.smallset_points('quick', elems=['TC'], std=std, nonstd=nonstd, ndebug=ndebug)
        if nonstd and not ndebug:
            pts += [p for p in matrix.swap2_points('quick', std=std) if p.elem == 'NTR']
        return matrix.programs(runner, pts)
    base = {s: cfg(s, True, False) for s in stds}
    ped = cfg(17, False, False)
    ndb = cfg(17, True, True)
    r_assert = config.assert_pure(base[17])
    if getattr(r_assert, 'single_pass_sites', 0) < 1:
        r_assert.require(10 ** 9, 'asserts inside functions instantiated with the single-pass iterator archetype (positive control of the consumed-range clause)')
    def by_name(xs, ys):
        yn = {p.unit.name: p for p in ys}
        return [(p, yn[p.unit.name]) for p in xs if p.unit.name in yn]
    r_body_n = config.body_diff(by_name(base[17], ped), 'with and without AMC_NONSTD_FEATURES')
    r_body_d = config.body_diff(by_name(base[17], ndb), 'with and without NDEBUG (assert expansions aside)', ignore_assert=True)
    r_body_d.rule = 'BODY-DIFF-NDEBUG'
    r_api_n = config.api_diff_nonstd(by_name(base[17], ped))
    r_api_s = config.api_diff_std(base)
    pairs = []
    for a, b in zip(stds, stds[1:]):
        bn = {p.unit.name: p for p in base[b]}
        pairs += [(p, bn[p.unit.name]) for p in base[a] if p.unit.name in bn]
    r_eff = config.effect_diff(pairs, '(containers)')
    allp = [p for s in stds for p in base[s]] + ped + ndb
    r_ret = config.returns(allp + matrix.real_programs(runner, tier))
    pre17 = [p for s_ in stds if s_ < 17 for p in base[s_]] + matrix.programs(runner, matrix.memalg_points('quick', stds=[s_ for s_ in stds if s_ < 17]))
    r_emu = config.emul_effect(pre17)
    from ..rules import callgraph
    r_same = callgraph.bytecopy_sametype(pre17)
    from ..rules import round5
    r_di = round5.direct_init([p for s_ in stds if s_ < 20 for p in base[s_]] + pre17)
    r_same.require(2, 'byte copies issued by the pre-C++17 emulations')
    r_adv = config.advance(pre17)
    w = detection_witnesses()
    wstds = [11, 14, 17, 20]                 # the witnesses are one -fsyntax-only unit per configuration: every standard, also in the quick tier
    cfgs = [(s, True, False) for s in wstds] + [(s, False, False) for s in wstds]
    r_w = witness.run_witnesses(runner, w, cfgs, ['clang++'] if tier == 'quick' else ['clang++', 'g++'],
                                {'DETECT': 'features a configuration does not offer are absent at compile time (detection idiom)',
                                 'CONST': 'compile-time constants with separate pre-C++14/17 source have the same value in every configuration'})
    # smallset.hpp does not compile before C++17
    neg = Unit('c16-smallset-pre17', '#include <amc/smallset.hpp>\nint main() { return 0; }\n', std=14, plugin=False, expect_fail=True)
    res = runner.run([neg])[0]
    from ..lib.core import RuleResult, Finding
    r_neg = RuleResult('ABSENT', 'SmallSet is absent (does not compile) before C++17 rather than present with different behaviour')
    r_neg.instance('smallset-c++14', {'unit': 'smallset.hpp under -std=c++14', 'compiles': res.rc == 0})
    if res.rc == 0:
        r_neg.add(Finding('ABSENT', 'smallset|c++14', 'include/amc/smallset.hpp', 'smallset.hpp compiles under C++14: the feature must be absent before C++17'))
    r_assert.require(10, 'assert expansions')
    r_body_n.require(100, 'function bodies compared')
    r_api_n.require(40, 'API members compared')
    return {
        'results': [r_assert, r_body_n, r_body_d, r_api_n, r_api_s, r_eff, r_ret, r_emu, r_same, r_di, r_adv, r_neg] + r_w,
        'explanation': 'The static slice of C16.  BODY-DIFF: every instantiated function body is identical with and without AMC_NONSTD_FEATURES, and '
                       'identical with and without NDEBUG once assert expansions are removed; ASSERT-PURE: assert arguments have no side effect, so '
                       'assertions cannot change behaviour; API-DIFF / DETECT: the pedantic mode only hides or removes the documented extras (detection '
                       'idiom: not usable when off, usable when on), everything else keeps name and access; API-STD: the member set is the same in '
                       'every standard except the documented ones (node API from C++17, <=> in C++20); ABSENT: smallset.hpp does not compile before '
                       'C++17; EFFECT-DIFF: where #if selects different source per standard both alternatives have the same effect signature; DIRECT-INIT: the pre-C++20 construct_at emulation direct-initialises like std::construct_at (no list-initialisation); SAMETYPE: the pre-C++17 emulations issue memcpy / memmove only between pointers to the same value type (instantiated with float->int, unsigned->int, int->long, char->signed char: the standard algorithm converts); EMUL-EFFECT / ADVANCE: the pre-C++17 emulations of the memory algorithms have the effect class and the iterator advance of the standard algorithms that C++17/20 builds use instead (e.g. value-construct zeroes trivial elements in every standard); RETURN: '
                       'no function falls off its end in any configuration (always-UB that would make results optimisation dependent).',
        'assumptions': ['transcript equality of whole programs and undefined behaviour that no rule here covers are not decided',
                        'optimisation levels are covered only through the absence of the diagnosable undefined behaviour above'],
        'trusted': ['clang 14 front end', 'the amcsa plugin export'],
        'coverage': {'standards': stds},
    }
