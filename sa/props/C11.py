"""C11 - SmallSet iteration and iterator contract holds in and across both states."""
from .. import matrix
from ..rules import sets
from ..lib.core import RuleResult, Finding, walk, rel
from ..lib import ast as A

from ..rules import round5


def variant_alt(progs):
    rr = RuleResult('VARIANT-ALT', 'the variant iterator fixes its alternative only in toSetIt/toVecIt, and those are called only where the matching '
                                   'state is established (inline branch -> toVecIt, large branch -> toSetIt)')
    for prog in progs:
        for f in prog.amc_functions():
            if f.get('body') is None:
                continue
            if f['name'].startswith('amc::SmallSetIteratorCommon::'):
                gets = [c for c in A.calls(f['body']) if A.callee(c) == 'std::get']
                ok = not gets or f['name'].endswith(('toSetIt', 'toVecIt'))
                rr.instance(f['key'], {'function': f['pname'][:140], 'std_get_calls': len(gets), 'ok': ok})
                if not ok:
                    rr.add(Finding('VARIANT-ALT', f['key'], f['loc'], 'std::get of a fixed alternative outside toSetIt/toVecIt: the iterator may hold the other alternative',
                                   where=f['pname'], unit=prog.uname))
            if f['name'].startswith('amc::SmallSet::'):
                P = None
                for c in A.calls(f['body']):
                    if A.callee(c) in ('amc::SmallSetIteratorCommon::toVecIt', 'amc::SmallSetIteratorCommon::toSetIt'):
                        P = P or A.Parents(f['body'])
                        want_small = A.callee(c).endswith('toVecIt')
                        ok = False
                        seen_guard = False
                        for cond, truth in P.guards(c):
                            for x in walk(cond):
                                if x.get('k') == 'call' and A.callee(x) == 'amc::SmallSet::isSmall':
                                    seen_guard = True
                                    neg = sets_negated(cond, x)
                                    if (truth != neg) == want_small:
                                        ok = True
                        # after `if (isSmall()) { ... return }` the rest of the function is the large state
                        if not seen_guard and not want_small:
                            ok = _after_small_return(f['body'], c)
                        if f['name'].endswith('ToSetIt'):
                            ok = True
                        rr.instance('%s|%s|%s' % (f['key'], A.cshort(c), rel(prog.site(f, c))), {'function': f['pname'][:140], 'call': A.cshort(c), 'state_matches': ok})
                        if not ok:
                            rr.add(Finding('VARIANT-ALT', '%s|%s' % (f['key'], A.cshort(c)), prog.site(f, c),
                                           '%s is applied where the %s state is not established' % (A.cshort(c), 'inline' if want_small else 'large'),
                                           where=f['pname'], unit=prog.uname))
    return rr


def sets_negated(cond, c):
    from ..rules.encoding import _negated_in
    return _negated_in(cond, c)


def _after_small_return(body, call):
    """call comes (in evaluation order) after an `if (isSmall()) { ...; return ...; }` at block level."""
    order = A.eval_order(body)
    for n in walk(body):
        if n.get('k') == 'if' and isinstance(n.get('c'), dict):
            cn = A.strip(n['c'])
            if cn.get('k') == 'call' and A.callee(cn) == 'amc::SmallSet::isSmall' and n.get('else') is None:
                th = n.get('then')
                stm = th.get('s', []) if isinstance(th, dict) and th.get('k') == 'block' else [th]
                if stm and isinstance(stm[-1], dict) and stm[-1].get('k') == 'ret' and order.get(id(n), 0) < order.get(id(call), 0):
                    return True
    return False


def run(tier, runner):
    pts = matrix.smallset_points(tier)
    progs = matrix.programs(runner, pts) + matrix.real_programs(runner, tier)
    r_alt = sets.iter_alt(progs)
    r_sib = sets.alt_sib(progs)
    r_var = variant_alt(progs)
    r_is = sets.iter_state(progs)
    r_is.require(4, 'iterator-returning modifiers')
    r_alt.require(2, 'iterator-returning removals')
    r_sib.require(8, 'begin/end/rbegin/rend/find/size ...')
    r_var.require(8, 'alternative accesses')
    r_np = sets.node_pos(progs)
    r_np.findings = [f for f in r_np.findings if 'SmallSet' in f.key]
    r_np.require(2, 'insert(node) overloads returning insert_return_type')
    r_as = sets.arrow_star(progs)
    r_as.require(1, 'iterator classes with operator* and operator->')
    r_er = round5.erase_ret(progs)
    r_er.require(2, 'inline-state returns of the erase overloads')
    from ..rules import round6
    r_pc = round6.postfix_copy(progs)
    r_pc.require(2, 'postfix ++ / -- of the SmallSet iterator (forward and reverse)')
    return {
        'results': [r_alt, r_sib, r_var, r_is, r_np, r_as, r_er, r_pc],
        'explanation': 'POSTFIX-COPY: the postfix ++ / -- of the iterator return a by-value copy taken before the step.  ERASE-RET: in the inline state erase returns what the erase of the inline vector returned.  ARROW-STAR: operator-> of the SmallSet iterator (forward and reverse instantiations) takes the address of what operator* returns.  NODE-POS: insert(node) stores the position returned by the insertion it performed on every path, also when the node was refused.  ITER-ALT: every iterator handed to the caller after a call that can remove the last element of the large-state set is built only after '
                       're-testing which container is active (so erase returns end() of the active container); ALT-SIB: begin/end/rbegin/rend/find/size '
                       'select their alternative with the same predicate and consult only the active container; ITER-STATE: the iterator returned by insert / emplace / insert_small is built from the container that holds the elements at the return (the set once the call has grown, the inline vector otherwise); VARIANT-ALT: the variant iterator fixes '
                       'its alternative only in toSetIt/toVecIt, which SmallSet calls only in the matching state.  Both backings, N in {1,2,4}.',
        'assumptions': ['"visits every element exactly once" follows from the underlying containers (trusted)'],
        'trusted': ['libstdc++ 12 std::variant / std::set', 'the amcsa plugin export'],
    }
