"""C15 - amc:: memory algorithms equal the standard ones, with clean-up on throw."""
from .. import matrix, witness, gen
from ..rules import config, lifetime, callgraph

from ..rules import round5


def sig_witnesses():
    w = witness.Witnesses('c15', ['<amc/memory.hpp>', 'elem_types.hpp', '<type_traits>', '<utility>', '<iterator>'])
    w.prelude.append('using E = arch::NTR; using T = arch::TC; using FI = arch::MutFwdIt<E>;')
    P = 'std::declval<E*>()'
    CP = 'std::declval<const E*>()'
    F = 'std::declval<FI>()'
    N = '3'
    exp = [
        ('construct_at', 'amc::construct_at(%s, 1)' % P, 'E*'),
        ('destroy_at', 'amc::destroy_at(%s)' % P, 'void'),
        ('destroy', 'amc::destroy(%s, %s)' % (P, P), 'void'),
        ('destroy_n', 'amc::destroy_n(%s, %s)' % (P, N), 'E*'),
        ('destroy_n-fwd', 'amc::destroy_n(%s, %s)' % (F, N), 'FI'),
        ('uninitialized_copy', 'amc::uninitialized_copy(%s, %s, %s)' % (CP, CP, P), 'E*'),
        ('uninitialized_copy_n', 'amc::uninitialized_copy_n(%s, %s, %s)' % (CP, N, P), 'E*'),
        ('uninitialized_copy_n-fwd', 'amc::uninitialized_copy_n(%s, %s, %s)' % (CP, N, F), 'FI'),
        ('uninitialized_move', 'amc::uninitialized_move(%s, %s, %s)' % (P, P, P), 'E*'),
        ('uninitialized_move_n', 'amc::uninitialized_move_n(%s, %s, %s)' % (P, N, P), 'std::pair<E*, E*>'),
        ('uninitialized_move_n-fwd', 'amc::uninitialized_move_n(%s, %s, %s)' % (P, N, F), 'std::pair<E*, FI>'),
        ('uninitialized_default_construct', 'amc::uninitialized_default_construct(%s, %s)' % (P, P), 'void'),
        ('uninitialized_default_construct_n', 'amc::uninitialized_default_construct_n(%s, %s)' % (P, N), 'E*'),
        ('uninitialized_value_construct', 'amc::uninitialized_value_construct(%s, %s)' % (P, P), 'void'),
        ('uninitialized_value_construct_n', 'amc::uninitialized_value_construct_n(%s, %s)' % (P, N), 'E*'),
        ('uninitialized_default_construct_n-triv', 'amc::uninitialized_default_construct_n(std::declval<T*>(), %s)' % N, 'T*'),
        ('uninitialized_value_construct_n-triv', 'amc::uninitialized_value_construct_n(std::declval<T*>(), %s)' % N, 'T*'),
        ('uninitialized_relocate', 'amc::uninitialized_relocate(%s, %s, %s)' % (P, P, P), 'E*'),
        ('uninitialized_relocate_n', 'amc::uninitialized_relocate_n(%s, %s, %s)' % (P, N, P), 'std::pair<E*, E*>'),
        ('relocate_at', 'amc::relocate_at(%s, %s)' % (P, P), 'E*'),
    ]
    for name, e, t in exp:
        w.add('SIG', 'sig|' + name, 'std::is_same<decltype(%s), %s >::value' % (e, t), '%s returns %s, as the standard algorithm' % (name, t))
    return w


def run(tier, runner):
    stds = [14, 17] if tier == 'quick' else [11, 14, 17, 20]
    pts = matrix.memalg_points(tier, stds=stds)
    progs = matrix.programs(runner, pts)
    r_ret = config.returns(progs)
    r_ord = config.reloc_order(progs)
    r_adv = config.advance(progs)
    r_emu = config.emul_effect(progs)
    r_adv.require(4, 'emulations returning an advanced iterator')
    r_emu.require(8, 'emulated algorithm overloads')
    ob = lifetime.obligations(progs)
    r_raw = ob['RAWTAIL']
    r_cur = lifetime.cursor(progs)
    r_same = callgraph.bytecopy_sametype(progs)
    r_cur.require(4, 'try blocks with a constructing loop and a roll-back handler (pre-C++17 emulations)')
    nonreloc = [(p, p.meta['E']) for p in progs if p.meta['elem'] not in gen.RELOC and p.meta['elem'] not in gen.TRIV_COPY]
    reloc = [(p, p.meta['E']) for p in progs if p.meta['elem'] in gen.RELOC]
    r_mem, npos = callgraph.memop(nonreloc, reloc)
    # effect agreement between the alternatives selected by different standards
    by = {}
    for p in progs:
        by.setdefault(p.meta['elem'], {})[p.meta['std']] = p
    pairs = []
    for e, d in by.items():
        ss = sorted(d)
        for a, b in zip(ss, ss[1:]):
            pairs.append((d[a], d[b]))
    r_eff = config.effect_diff(pairs, '(memory.hpp emulations)')
    w = sig_witnesses()
    r_w = witness.run_witnesses(runner, w, [(s, True, False) for s in stds], ['clang++'] if tier == 'quick' else ['clang++', 'g++'],
                                {'SIG': 'return types / iterator advances equal the standard declarations'})
    r_ret.require(20, 'non-void amc functions of the memory algorithms')
    r_ord.require(3, 'generic relocate implementations and MemMove modes')
    r_raw.require(10, 'constructing loops / algorithms')
    r_di = round5.direct_init(progs)
    r_cf = round5.ctor_fwd(progs)
    r_cf.require(4, 'construct_at instantiations of the value-category driver')
    from ..rules import round6
    r_cg = round6.contig(progs)
    r_cg.require(2, 'byte copies issued by the memory algorithms')
    from ..rules import seglayout
    r_ml = seglayout.memalg_layout(progs)
    r_ml.require(12, 'amc:: memory algorithms with their own body, instantiated with raw pointers')
    return {
        'results': [r_ret, r_ord, r_adv, r_emu, r_raw, r_cur, r_same, r_mem, r_eff, r_di, r_cf, r_cg, r_ml] + r_w,
        'explanation': 'MEMALG-LAYOUT: every amc:: algorithm that has its own body in the analysed standard (uninitialized_copy(_n) / move(_n) / value_construct(_n) / default_construct(_n) / destroy(_n) before C++17, relocate(_n) / relocate_at always), instantiated with raw pointers for every element archetype, is interpreted over an abstract source and destination range (array segmentation, symbolic count, the implementation selected by the trait - Default / MemMove / MemMoveInALoop - inlined, loops accelerated, memcpy / memmove / placement new / construct_at / destroy_at as transformers): on every normal path the destination holds exactly the n source elements in order, the sources are untouched / moved-from / gone as the algorithm specifies, nothing else is alive, and the returned position(s) are those of the standard algorithm.  CONTIG: a byte copy of more than one element takes both addresses from raw pointers - an address obtained by dereferencing a class-type iterator (reverse_iterator, deque::iterator: random access but not contiguous; instantiated on both sides) is only used for one element.  DIRECT-INIT: the construct_at emulation direct-initialises like std::construct_at.  SAMETYPE: memcpy / memmove only between pointers to the same value type (cross-type copies are instantiated and must convert).  CURSOR: in every try { constructing loop } catch { destroy(first, cursor) } the cursor is never advanced inside the arguments of the constructing call, so the handler destroys exactly the objects that exist.  Per language standard (different implementations are selected by the #if ladders): RETURN - every non-void function returns on every '
                       'path; SIG - result types and iterator advances as the standard algorithms (compile-time); CLEANUP (RAWTAIL on memory.hpp) - every '
                       'construct loop is inside a try whose handler destroys [dest,current) and rethrows, so partial output is destroyed on throw; '
                       'RELOC-ORDER - the generic relocate move-constructs every destination before destroying any source (sources stay alive when a '
                       'constructor throws), bulk memcpy/memmove only for raw pointers; MEMOP - byte-copy modes only for types whose trait allows; '
                       'EFFECT-DIFF - where two standards select different source for one function both have the same effect signature; ADVANCE - a returned iterator that is a bare parameter was advanced by this function (iterator advances as the standard algorithms); EMUL-EFFECT - every overload of an emulation has the effect class of the standard algorithm (value-construct writes every element, also for trivial types).',
        'assumptions': ['value equality of the constructed objects is not decided'],
        'trusted': ['libstdc++ 12 std::uninitialized_* (selected from C++17 on)', 'compile-time evaluation by clang/g++', 'the helper-role table'],
        'coverage': {'standards': stds},
    }
