"""C17 - static contract: relocatability trait, layout, size_type, triviality, noexcept."""
from ..lib.core import CLANG, GXX
from .. import witness

DECIDES = {
    'RELOC': 'is_trivially_relocatable<T> equals the oracle (declares true_type | undeclared and trivially copyable | pair of relocatables)',
    'DTOR': 'FixedCapacityVector<T,N> trivially destructible exactly when T is',
    'SIZETYPE': 'FixedCapacityVector size_type is the smallest unsigned type able to hold N',
    'LAYOUT': 'sizeof(SmallVector<T,N>) <= sizeof(vector<T>) when N elements fit in a pointer, else adds at most N slots + alignment padding; the N inline slots exist',
    'NOEXCEPT': 'move construction / move assignment / swap are noexcept exactly under the documented conditions',
    'TR-CONJ': "each container's trivially_relocatable is the conjunction of its parts'",
}


def run(tier, runner):
    w = witness.c17_witnesses(tier)
    if tier == 'quick':
        configs = [(17, True, False)]
        compilers = [CLANG, GXX]
    else:
        configs = [(11, True, False), (14, True, True), (17, True, False), (17, False, True), (20, True, False)]
        compilers = [CLANG, GXX]
    results = witness.run_witnesses(runner, w, configs, compilers, DECIDES)
    floors = {'RELOC': 40, 'DTOR': 12, 'SIZETYPE': 20, 'LAYOUT': 500, 'NOEXCEPT': 60, 'TR-CONJ': 60}
    for r in results:
        r.require(floors[r.rule], 'generated witness matrix')
    return {
        'results': results,
        'explanation': 'Every clause of C17 is a compile-time constant, so the compiler is the decision procedure: a generated '
                       'static_assert matrix (element kinds x N x size_type x language standard) is parsed by clang++ and g++ '
                       '(-fsyntax-only); each expected value comes from an independent constexpr oracle (sa/drivers/oracle.hpp), '
                       'not from amc helpers.  A failing assertion is mapped back to its matrix point and reported.',
        'assumptions': ['x86-64 Linux ABI (the layout clauses are decided for this target)',
                        'the oracle transcribes the property statement faithfully'],
        'trusted': ['clang 14 and g++ 12 constant evaluation / record layout', 'libstdc++ 12 type traits'],
        'coverage': {'exhaustive': True, 'configs': ['c++%d%s%s' % (s, '' if n else ' pedantic', ' NDEBUG' if d else '') for s, n, d in configs],
                     'compilers': compilers},
    }
