"""C08 - capacity-limit errors are clean: exception thrown, container untouched."""
from .. import matrix
from ..lib.core import AnalysisBroken
from ..rules import shape, lifetime, ownership

from ..rules import round5


def run(tier, runner):
    pts = matrix.vec_points(tier)
    if tier == 'thorough':
        pts += matrix.vec_points('quick', std=11)
    pts += matrix.swap2_points(tier)
    progs = matrix.programs(runner, pts)
    r_tt, roles = shape.throw_type(progs)
    missing = set(shape.THROW_ROLES) - roles
    if missing:
        raise AnalysisBroken('documented throw sites not found any more: %s' % sorted(missing))
    real = matrix.real_programs(runner, tier)
    r_w = shape.widen(progs + real)
    r_geo, facts = shape.geo(progs)
    r_cd = lifetime.check_dom(progs + real)
    ob = lifetime.obligations([p for p in progs if p.meta.get('elem') != 'NTRtm'])
    r_cf = ownership.check_first(progs + real)
    r_ew = shape.exact_who(progs + real, all_entries=True)
    r_ew.require(20, 'public members of the vectors other than reserve / shrink_to_fit')
    r_cf.require(10, 'operations that test the capacity limit themselves')
    r_cd.require(15, 'constructs into container storage')
    r_tt.require(4, 'throw expressions of the vector headers')
    r_w.require(16, 'capacity requests')
    r_rm = round5.range_measure(progs + real)
    r_rm.require(4, 'range members instantiated with a multi-pass iterator')
    from ..rules import callgraph
    r_tr = callgraph.throw_reach(progs + real)
    r_tr.require(60, 'amc functions whose exception specification evaluates to noexcept(true)')
    return {
        'results': [r_tt, r_w, r_geo, r_cd, r_cf, r_ew, ob['TEMP'], r_rm, r_tr],
        'explanation': 'THROW-REACH: no function whose exception specification evaluates to noexcept(true) - the ADL swap between vectors of different inline capacity included - reaches the capacity check or another throw source: the caller gets the exception, not std::terminate.  RANGE-MEASURE: range members instantiated with multi-pass iterators (pointers, forward iterators) test the limit once for the whole range before modifying anything.  THROW-TYPE: the only throw expressions of the vector headers are the fixed-capacity check (out_of_range, exactly when the request '
                       'exceeds the capacity), SafeNextCapacity and swap_sizetype (overflow_error) and at() (out_of_range exactly when idx >= size()).  '
                       'WIDEN: every size handed to a capacity check / grow is computed in a type wider than size_type or in 64 bits, per size_type '
                       'archetype, from the type of the instantiated expression.  GEO: SafeNextCapacity clamps at size_type max and throws before any effect.  EXACT-WHO: the exact path of SafeNextCapacity has no overflow test (its only caller, reserve, takes a size_type); no element-adding operation - whose request is computed in uintmax_t - reaches a capacity request with exact = true.  CHECK-FIRST: in every operation that tests the limit itself the test precedes the first modification of the container on every path (path-sensitive typestate over the structured body).',
        'assumptions': ['"contents exactly as before" is decided in its structural form: the limit check dominates every mutation (CHECK-DOM) and no temporary is leaked when it throws (TEMP)'],
        'trusted': ['clang 14 expression typing (integral promotion) in the instantiation', 'the amcsa plugin export'],
    }
