"""C06 - allocator protocol: each block returned once with its own size, none left."""
from .. import matrix, gen
from ..rules import ownership, callgraph, encoding, shape2


def run(tier, runner):
    pts = [p for p in matrix.vec_points(tier) if p.flavour != 'fcv'] + matrix.swap2_points(tier)
    progs = matrix.programs(runner, pts)
    vp = [p for p in progs if 'flavour' in p.meta]
    real = matrix.real_programs(runner, tier)
    r_da = ownership.alloc_args(progs + real)
    r_fa = ownership.free_all(progs + real)
    r_st = ownership.steal(vp)
    r_re = callgraph.realloc_tr([(p, p.meta['E'], p.meta['elem'] in gen.RELOC, p.meta['alloc'] in ('amc', 'realloc')) for p in vp])
    r_w = encoding.enc_w(progs + real)
    tm = matrix.programs(runner, [p for p in matrix.vec_points(tier, elems=['NTRtm']) if p.flavour != 'fcv'] +
                         [p for p in matrix.memalg_points('thorough', stds=[17]) if p.elem in ('NTRtm', 'NTR')])
    r_blk = ownership.block(progs + tm + real)
    r_xa = ownership.xalloc([p for p in progs if 'flavour' not in p.meta])
    r_xa.require(6, 'canSwapDynStorage instantiations (receiver x operand)')
    r_sr = ownership.stale_read([p for p in progs if 'flavour' not in p.meta] + real)
    r_blk.require(3, 'functions that hold a fresh block in a local variable (Reallocate, SmallVectorBase::grow, amc::allocator reallocate)')
    r_da.require(9, 'deallocate / Reallocate call sites')
    r_fa.require(8, 'storage pointer overwrites and releasing functions')
    r_st.require(6, 'buffer hand-over functions')
    r_re.require(6, 'vector instantiations')
    from ..rules import round6
    r_us = round6.union_state(progs + real)
    r_us.require(6, 'reads of the heap pointer alternative')
    from ..rules import objlayout
    r_gl = objlayout.grow_layout([p_ for p_ in progs if 'flavour' in p_.meta])
    r_gl.require(4, 'grow / shrink / resetToSmall instantiations of the vector bases')
    from ..rules import objlayout as _ol
    r_xl = _ol.xchg_layout([p_ for p_ in progs if 'flavour' in p_.meta])
    r_xl.require(3, 'swap_impl / move_construct / move_assign instantiations of SmallVectorBase')
    r_xs = _ol.std_xchg_layout([p_ for p_ in progs if 'flavour' in p_.meta])
    r_xs.require(3, 'swap_impl / move_construct / move_assign instantiations of StdVectorBase')
    return {
        'results': [r_da, r_fa, r_st, r_re, r_w, r_blk, r_sr, r_xa, r_us, r_gl, r_xl, r_xs],
        'explanation': 'XCHG-STD: the same three members of StdVectorBase (amc::vector), with and without a block on either side: pointer, capacity and size change hands together, a moved-from vector holds (null, 0, 0), elements stay in their blocks, the receiver of a move assignment destroys its former elements and gives its block back once with its capacity.  XCHG-LAYOUT: swap_impl / move_construct / move_assign of SmallVectorBase are interpreted with two objects (size words, union, heap blocks) for each of the nine pairs of states (inline not full / inline full / heap): each vector ends - decoded from its own words - with the size and the elements it was to receive, in order, a moved-from vector is the empty inline vector, nothing else is alive, every heap block is owned by exactly one vector or was given back exactly once with its capacity.  GROW-LAYOUT: grow / shrink / resetToSmall of SmallVectorBase and StdVectorBase are interpreted over the whole object (size words as linear forms, storage pointer, inline / owned / new block in one index space, allocator events recorded) once per state of the inline encoding: afterwards all size() elements are in the designated storage in order, nothing else is alive, the words decode to the same size and the new capacity (or to the inline state with the full marker exactly when size == N), the old block was given back exactly once with its capacity and the requested block is the one pointed to.  UNION-STATE: the heap pointer kept in the pointer / inline-elements union is read only where the vector is known to be on the heap (guards, predicates, grow, or every caller of the helper establishes it).  DEALLOC-ARG / REALLOC-ARGS: at every deallocate(p, n) the pointer is the object\'s own storage and n is a read of the same object\'s '
                       'capacity field, unmodified since; every vec::Reallocate call gets (own storage, own capacity, new capacity, own size) and the new '
                       'capacity is the value stored into the capacity field afterwards; inside Reallocate and amc::allocator\'s reallocate the parameters '
                       'reach allocate / relocate / deallocate in the documented positions and order (all are SizeType, so any permutation compiles).  '
                       'FREE-ALL: the storage pointer is overwritten only when no block is owned, after release, or when handed to reallocate; destructors '
                       'and destroyFreeStorage release on every heap-state path.  STEAL + ENC-W: on hand-over the capacity word moves together with the '
                       'pointer (joint transfer) and no element is touched.  REALLOC-TR: reallocate is used only for trivially relocatable element types.',
        'assumptions': ['exactly-once as a count over histories is not decided', 'stateful allocators of the same type that compare unequal are not distinguished '
                        '(amc never consults operator==)', 'deallocate(nullptr, 0) on first growth of an empty vector is about no block and is not flagged'],
        'trusted': ['the amcsa plugin export', 'the helper-role table'],
    }
