"""C03 - FlatSet is observationally a std::set (structural clauses)."""
from .. import matrix, witness
from ..rules import sets

from ..rules import round5


def const_view_witnesses():
    w = witness.Witnesses('c03', ['<amc/flatset.hpp>', '<amc/smallvector.hpp>', '<amc/fixedcapacityvector.hpp>', '<vector>', '<set>', '<type_traits>', '<utility>'])
    for F in ('amc::FlatSet<int>', 'amc::FlatSet<int, std::greater<int>, amc::allocator<int>, amc::SmallVector<int, 4> >',
              'amc::FlatSet<int, std::less<int>, std::allocator<int>, std::vector<int> >'):
        w.add('CONST-VIEW', 'iter|' + F, 'std::is_same<%s::iterator, %s::const_iterator>::value' % (F, F), 'FlatSet::iterator is the const iterator')
        w.add('CONST-VIEW', 'deref|' + F, 'std::is_const<typename std::remove_reference<decltype(*std::declval<%s &>().begin())>::type>::value' % F,
              'dereferencing an iterator of a non-const FlatSet yields a const element')
        w.add('CONST-VIEW', 'front|' + F, 'std::is_const<typename std::remove_reference<decltype(std::declval<%s &>().front())>::type>::value' % F, 'front() is const')
        w.add('CONST-VIEW', 'back|' + F, 'std::is_const<typename std::remove_reference<decltype(std::declval<%s &>().back())>::type>::value' % F, 'back() is const')
        w.add('CONST-VIEW', 'find|' + F, 'std::is_same<decltype(std::declval<%s &>().find(1)), %s::const_iterator>::value' % (F, F), 'find on a non-const set returns a const iterator')
        # SIG: same result types as std::set (modulo the iterator type)
        S = 'std::set<int>'
        w.add('SIG', 'insert|' + F, 'std::is_same<decltype(std::declval<%s &>().insert(1)), std::pair<%s::iterator, bool> >::value' % (F, F), 'insert(value) returns pair<iterator,bool>')
        w.add('SIG', 'insert-hint|' + F, 'std::is_same<decltype(std::declval<%s &>().insert(std::declval<%s::const_iterator>(), 1)), %s::iterator>::value' % (F, F, F), 'insert(hint,value) returns iterator')
        w.add('SIG', 'erase-key|' + F, 'std::is_same<decltype(std::declval<%s &>().erase(1)), %s::size_type>::value' % (F, F), 'erase(key) returns a count')
        w.add('SIG', 'erase-pos|' + F, 'std::is_same<decltype(std::declval<%s &>().erase(std::declval<%s::const_iterator>())), %s::iterator>::value' % (F, F, F), 'erase(pos) returns iterator')
        w.add('SIG', 'count|' + F, 'std::is_same<decltype(std::declval<const %s &>().count(1)), %s::size_type>::value' % (F, F), 'count returns size_type')
        w.add('SIG', 'equal_range|' + F, 'std::is_same<decltype(std::declval<const %s &>().equal_range(1)), std::pair<%s::const_iterator, %s::const_iterator> >::value' % (F, F, F), 'equal_range returns a pair of iterators')
        w.add('SIG', 'emplace|' + F, 'std::is_same<decltype(std::declval<%s &>().emplace(1)), std::pair<%s::iterator, bool> >::value' % (F, F), 'emplace returns pair<iterator,bool>')
    for F in ('amc::FlatSet<int>',):
        w.add('CONST-VIEW', 'data|' + F, 'std::is_same<decltype(std::declval<%s &>().data()), const int *>::value' % F, 'data() is a pointer to const', minstd=11)
        w.add('CONST-VIEW', 'index|' + F, 'std::is_same<decltype(std::declval<%s &>()[0]), const int &>::value' % F, 'operator[] is const')
        w.add('CONST-VIEW', 'at|' + F, 'std::is_same<decltype(std::declval<%s &>().at(0)), const int &>::value' % F, 'at() is const')
    return w


def run(tier, runner):
    pts = matrix.flatset_points(tier)
    progs = matrix.programs(runner, pts) + matrix.real_programs(runner, tier)
    r_cmp = sets.cmp_obj(progs, (sets.FS,))
    r_node = sets.node([p for p in progs])
    r_node.findings = [f for f in r_node.findings if 'FlatSet' in f.key]
    r_stable, r_inv = sets.sort_rules(progs)
    r_search = sets.search(progs)
    r_nm = sets.node_move(progs)
    r_nm.findings = [f for f in r_nm.findings if 'FlatSet' in f.key]
    r_ci = sets.cmp_init(progs)
    r_ci.findings = [f for f in r_ci.findings if 'FlatSet' in f.key]
    r_ci.require(5, 'FlatSet constructors taking a comparator or a set, and swap')
    r_mo = sets.merge_order(progs)
    r_mo.findings = [f for f in r_mo.findings if 'FlatSet' in f.key]
    r_mo.require(1, 'merge cursors')
    w = const_view_witnesses()
    r_w = witness.run_witnesses(runner, w, [(17, True, False)] if tier == 'quick' else [(11, True, False), (14, True, False), (17, True, False), (20, True, False)],
                                ['clang++'] if tier == 'quick' else ['clang++', 'g++'],
                                {'CONST-VIEW': 'no API of FlatSet hands out mutable access to the sorted storage', 'SIG': 'result types equal std::set\'s modulo the iterator type'})
    r_cmp.require(5, 'FlatSet functions using the comparator')
    r_node.require(2, 'insert(node) overloads')
    r_stable.require(2, 'sorts feeding duplicate removal')
    r_inv.require(2, 'bulk writers')
    r_search.require(10, 'lookup members')
    r_np = sets.node_pos(progs)
    r_np.findings = [f for f in r_np.findings if 'FlatSet' in f.key]
    r_eq = round5.eq_elem(progs)
    r_eq.findings = [f for f in r_eq.findings if 'FlatSet' in f.key]
    from ..rules import round6
    r_lc = round6.lookup_case(progs)
    r_lc.require(6, 'lookup members of FlatSet (find, contains, count, equal_range, lower_bound, upper_bound)')
    r_mc = round6.mutate_case(progs)
    r_mc.require(4, 'insert(value) x2, emplace, erase(key) of FlatSet')
    r_ck = round6.cmp_keep(progs)
    return {
        'results': [r_cmp, r_ci, r_inv, r_stable, r_node, r_nm, r_np, r_search, r_mo, r_eq, r_lc, r_mc, r_ck] + r_w,
        'explanation': 'CMP-KEEP: no member function builds a set of its own class with a defaulted comparator argument (expected count zero on this tree; the self-test keeps a positive example).  MUTATE-CASE: insert(value) / emplace / erase(key), evaluated in the same three cases, insert exactly an absent key at its lower bound and return (new element, true), leave a present key alone and return (its position, false), erase exactly the equivalent element and return 1 or 0.  LOOKUP-CASE: find / contains / count / equal_range / lower_bound / upper_bound are evaluated for each of the three cases of the key (nothing at or after it; absent with a successor; present) with std::lower_bound / upper_bound given their specified result and comparator calls decided by the case - each returns what std::set returns (an empty range for an absent key, the equivalent element or end()).  EQ-ELEM: operator== never consults the ordering comparator.  NODE-POS: insert(node) reports the position of the insertion it performed on every path, refused or not.  C03 as stated (same elements / results as std::set over histories) is not decided.  Decided structural clauses: CMP-INIT - a comparator (or set) given to a constructor is the one stored, swap exchanges comparator and elements together; CMP-OBJ - every '
                       'ordering or equivalence decision uses the stored comparator object (no default-constructed temporary); SORT-INV - every bulk '
                       'writer fed with caller data re-establishes sorted+unique (stable sort, merge when appending, duplicate removal) before returning; '
                       'STABLE - the first inserted of equivalent elements survives; NODE / NODE-MOVE - insert(node) empties the node only if the insertion happened, and its value is moved from only where the insertion happens (never into a temporary built before the lookup); '
                       'CONST-VIEW - no API hands out mutable access to the sorted storage; SEARCH - every lookup is one binary search relying on the '
                       'invariant; SIG - result types as std::set; MERGE-ORDER - both merge overloads traverse the source from its beginning forwards (first equivalent element wins).',
        'assumptions': ['the correctness of the two merge loops and of the insert_hint decision tree is value-dependent and not decided (C12)',
                        'std::stable_sort / inplace_merge / unique / lower_bound behave as specified'],
        'trusted': ['libstdc++ 12 algorithms', 'the amcsa plugin export', 'compile-time evaluation by clang/g++'],
    }
