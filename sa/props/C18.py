"""C18 - growth is geometric: appending n elements costs O(log n) reallocations."""
from .. import matrix
from ..rules import shape, encoding

from ..rules import round5


def run(tier, runner):
    pts = [p for p in matrix.vec_points(tier) if p.flavour in ('vector', 'small')]
    if tier == 'thorough':
        pts += [p for p in matrix.vec_points('quick', std=11) if p.flavour in ('vector', 'small')]
    progs = matrix.programs(runner, pts)
    r_geo, facts = shape.geo(progs)
    real = matrix.real_programs(runner, tier)
    r_one = shape.one_grow(progs + real)
    r_gg = shape.grow_guard(progs + real)
    r_gs = shape.grow_shape(progs)
    r_ew = shape.exact_who(progs + real)
    tm = matrix.programs(runner, [p for p in matrix.vec_points(tier, elems=['NTRtm']) if p.flavour == 'small'])
    r_si = encoding.shrink_inline([p for p in progs if p.meta.get('flavour') == 'small'] + tm + real)
    r_si.require(1, 'SmallVectorBase::shrink_impl')
    r_gb = shape.grow_basis(progs + real)
    r_gb.require(2, 'SafeNextCapacity call sites (the two grow functions)')
    r_geo.require(2, 'SafeNextCapacity instantiations (both paths)')
    r_one.require(6, 'capacity adjustment call sites')
    r_gg.require(4, 'grow call sites')
    r_gs.require(2, 'the two grow functions')
    r_ew.require(10, 'element-adding operations of the dynamic vectors')
    if r_ew.exact_sites < 1:
        r_ew.require(10 ** 9, 'exact capacity requests (reserve must contain one: positive control)')
    r_sa = round5.shrink_all(progs + real)
    r_sa.require(1, 'StdVectorBase::shrink_impl')
    from ..rules import objlayout
    r_gl = objlayout.grow_layout([p_ for p_ in progs if 'flavour' in p_.meta])
    r_gl.require(4, 'grow / shrink / resetToSmall instantiations of the vector bases')
    return {
        'results': [r_geo, r_one, r_gg, r_gs, r_ew, r_si, r_gb, r_sa, r_gl],
        'explanation': 'GROW-LAYOUT: grow / shrink / resetToSmall of SmallVectorBase and StdVectorBase are interpreted over the whole object (size words as linear forms, storage pointer, inline / owned / new block in one index space, allocator events recorded) once per state of the inline encoding: afterwards all size() elements are in the designated storage in order, nothing else is alive, the words decode to the same size and the new capacity (or to the inline state with the full marker exactly when size == N), the old block was given back exactly once with its capacity and the requested block is the one pointed to.  SHRINK-ALL: amc::vector shrinks whenever size differs from capacity, emptied vectors included.  GEO: the return expression of SafeNextCapacity is interpreted in the domain of affine lower bounds a*oldCapa + b*newSize + c '
                       '(constants fold, +, *k, /k with floor, max = union, min(x,K) = clamp): the verdict needs a bound with a*a >= 2 (today a = 3/2), a '
                       'bound with b >= 1, the clamp equal to numeric_limits<size_type>::max() and the overflow throw; the exact path returns the request. '
                       'ONE-GROW: no capacity adjustment in a loop, at most one per object per path; GROW-SHAPE: one allocator request per grow; '
                       'GROW-GUARD: grow only when capacity is insufficient; SHRINK-INLINE: shrink_to_fit of a heap-backed SmallVector returns to the inline storage exactly when size <= N, under no further run-time condition (element types with throwing moves included); GROW-BASIS: each SafeNextCapacity call is given the current capacity (capacity(), `_capa` when large, the decoded inline capacity when inline), never the word that holds the size; EXACT-WHO: who-may-call rule - exact (non geometric) capacity requests are not reachable '
                       'from any element-adding operation over resolved call edges.  Arithmetic: a >= sqrt(2) gives <= ceil(log_a n)+2 <= 2*ceil(log2 n)+4 '
                       'reallocations and sum of relocations <= a/(a-1)*n = O(n) for n appends, for every n, independent of run-time values.',
        'assumptions': ['size_type clamp only matters when n approaches numeric_limits<size_type>::max()'],
        'trusted': ['clang 14 constant folding of numeric_limits<>::max()', 'the amcsa plugin export'],
        'coverage': {'growth_facts_per_size_type': facts},
    }
