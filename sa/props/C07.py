"""C07 - capacity contract and address stability."""
from .. import matrix
from ..rules import shape, ownership, lifetime

from ..rules import round5


def run(tier, runner):
    pts = [p for p in matrix.vec_points(tier) if p.flavour in ('vector', 'small')]
    progs = matrix.programs(runner, pts)
    real = matrix.real_programs(runner, tier)
    r_cs = shape.cap_stable(progs + real)
    r_gg = shape.grow_guard(progs + real)
    r_geo, facts = shape.geo(progs)
    r_st = ownership.steal(progs)
    swp = matrix.programs(runner, matrix.swap2_points(tier))
    r_eo = ownership.each_other(swp)
    r_eo.require(10, 'adjustEachOtherCapacity instantiations')
    r_cd = lifetime.check_dom(progs + real)
    r_st.require(6, 'hand-over functions')
    r_cd.require(15, 'constructs into container storage')
    r_cs.require(14, 'public mutators of the dynamic vectors')
    r_gg.require(4, 'grow call sites')
    r_geo.require(2, 'SafeNextCapacity')
    r_ns = round5.need_size(progs + real)
    r_ms = round5.max_size(progs + real)
    r_ms.require(2, 'max_size members')
    from ..rules import round6
    r_rp = round6.reserve_post(progs + real)
    r_rp.require(2, 'reserve members (dynamic and fixed-capacity vectors)')
    from ..rules import objlayout
    r_gl = objlayout.grow_layout([p_ for p_ in progs if 'flavour' in p_.meta])
    r_gl.require(4, 'grow / shrink / resetToSmall instantiations of the vector bases')
    return {
        'results': [r_cs, r_gg, r_geo, r_st, r_cd, r_eo, r_ns, r_ms, r_rp, r_gl],
        'explanation': 'GROW-LAYOUT: grow / shrink / resetToSmall of SmallVectorBase and StdVectorBase are interpreted over the whole object (size words as linear forms, storage pointer, inline / owned / new block in one index space, allocator events recorded) once per state of the inline encoding: afterwards all size() elements are in the designated storage in order, nothing else is alive, the words decode to the same size and the new capacity (or to the inline state with the full marker exactly when size == N), the old block was given back exactly once with its capacity and the requested block is the one pointed to.  RESERVE-POST: every path through reserve(n) hands the request to grow / the base reserve or has compared n with capacity() itself (path-sensitive): after reserve(n), capacity() >= n whatever the inline capacity.  NEED-SIZE: capacity requests derive from element counts, not from the capacity() of another container; MAX-SIZE: max_size() is the size_type maximum (the clamp of SafeNextCapacity) or, for fixed vectors, the capacity - so capacity() <= max_size().  CAP-STABLE: call-graph exclusion - from erase/clear/pop_back/assign/resize/insert/push_back/emplace*/append/copy-assignment no '
                       'path reaches an allocator request, release, shrink or resetToSmall except through grow, so these operations can neither lower '
                       'capacity nor move the buffer when the result fits.  GROW-GUARD: every grow is conditioned on capacity()<needed or size()==capacity() '
                       'and grows to the compared request (reserve included: after reserve(n) capacity()>=n by GEO exact path).  GEO: grow never lowers capacity.  STEAL: moving from / swapping heap-backed vectors hands the buffer over without any element operation; EACH-OTHER: swap2 adjusts capacities only where the buffers cannot simply be exchanged (canSwapDynStorage false), so two heap-backed vectors are never reallocated by a swap.  CHECK-DOM: every growth of the size is dominated by a capacity check of the destination (structural half of size() <= capacity()).',
        'assumptions': ['does not decide size()<=capacity()<=max_size() as a run-time inequality (structural half: CHECK-DOM under C01/C08)'],
        'trusted': ['resolved call graph of the amcsa plugin', 'libstdc++ 12 headers'],
        'coverage': {'growth_facts_per_size_type': facts},
    }
