"""C12 - a hint is only a hint: hinted insertion equals plain insertion for every hint."""
from .. import matrix
from ..rules import hint, sets


def run(tier, runner):
    pts = matrix.flatset_points(tier)
    progs = matrix.programs(runner, pts) + matrix.real_programs(runner, tier)
    r12, r19 = hint.hint_ord(progs)
    r_cmp = sets.cmp_obj(progs, (sets.FS,))
    r12.require(100, 'ordering scenarios')
    return {
        'results': [r12, r_cmp],
        'explanation': 'insert_hint touches the value and the elements only through the comparator and through iterator equality, so its behaviour is a '
                       'function of a finite abstraction of (set, hint, value): how many elements lie before / from the hint (0, 1, 2, >= 3) and how the value '
                       'compares (<, ==, >) with each of up to three neighbours on either side - 112 consistent orderings.  HINT-ORD interprets the exported '
                       'decision tree of every insert_hint instantiation (4 underlying vectors x comparators x element categories, const and rvalue forms) '
                       'on each ordering (abstract interpretation over a finite domain; nothing of amc is executed; std::lower_bound is given its specified '
                       'result clamped to the searched range) and judges the action taken: `return it` only where *it is equivalent to the value, `insert at '
                       'it` only where the left neighbour is less and the right neighbour greater, the un-hinted insert always; no path dereferences end() '
                       'or a position before begin().  insert(hint, v), emplace_hint and insert(hint, node) all forward to insert_hint.  CMP-OBJ: the '
                       'comparisons are made with the stored comparator.',
        'assumptions': ['the comparator is a strict weak ordering and the set is sorted and duplicate free on entry (C03 SORT-INV)',
                        'std::lower_bound and the vector insert behave as specified',
                        'a decision tree using constructs the interpreter does not model ends ANALYSIS-BROKEN, not a verdict'],
        'trusted': ['libstdc++ std::lower_bound', 'the amcsa plugin export'],
        'coverage': {'exhaustive': True, 'scenarios': len(hint.scenarios())},
    }
