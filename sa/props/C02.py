"""C02 - elements are destroyed exactly once and relocated only as their type allows."""
from .. import matrix, gen
from ..lib.core import AnalysisBroken
from ..rules import lifetime, shape2, callgraph
from .. import witness

from ..rules import round5


def run(tier, runner):
    pts = matrix.vec_points(tier) + matrix.memalg_points(tier) + matrix.swap2_points(tier)
    pts += matrix.flatset_points('quick') + matrix.smallset_points('quick')
    if tier == 'thorough':
        pts += matrix.vec_points('quick', std=11) + matrix.vec_points('quick', std=20) + matrix.flatset_points('quick', std=14)
    progs = matrix.programs(runner, pts)
    with_elem = [p for p in progs if p.meta.get('elem')]
    nonreloc = [(p, p.meta['E']) for p in with_elem if p.meta['elem'] not in gen.RELOC and p.meta['elem'] not in gen.TRIV_COPY]
    reloc = [(p, p.meta['E']) for p in with_elem if p.meta['elem'] in gen.RELOC]
    r_mem, npos = callgraph.memop(nonreloc, reloc)
    if npos < 6:
        raise AnalysisBroken('MEMOP: only %d byte-copy sites on relocatable element types (floor 6): the optimised paths are no longer selected or reached' % npos)
    vp = [p for p in progs if 'flavour' in p.meta]
    r_re = callgraph.realloc_tr([(p, p.meta['E'], p.meta['elem'] in gen.RELOC, p.meta['alloc'] in ('amc', 'realloc')) for p in vp if p.meta['flavour'] != 'fcv'])
    r_pair = shape2.pair(vp)
    ob = lifetime.obligations([p for p in progs if p.meta.get('elem') != 'NTRtm'])
    # C02 takes the normal-path halves (every opened slot re-filled, every temporary released); the exceptional
    # halves are C09's
    for k in ('HOLE', 'TEMP'):
        ob[k].findings = [f for f in ob[k].findings if '|normal' in f.key]
        ob[k].decides += ' [normal paths]'
    r_tail = lifetime.tail(vp)
    r_ov = shape2.overlap(vp)
    r_sm = shape2.self_move(progs)
    r_lc = shape2.live_count(vp)
    r_lc.require(3, 'calls of move_n / assign_n / fill')
    r_sm.require(1, 'element-to-element assignments inside one container (shift_left: positive control)')
    r_mem.require(4, 'instantiations with a non relocatable element type')
    r_pair.require(20, 'helper overload instantiations')
    r_tail.require(12, 'size commits')
    # DTOR (type-level): every vector of a non trivially destructible E destroys [begin,end) in its destructor
    w = witness.Witnesses('c02', ['<amc/vector.hpp>', '<amc/smallvector.hpp>', '<amc/fixedcapacityvector.hpp>', 'elem_types.hpp', '<type_traits>'])
    for e in ('arch::NTR', 'arch::TRnc', 'arch::MoveOnly'):
        for V in ('amc::vector<%s >' % e, 'amc::SmallVector<%s, 4>' % e, 'amc::FixedCapacityVector<%s, 4>' % e):
            w.add('DTOR', 'dtor|%s' % V, '!std::is_trivially_destructible<%s >::value' % V, '%s has a destructor that destroys its elements' % V)
    r_w = witness.run_witnesses(runner, w, [(17, True, False)], ['clang++'], {'DTOR': 'vectors of non trivially destructible elements define a destructor'})
    r_sk = round5.shift_keep(vp)
    r_sk.require(1, 'shift_right instantiations for non relocatable element types')
    from ..rules import seglayout
    r_seg = seglayout.seg_layout(vp)
    r_seg.require(40, 'inserting / removing / replacing members of the vector classes x instantiations')
    return {
        'results': [r_mem, r_re, r_pair, ob['HOLE'], ob['TEMP'], r_tail, r_ov, r_sm, r_lc, r_sk, r_seg] + r_w,
        'explanation': 'SEG-LAYOUT: on every normal path of insert / emplace / erase / resize / assign / append / push_back / pop_back / clear every slot is constructed only where no object lives, assigned / destroyed / read only where one lives, no element is move-assigned onto itself, and on return exactly [0, size()) is alive - array-segmentation abstract interpretation over symbolic size, position and count, helpers inlined (the liveness half of "constructed and destroyed exactly once", for every size and position at once).  SHIFT-KEEP: for non relocatable element types shift_right leaves the vacated slots alive (its consumers assign onto them).  Second sentence decided in full for the analysed matrix: MEMOP - in every instantiation whose element type is neither trivially '
                       'copyable nor declared relocatable no memcpy/memmove/realloc (also inside std algorithm bodies) has an E* argument anywhere in the '
                       'resolved call graph, while for relocatable element types such sites exist (non-vacuity); REALLOC-TR - the allocator\'s reallocate is '
                       'reachable only for relocatable element types; PAIR - the overload selected for each archetype treats destination slots the way its '
                       'producer left them.  First sentence, necessary clauses: HOLE(normal) every opened slot is re-filled exactly once; TAIL no size '
                       'change without the matching construct/destroy; OVERLAP / SELF-MOVE never assigned onto itself (range moves inside one buffer; single element assignments between two element designators of the same container, in the vector and the set layers); LIVE-COUNT the helpers that assign onto the constructed part of a destination and construct the rest are given its size at that moment; TEMP no manually constructed local escapes '
                       'destruction; DTOR every vector of a non trivially destructible type destroys [begin,end).',
        'assumptions': ['exactly-once as a count over a history is not decided', 'OptOut (trivially copyable, opted out) may be byte-copied by libstdc++ '
                        'algorithms, as the statement of C02 allows'],
        'trusted': ['overload resolution and trait evaluation of clang 14', 'libstdc++ 12 algorithm bodies', 'the helper-role table'],
        'coverage': {'positive_bytecopy_sites_on_relocatable_types': npos},
    }
