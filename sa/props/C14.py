"""C14 - containers honour their own trivially_relocatable declaration."""
from .. import matrix, witness
from ..rules import config, shape2


def run(tier, runner):
    pts = matrix.vec_points(tier) + matrix.flatset_points('quick') + matrix.smallset_points('quick') + matrix.swap2_points('quick')
    progs = matrix.programs(runner, pts)
    r_sp = config.self_ptr(progs + matrix.real_programs(runner, tier))
    r_span = shape2.inline_span([p for p in progs if 'flavour' in p.meta])
    w = witness.Witnesses('c14', ['<amc/vector.hpp>', '<amc/smallvector.hpp>', '<amc/fixedcapacityvector.hpp>', '<amc/flatset.hpp>', 'oracle.hpp',
                                  '<cstdint>', '<set>', '<vector>', '<functional>'])
    w.prelude.append(witness.KINDS_PRELUDE)
    w.prelude.append('#if __cplusplus >= 201703L\n#include <amc/smallset.hpp>\n#endif')
    witness.tr_conj(w, tier)
    cfgs = [(17, True, False)] if tier == 'quick' else [(11, True, False), (14, True, False), (17, True, False), (20, True, False)]
    r_w = witness.run_witnesses(runner, w, cfgs, ['clang++'] if tier == 'quick' else ['clang++', 'g++'],
                                {'TR-CONJ': "each container's trivially_relocatable is the conjunction of its parts' (no container claims the trait when a part is not relocatable)"})
    r_sp.require(14, 'stores to pointer slots and fields of the container classes')
    r_span.require(6, 'inline layouts')
    return {
        'results': [r_sp, r_span] + r_w,
        'explanation': 'The standard static argument for relocatability: a byte copy of the object is a faithful copy when no field refers to the old address.  '
                       'SELF-PTR: every value written into a pointer field or through setDyn comes from the allocator, another object\'s storage pointer '
                       'or nullptr - never from `this`, ptr(), &member or begin() of an inline object; the inline vector bases have no pointer field, so '
                       'begin() is recomputed from `this` on every call.  TR-CONJ: each container claims the trait exactly when all its parts are '
                       'relocatable (element for inline vectors, always for amc::vector, Compare and VecType for FlatSet, both containers for SmallSet - '
                       'false for std::set).  INLINE-SPAN: the inline elements are inside the object.',
        'assumptions': ['behaviour of the byte-copied object over further histories is the same object state (C01/C03)',
                        'std:: members (std::optional in node types) are outside the claim; node types do not claim the trait'],
        'trusted': ['clang 14 record layout', 'compile-time evaluation of the trait by clang/g++'],
    }
