"""C13 - swap2 exchanges contents between any two vector flavours, or fails cleanly."""
from .. import matrix
from ..rules import ownership, callgraph, encoding, lifetime, shape

from ..rules import round5


def run(tier, runner):
    pts = matrix.swap2_points(tier) + [p for p in matrix.vec_points(tier)]
    progs = matrix.programs(runner, pts)
    sw = [p for p in progs if 'specs' in p.meta]
    real = matrix.real_programs(runner, tier)
    r_w = encoding.enc_w(progs + real)
    r_tf = ownership.throw_first(sw)
    r_tr = callgraph.throw_reach(sw + real)
    r_cd = lifetime.check_dom(sw)
    r_st = ownership.steal([p for p in progs if 'flavour' in p.meta])
    r_sr = ownership.stale_read(sw)
    r_eo = ownership.each_other(sw)
    r_es = encoding.enc_sib(progs)
    r_eo.require(10, 'adjustEachOtherCapacity instantiations')
    r_sr.require(20, 'swap2_impl instantiations')
    r_w.require(12, 'stores to the size words')
    r_tf.require(20, 'swap2_impl instantiations (ordered flavour pairs)')
    r_cd.require(2, 'constructs in the swap paths')
    r_xa = ownership.xalloc(sw)
    r_xa.require(6, 'canSwapDynStorage instantiations (receiver x operand)')
    r_tt, _roles = shape.throw_type(sw)
    r_tt.require(2, 'throw expressions reachable from swap2 (swap_sizetype, the fixed-capacity check)')
    r_sw = round5.swap_who(progs)
    r_sw.require(1, 'callers of swap_impl')
    from ..rules import seglayout
    r_seg = seglayout.seg_layout(sw)
    r_seg.require(2, 'swap_deep instantiations (size type pairs)')
    from ..rules import objlayout
    r_s2 = objlayout.swap2_layout(sw)
    r_s2.require(2, 'swap2_impl instantiations between two SmallVectors')
    return {
        'results': [r_w, r_tf, r_tr, r_cd, r_st, r_sr, r_eo, r_es, r_xa, r_tt, r_sw, r_seg, r_s2],
        'explanation': 'SWAP2-LAYOUT: swap2_impl between two SmallVectors (different inline capacities, size types, allocators as instantiated) is interpreted with two objects for each feasible pair of states after the mutual capacity adjustment: each vector - decoded from its own words and union - ends with the size and the elements of the other in order, with a valid inline encoding (full marker exactly when size == its N) or a block whose capacity its `_capa` holds; nothing else is alive; every heap block has exactly one owner.  SEG-LAYOUT (helper contract): swap_deep, the element exchange every non-buffer swap goes through, leaves - for every pair of counts and every pair of size types instantiated - exactly the count2 elements of the second range in the first and the count1 elements of the first in the second, in order, nothing else alive (two storages in one index space, array-segmentation interpretation).  SWAP-WHO: the same-N exchange swap_impl is only reachable with operands whose static type carries N.  THROW-TYPE: swap_sizetype throws overflow_error exactly when a size exceeds the maximum of the other size type (strict comparison with the folded maximum), the fixed-capacity check out_of_range exactly when the request exceeds N.  XALLOC: the buffer-exchange branch is only live for operands of the same allocator type and size_type - for every other instantiated (receiver, operand) pair canSwapDynStorage folds to the constant false.  For every ordered pair of flavours / inline capacities / size types / allocators of the matrix (swap2_impl instantiations): '
                       'ENC-W - sizes are exchanged only through the encoders or jointly with the capacity; THROW-FIRST - every call that may throw '
                       '(size_type overflow test, capacity adjustment) is sequenced before the first modification of either operand, so an impossible '
                       'exchange throws with both contents intact; THROW-REACH - no noexcept function on the swap2 path can reach a throw (it throws '
                       'instead of terminating); CHECK-DOM - the deep swap writes into storage whose capacity adjustEachOtherCapacity has checked '
                       '(who-may-call: swap2_impl is only entered from swap2); STEAL - the buffer-exchange branch touches no element; EACH-OTHER - adjustEachOtherCapacity really checks both directions (capacity of each operand against the size of the other) on every path that is not a pure buffer exchange; STALE-READ - the exchange reads size, capacity and storage of both operands before it overwrites either (no swap without a temporary).',
        'assumptions': ['that the sequences are exchanged exactly (values) is not decided', 'element moves/swaps are noexcept (otherwise swap_deep can fail part-way)'],
        'trusted': ['evaluated exception specifications', 'the amcsa plugin export', 'the helper-role table'],
    }
