"""C01 - vector flavours behave as std::vector for every operation history (structural clauses)."""
from .. import matrix, gen
from ..rules import encoding, lifetime, shape2, callgraph


def run(tier, runner):
    pts = matrix.vec_points(tier) + matrix.swap2_points(tier)
    extra = matrix.flatset_points('quick') + matrix.smallset_points('quick')      # range members of the sets (ITER1)
    progs = matrix.programs(runner, pts)
    sprogs = matrix.programs(runner, extra)
    vp = [p for p in progs if 'flavour' in p.meta]
    real = matrix.real_programs(runner, tier)
    r_w = encoding.enc_w(progs + real)
    r_r = encoding.enc_r(progs + real)
    r_span = shape2.inline_span(vp)
    r_it = shape2.iter1(progs + sprogs)
    r_ov = shape2.overlap(vp)
    r_cd = lifetime.check_dom(progs + real)
    r_tail = lifetime.tail(vp + real)
    r_alias = lifetime.alias(vp)
    r_alias.require(14, 'operations taking a reference to an element value')
    r_w.require(18, 'stores to the size words of SmallVectorBase')
    r_r.require(3, 'value reads of _size')
    r_span.require(6, 'inline vector layouts')
    r_it.require(6, 'range members instantiated with an input iterator')
    r_ov.require(4, 'in-place range moves')
    r_cd.require(20, 'constructs into container storage')
    r_tail.require(12, 'size commits')
    return {
        'results': [r_w, r_r, r_span, r_it, r_ov, r_cd, r_tail, r_alias],
        'explanation': 'C01 as stated (equality of sequences with std::vector over histories) is a statement about run-time values and is not decided.  '
                       'Decided: structural clauses, each necessary for it.  ENC-W / ENC-R: the inline size/capacity words of SmallVector are written only '
                       'by the encoders, jointly, or on an object known to be large, and every value read of `_size` honours the full marker.  '
                       'INLINE-SPAN: the N inline slots lie inside the object and nothing else lives there (record layout of every inline instantiation).  '
                       'ITER1: range members instantiated with a single-pass iterator traverse it once.  OVERLAP: erase of an empty range performs no '
                       'element operation (no self move assignment).  CHECK-DOM: no operation, including the move/swap bookkeeping of the bases, '
                       'constructs into storage whose capacity was not checked.  TAIL: every size commit follows the lifetime operation it accounts for.  ALIAS (shared with C10): a value argument that designates an element of the same vector is read before any element moves, or through a correctly re-based reference / pointer.',
        'assumptions': ['element sequences, sizes and returned positions over histories are not decided (value statements)'],
        'trusted': ['clang 14 record layout', 'the helper-role table', 'the amcsa plugin export'],
    }
