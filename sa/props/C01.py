"""C01 - vector flavours behave as std::vector for every operation history (structural clauses)."""
from .. import matrix, gen, witness
from ..rules import encoding, lifetime, shape2, callgraph, retpos, seglayout

from ..rules import round5


def sig_witnesses():
    """Result types of every operation named in C01 equal std::vector's, modulo the iterator / size types."""
    w = witness.Witnesses('c01', ['<amc/vector.hpp>', '<amc/smallvector.hpp>', '<amc/fixedcapacityvector.hpp>', '<vector>', '<type_traits>', '<utility>', '<initializer_list>'])
    w.prelude.append('''
template <bool B, class X, class Y> using cnd = typename std::conditional<B, X, Y>::type;
// the amc type expected where std::vector returns S
template <class S, class SV, class AV>
using expect = cnd<std::is_same<S, typename SV::iterator>::value, typename AV::iterator,
               cnd<std::is_same<S, typename SV::const_iterator>::value, typename AV::const_iterator,
               cnd<std::is_same<S, typename SV::reverse_iterator>::value, typename AV::reverse_iterator,
               cnd<std::is_same<S, typename SV::const_reverse_iterator>::value, typename AV::const_reverse_iterator,
               cnd<std::is_same<S, typename SV::size_type>::value, typename AV::size_type,
               cnd<std::is_same<S, SV &>::value, AV &, S> > > > > >;
using SV = std::vector<int>;
#define V_ std::declval<V &>()
#define C_ std::declval<const V &>()
#define CI_ std::declval<typename V::const_iterator>()
#define SZ_ std::declval<typename V::size_type>()
#define PI_ std::declval<const int *>()
#define IL_ std::declval<std::initializer_list<int> >()
#define SAME(E) std::is_same<decltype(vexpr<AV>::E), expect<decltype(vexpr<SV>::E), SV, AV> >::value
template <class V> struct vexpr {
  static auto begin() -> decltype(V_.begin());            static auto cbegin_c() -> decltype(C_.begin());
  static auto end() -> decltype(V_.end());                static auto cend() -> decltype(C_.cend());
  static auto rbegin() -> decltype(V_.rbegin());          static auto crbegin() -> decltype(C_.rbegin());
  static auto rend() -> decltype(V_.rend());              static auto crend() -> decltype(C_.crend());
  static auto size() -> decltype(C_.size());              static auto capacity() -> decltype(C_.capacity());
  static auto max_size() -> decltype(C_.max_size());      static auto empty() -> decltype(C_.empty());
  static auto data() -> decltype(V_.data());              static auto cdata() -> decltype(C_.data());
  static auto index() -> decltype(V_[SZ_]);               static auto cindex() -> decltype(C_[SZ_]);
  static auto at() -> decltype(V_.at(SZ_));               static auto cat() -> decltype(C_.at(SZ_));
  static auto front() -> decltype(V_.front());            static auto cfront() -> decltype(C_.front());
  static auto back() -> decltype(V_.back());              static auto cback() -> decltype(C_.back());
  static auto push_back() -> decltype(V_.push_back(1));   static auto pop_back() -> decltype(V_.pop_back());
  static auto emplace() -> decltype(V_.emplace(CI_, 1));
  static auto insert1() -> decltype(V_.insert(CI_, 1));   static auto insertn() -> decltype(V_.insert(CI_, SZ_, 1));
  static auto insertr() -> decltype(V_.insert(CI_, PI_, PI_));  static auto insertil() -> decltype(V_.insert(CI_, IL_));
  static auto erase1() -> decltype(V_.erase(CI_));        static auto erase2() -> decltype(V_.erase(CI_, CI_));
  static auto clear() -> decltype(V_.clear());            static auto resize() -> decltype(V_.resize(SZ_));
  static auto resizev() -> decltype(V_.resize(SZ_, 1));   static auto reserve() -> decltype(V_.reserve(SZ_));
  static auto shrink() -> decltype(V_.shrink_to_fit());   static auto assignn() -> decltype(V_.assign(SZ_, 1));
  static auto assignr() -> decltype(V_.assign(PI_, PI_)); static auto assignil() -> decltype(V_.assign(IL_));
  static auto swap() -> decltype(V_.swap(V_));            static auto copyassign() -> decltype(V_ = C_);
  static auto moveassign() -> decltype(V_ = std::declval<V>());  static auto ilassign() -> decltype(V_ = IL_);
  static auto eq() -> decltype(C_ == C_);                 static auto ne() -> decltype(C_ != C_);
  static auto lt() -> decltype(C_ < C_);                  static auto le() -> decltype(C_ <= C_);
  static auto gt() -> decltype(C_ > C_);                  static auto ge() -> decltype(C_ >= C_);
#if __cplusplus >= 201703L
  static auto emplace_back() -> decltype(V_.emplace_back(1));
#endif
};
''')
    ops = ['begin', 'cbegin_c', 'end', 'cend', 'rbegin', 'crbegin', 'rend', 'crend', 'size', 'capacity', 'max_size', 'empty', 'data', 'cdata', 'index', 'cindex',
           'at', 'cat', 'front', 'cfront', 'back', 'cback', 'push_back', 'pop_back', 'emplace', 'insert1', 'insertn', 'insertr', 'insertil', 'erase1', 'erase2',
           'clear', 'resize', 'resizev', 'reserve', 'shrink', 'assignn', 'assignr', 'assignil', 'swap', 'copyassign', 'moveassign', 'ilassign', 'eq', 'ne', 'lt',
           'le', 'gt', 'ge']
    for i, (nm, AV) in enumerate([('vector', 'amc::vector<int>'), ('SmallVector4', 'amc::SmallVector<int, 4>'), ('FCV8', 'amc::FixedCapacityVector<int, 8>')]):
        w.prelude.append('namespace w%d { using AV = %s;' % (i, AV))
        w.prelude.append('}')
        for op in ops:
            w.add('SIG', 'sig|%s|%s' % (nm, op), 'std::is_same<decltype(vexpr<%s >::%s()), expect<decltype(vexpr<SV>::%s()), SV, %s > >::value' % (AV, op, op, AV),
                  '%s::%s has the result type of std::vector::%s (modulo iterator / size types)' % (nm, op, op))
        w.add('SIG', 'sig|%s|emplace_back' % nm, 'std::is_same<decltype(vexpr<%s >::emplace_back()), expect<decltype(vexpr<SV>::emplace_back()), SV, %s > >::value' % (AV, AV),
              'emplace_back returns a reference (C++17)', minstd=17)
    return w


def run(tier, runner):
    pts = matrix.vec_points(tier) + matrix.swap2_points(tier)
    extra = matrix.flatset_points('quick') + matrix.smallset_points('quick')      # range members of the sets (ITER1)
    progs = matrix.programs(runner, pts)
    sprogs = matrix.programs(runner, extra)
    vp = [p for p in progs if 'flavour' in p.meta]
    real = matrix.real_programs(runner, tier)
    r_w = encoding.enc_w(progs + real)
    r_r = encoding.enc_r(progs + real)
    r_es = encoding.enc_sib(progs + real)
    r_es.require(3, 'the three encoders')
    r_span = shape2.inline_span(vp)
    r_it = shape2.iter1(progs + sprogs)
    r_ov = shape2.overlap(vp)
    r_cd = lifetime.check_dom(progs + real)
    r_tail = lifetime.tail(vp + real)
    r_alias = lifetime.alias(vp)
    r_bc = callgraph.bytecmp([(p, p.meta['E']) for p in vp])
    r_bc.require(8, 'vector instantiations')
    r_rp = retpos.ret_pos(progs + real)
    r_vi = shape2.value_init(progs + real)
    r_vi.require(1, 'members that create elements without a value argument (resize(n), append(n))')
    r_rp.require(9, 'position-returning members (insert x4, emplace x2, erase x2, insert_range x2, adjustCapacity)')
    r_alias.require(9, 'operations taking a reference to an element value')
    ws = sig_witnesses()
    r_sig = witness.run_witnesses(runner, ws, [(17, True, False)] if tier == 'quick' else [(11, True, False), (14, True, False), (17, True, False)],
                                  ['clang++'] if tier == 'quick' else ['clang++', 'g++'], {'SIG': "result types of every operation equal std::vector's modulo the iterator and size types"})
    r_w.require(12, 'stores to the size words of SmallVectorBase')
    r_r.require(3, 'value reads of _size')
    r_span.require(6, 'inline vector layouts')
    r_it.require(6, 'range members instantiated with an input iterator')
    r_ov.require(4, 'in-place range moves')
    r_cd.require(15, 'constructs into container storage')
    r_tail.require(12, 'size commits')
    r_sd = round5.sign_diff(progs + real)
    r_sd.require(2, 'ordering members of the vectors')
    r_seg = seglayout.seg_layout(vp)
    r_seg.require(40, 'inserting / removing / replacing members of the vector classes x instantiations')
    from ..rules import round6
    r_us = round6.union_state(progs + real)
    r_us.require(6, 'reads of the heap pointer alternative')
    from ..rules import objlayout as _ol
    r_xl = _ol.xchg_layout([p_ for p_ in progs if 'flavour' in p_.meta])
    r_xl.require(3, 'swap_impl / move_construct / move_assign instantiations of SmallVectorBase')
    r_xs = _ol.std_xchg_layout([p_ for p_ in progs if 'flavour' in p_.meta])
    r_xs.require(3, 'swap_impl / move_construct / move_assign instantiations of StdVectorBase')
    r_gl = _ol.grow_layout([p_ for p_ in progs if 'flavour' in p_.meta])
    r_gl.require(4, 'grow / shrink / resetToSmall instantiations of the vector bases')
    return {
        'results': [r_w, r_r, r_es, r_span, r_it, r_ov, r_cd, r_tail, r_alias, r_bc, r_rp, r_vi, r_sd, r_seg, r_us, r_xl, r_xs, r_gl] + r_sig,
        'explanation': 'GROW-LAYOUT: grow / shrink / resetToSmall (reserve, shrink_to_fit and every growing operation go through them) keep all elements in order in the storage the vector designates afterwards, in every state of the inline encoding, never ask the allocator for a zero-sized block, and give the old block back once.  XCHG-STD: the same three members of StdVectorBase (amc::vector), with and without a block on either side: pointer, capacity and size change hands together, a moved-from vector holds (null, 0, 0), elements stay in their blocks, the receiver of a move assignment destroys its former elements and gives its block back once with its capacity.  XCHG-LAYOUT: swap_impl / move_construct / move_assign of SmallVectorBase are interpreted with two objects (size words, union, heap blocks) for each of the nine pairs of states (inline not full / inline full / heap): each vector ends - decoded from its own words - with the size and the elements it was to receive, in order, a moved-from vector is the empty inline vector, nothing else is alive, every heap block is owned by exactly one vector or was given back exactly once with its capacity.  UNION-STATE: swap / move / shrink read the heap pointer of a SmallVector only where it is known to be on the heap - requirements of private helpers (SwapDynamicBuffer(heap, inline), SwapDynStorage, resetToSmall ...) travel to their call sites, where the isSmall() case analysis must establish them for the argument passed in that position.  SEG-LAYOUT: for every member that inserts, removes or replaces elements (insert x5, emplace, erase x2, push_back / emplace_back, pop_back, clear, resize x2, assign x3, append x4) and every instantiation of the matrix, on every normal path the storage ends exactly as std::vector leaves it - old elements [0,P) in place, the new ones at [P,P+C) in source order, the old tail shifted by exactly C, size() == N + C, nothing alive beyond size() - decided for every N, P, C at once by an array-segmentation abstract interpretation (segment bounds are linear forms, branch conditions decided by Fourier-Motzkin or split, amc::vec helpers inlined, counted loops accelerated, memory algorithms as transformers).  This is the one-step refinement of C01: each operation maps the abstract sequence as std::vector does; sequences over histories follow by induction on the history for the operations covered, on normal paths.  SIGN-DIFF: no unsigned size difference is widened to a signed type after wrapping (orderings derived from sizes keep their sign).  C01 as stated (equality of sequences with std::vector over histories) is a statement about run-time values and is not decided.  '
                       'Decided: structural clauses, each necessary for it.  ENC-W / ENC-R: the inline size/capacity words of SmallVector are written only '
                       'by the encoders, jointly, or on an object known to be large, and every value read of `_size` honours the full marker; ENC-SIB: the three encoders themselves agree on the discipline (count in `_capa`, marker set when the count reaches N, N restored under the marker before `_capa` changes, large branch writes only `_size`).  '
                       'INLINE-SPAN: the N inline slots lie inside the object and nothing else lives there (record layout of every inline instantiation).  '
                       'ITER1: range members instantiated with a single-pass iterator traverse it once.  OVERLAP: erase of an empty range performs no '
                       'element operation (no self move assignment).  CHECK-DOM: no operation, including the move/swap bookkeeping of the bases, '
                       'constructs into storage whose capacity was not checked.  TAIL: every size commit follows the lifetime operation it accounts for.  ALIAS (shared with C10): a value argument that designates an element of the same vector is read before any element moves, or through a correctly re-based reference / pointer.  BYTECMP: comparisons go through the element operator== - no memcmp over elements unless the element type is integral (a double element archetype is part of the matrix).  VALUE-INIT: members that create elements without a value argument value-initialise them (no default-initialisation anywhere in the vector classes).  RET-POS: every iterator-returning member that takes a position (insert, emplace, erase, insert_range, the re-basing adjustCapacity) returns the index of that position in the storage that is current on return - pointer values are interpreted as (storage version, linear offset), calls that may reallocate open a new version, all paths walked.  SIG: the result type of every operation equals that of std::vector modulo the iterator and size types (compile-time).',
        'assumptions': ['element sequences and sizes over histories are not decided (value statements); returned positions are decided by RET-POS for the vector members that take a position'],
        'trusted': ['clang 14 record layout', 'the helper-role table', 'the amcsa plugin export'],
    }
