"""C09 - exception safety: basic guarantee everywhere, strong where documented."""
from .. import matrix
from ..rules import lifetime, callgraph, ownership, closer, round5


def run(tier, runner):
    # element archetypes whose copy may throw and whose moves are noexcept (the documented precondition of the
    # exception-safety contract); allocator requests may throw for every archetype
    elems = ['TC', 'TRnc', 'NTR', 'NTRtm'] if tier == 'quick' else ['TC', 'TRnc', 'NTR', 'NTRtm', 'OptOut', 'MoveOnly']
    pts = matrix.vec_points(tier, elems=elems) + matrix.memalg_points(tier)
    if tier == 'thorough':
        pts += matrix.vec_points('quick', std=11) + matrix.vec_points('quick', std=20)
    progs = matrix.programs(runner, pts)
    real = matrix.real_programs(runner, tier)
    ob = lifetime.obligations(progs + real)
    r_strong = lifetime.strong([p for p in progs if 'flavour' in p.meta and p.meta['elem'] != 'NTRtm'])
    r_tail = lifetime.tail([p for p in progs if 'flavour' in p.meta] + real)
    r_tr = callgraph.throw_reach(progs + real)
    tm = matrix.programs(runner, [p for p in matrix.memalg_points('thorough', stds=[17]) if p.elem in ('NTRtm', 'NTR')])
    r_blk = ownership.block(progs + tm + real)
    r_rt = lifetime.rethrow(progs + tm + real)
    r_rt.require(10, 'catch handlers in amc')
    r_cl = closer.closer(progs + real)
    r_cur = lifetime.cursor(progs + real)
    r_rm = round5.range_measure(progs + real)
    r_cl.require(4, 'roll-back helper overloads (shift_left, unshift_right x relocatable or not)')
    ob['HOLE'].require(3, 'functions that open slots with shift_right')
    ob['TEMP'].require(2, 'functions that build an element in a local ElemStorage')
    ob['DEAD-TAIL'].require(4, 'vector members that destroy elements counted by size()')
    ob['RAWTAIL'].require(30, 'functions that construct into raw storage')
    r_strong.require(15, 'operations documented as strong')
    r_tail.require(12, 'size commits of the vector operations')
    r_blk.require(3, 'functions that hold a fresh block in a local variable (Reallocate, SmallVectorBase::grow, amc::allocator reallocate)')
    r_tr.require(60, 'amc functions whose exception specification evaluates to noexcept(true)')
    return {
        'results': [ob['HOLE'], ob['TEMP'], ob['RAWTAIL'], ob['DEAD-TAIL'], r_strong, r_tail, r_tr, r_blk, r_rt, r_cl, r_cur, r_rm],
        'explanation': 'Typestate analysis on the structured body of every function of the vector layer and of memory.hpp, per instantiation. '
                       'The may-throw points are exactly the calls from whose resolved callee a throw source (throw expression, allocator request, '
                       'element operation not declared noexcept) is reachable without crossing a noexcept(true) function - the same set the k-th '
                       'throwing event of C09 ranges over, obtained without running anything.  HOLE: slots opened by shift_right are re-filled on the '
                       'normal path and closed by a handler on every exceptional path; TEMP: an element built in a local buffer is destroyed or '
                       'relocated on every exit; RAWTAIL: no may-throw call between a construct into raw storage and the size commit covering it, '
                       'outside a handler that destroys the new objects; DEAD-TAIL: the dual - no may-throw call between the destruction of elements still counted by size() and the size commit; TAIL: every size commit follows the lifetime operation it accounts for; '
                       'STRONG: in the operations documented as strong nothing observable is modified before the last may-throw call (roll-back '
                       'handlers excepted); THROW-REACH: no noexcept(true) amc function reaches a throw source (an exception the property expects '
                       'to propagate would become std::terminate); BLOCK: a block obtained from the allocator into a local variable is owned (member store, '
                       'setDyn, return) or given back on every exit, exceptional successors of may-throw calls included (no memory block is leaked); RETHROW: every catch handler of amc leaves by re-throwing on every path; CLOSER: the roll-back helpers named by HOLE are interpreted '
                       'symbolically (linear forms over first, n, count; case split on their order) and must be the exact inverse of shift_right.',
        'assumptions': ['STRONG is evaluated for element types whose moves are noexcept (the documented precondition); the basic-guarantee rules also '
                        'run on NTRtm (throwing moves), where six known findings remain (F20)',
                        'destructors do not throw; a second exception thrown by a roll-back handler is outside the single-fault quantifier', 'the basic guarantee of std::sort/inplace_merge/unique inside FlatSet bulk paths is trusted to libstdc++',
                        'element values after a failed operation are not decided (value statement)'],
        'trusted': ['evaluated exception specifications (clang 14 Sema)', 'resolved call graph incl. libstdc++ 12 bodies', 'the helper-role table sa/rules/roles.py'],
    }
