"""C20 - concurrent const access to one container is race-free."""
from .. import matrix
from ..rules import callgraph


def run(tier, runner):
    pts = matrix.vec_points(tier) + matrix.flatset_points(tier) + matrix.smallset_points(tier)
    if tier == 'thorough':
        pts += matrix.vec_points('quick', std=20) + matrix.flatset_points('quick', std=20) + matrix.smallset_points('quick', std=20)
        pts += matrix.vec_points('quick', std=11) + matrix.flatset_points('quick', std=14)
    progs = matrix.programs(runner, pts) + matrix.real_programs(runner, tier)
    r1 = callgraph.no_static(progs)
    r2 = callgraph.const_pure(progs)
    r1.require(12, 'fields and static members of the amc classes')
    r2.require(40, 'public const members of the containers and what they call')
    return {
        'results': [r1, r2],
        'explanation': 'Effect analysis over the instantiated program: starting from every public const member of every amc '
                       'container / iterator (and the copy constructors, which read a const source), the amc call graph is followed '
                       'with a flag saying whether `this` designates the shared object.  In that cone there must be no mutable field, no '
                       'writable static or thread-local state, no cast shedding const from the shared object, no store through a pointer '
                       'member or a non-const pointer/reference parameter, and no non-const member called on the shared object.  '
                       'Everything else is enforced by C++ const checking, so concurrent const calls only load from the shared object.',
        'assumptions': ["element, comparator and allocator const operations are race-free (as for the standard containers)",
                        'malloc/free are thread-safe (C standard)', 'libstdc++ const algorithms do not write through const iterators'],
        'trusted': ['C++ const type checking (clang 14 Sema)', 'libstdc++ 12 headers', 'resolved call graph exported by the amcsa plugin'],
        'coverage': {'exhaustive': True},
    }
