"""Type-level witnesses: generated static_assert matrices whose expected values come from an
independent oracle (sa/drivers/oracle.hpp + the tables below), decided by the compiler's
constant evaluator.  Nothing is executed."""
import re

from .lib.core import Unit, Finding, RuleResult, AnalysisBroken, CLANG, GXX


class Witnesses:
    """Collects static_assert obligations; one TU per (configuration)."""

    def __init__(self, name, includes):
        self.name = name
        self.includes = includes
        self.items = []   # (rule, key, cond_text, description)
        self.prelude = []

    def add(self, rule, key, cond, desc, minstd=11):
        self.items.append((rule, key, cond, desc, minstd))

    def text(self):
        out = ['#include "%s"' % i if not i.startswith('<') else '#include %s' % i for i in self.includes]
        out += self.prelude
        for i, (rule, key, cond, desc, minstd) in enumerate(self.items):
            if minstd > 11:
                out.append('#if __cplusplus >= %d' % {14: 201402, 17: 201703, 20: 202002}[minstd])
            out.append('static_assert(%s, "W:%d");' % (cond, i))
            if minstd > 11:
                out.append('#endif')
        return '\n'.join(out) + '\n'

    def unit(self, std, nonstd=True, ndebug=False):
        return Unit('%s-w%d%s' % (self.name, std, '' if nonstd else 'p'), self.text(), std=std, nonstd=nonstd,
                    ndebug=ndebug, plugin=False, expect_fail=True)

    def evaluate(self, result, results_by_rule, compiler, cfg, std=17):
        """Map compiler diagnostics back to obligations.  Any error that is not one of the
        generated assertions means the witness TU itself is broken -> AnalysisBroken."""
        failed = set()
        other = []
        for line in result.stderr.splitlines():
            if 'error' not in line or re.match(r'^\d+ errors? generated', line.strip()):
                continue
            m = re.search(r'W:(\d+)', line)
            if m and ('static_assert' in line or 'static assertion' in line):
                failed.add(int(m.group(1)))
            elif re.search(r'\berror\b', line):
                other.append(line)
        if other:
            raise AnalysisBroken('witness unit %s (%s, %s) has errors other than generated assertions:\n%s'
                                 % (self.name, compiler, cfg, '\n'.join(other[:12])))
        if result.rc != 0 and not failed:
            raise AnalysisBroken('witness unit %s failed without a mapped assertion:\n%s' % (self.name, result.stderr[-2000:]))
        for i, (rule, key, cond, desc, minstd) in enumerate(self.items):
            if std < minstd:
                continue
            rr = results_by_rule[rule]
            rr.instance(key, {'witness': cond, 'means': desc, 'verdict': 'holds' if i not in failed else 'FAILS',
                              'decided_by': '%s %s' % (compiler, cfg)})
            if i in failed:
                rr.add(Finding(rule, key, 'include/amc (type-level)', 'compile-time witness fails: %s  [%s]' % (desc, cond),
                               where=cond, unit='%s/%s/%s' % (self.name, compiler, cfg)))


# ------------------------------------------------------------------------------ C17 tables
KINDS_PRELUDE = r'''
namespace k {
struct TC0 { int a; };                                                      // trivially copyable, no declaration
struct TC1 { using trivially_relocatable = std::true_type; int a; };       // + declares true
struct TCm { using trivially_relocatable = std::false_type; int a; };      // + opts out
struct NC0 { NC0(const NC0&); NC0(NC0&&) noexcept; NC0& operator=(const NC0&); NC0& operator=(NC0&&) noexcept; ~NC0(); int a; };
struct NC1 { using trivially_relocatable = std::true_type; NC1(const NC1&); NC1(NC1&&) noexcept; NC1& operator=(const NC1&); NC1& operator=(NC1&&) noexcept; ~NC1(); int a; };
struct NCm { using trivially_relocatable = std::false_type; NCm(const NCm&); NCm(NCm&&) noexcept; NCm& operator=(const NCm&); NCm& operator=(NCm&&) noexcept; ~NCm(); int a; };
struct NCt { NCt(const NCt&); NCt(NCt&&); NCt& operator=(const NCt&); NCt& operator=(NCt&&); ~NCt(); int a; };   // throwing moves
struct NCx { using trivially_relocatable = int; NCx(const NCx&); ~NCx(); int a; };   // declares something that is not true_type
struct MO1 { using trivially_relocatable = std::true_type; MO1(MO1&&) noexcept; MO1& operator=(MO1&&) noexcept; ~MO1(); int a; };
struct NCa { NCa(const NCa&); NCa(NCa&&) noexcept; NCa& operator=(const NCa&); NCa& operator=(NCa&&); ~NCa(); int a; };            // only the move assignment may throw
struct NCc { NCc(const NCc&); NCc(NCc&&); NCc& operator=(const NCc&); NCc& operator=(NCc&&) noexcept; ~NCc(); int a; };            // only the move constructor may throw
struct NCs { NCs(const NCs&); NCs(NCs&&) noexcept; NCs& operator=(const NCs&); NCs& operator=(NCs&&) noexcept; ~NCs(); int a; };   // nothrow moves, throwing ADL swap
void swap(NCs&, NCs&);
struct TD  { int a; ~TD() = default; };                                       // trivially destructible aggregate
}
'''
KINDS = ['k::TC0', 'k::TC1', 'k::TCm', 'k::NC0', 'k::NC1', 'k::NCm', 'k::NCt', 'k::NCx', 'k::MO1', 'int', 'char',
         'double', 'void*']


def smallest_unsigned(n):
    if n <= 0xff:
        return 'std::uint8_t'
    if n <= 0xffff:
        return 'std::uint16_t'
    if n <= 0xffffffff:
        return 'std::uint32_t'
    return 'std::uint64_t'


def c17_witnesses(tier):
    w = Witnesses('c17', ['<amc/vector.hpp>', '<amc/smallvector.hpp>', '<amc/fixedcapacityvector.hpp>',
                          '<amc/flatset.hpp>', 'oracle.hpp', '<cstdint>', '<set>', '<vector>', '<functional>'])
    w.prelude.append(KINDS_PRELUDE)
    w.prelude.append('#if __cplusplus >= 201703L\n#include <amc/smallset.hpp>\n#endif')
    # --- RELOC
    for kd in KINDS:
        w.add('RELOC', 'reloc|' + kd,
              'amc::is_trivially_relocatable<%s>::value == oracle::reloc<%s>::value' % (kd, kd),
              'is_trivially_relocatable<%s> equals "declares true_type, or no declaration and trivially copyable"' % kd)
    pairs = KINDS[:9]
    for a in pairs:
        for b in pairs if tier == 'thorough' else pairs[:4]:
            t = 'std::pair<%s, %s>' % (a, b)
            w.add('RELOC', 'reloc|' + t,
                  'amc::is_trivially_relocatable<%s >::value == (oracle::reloc<%s>::value && oracle::reloc<%s>::value)' % (t, a, b),
                  'pair<%s,%s> is relocatable exactly when both parts are' % (a, b))
    nested = 'std::pair<std::pair<k::TC1, k::NC1>, k::TC0>'
    w.add('RELOC', 'reloc|nested-true', 'amc::is_trivially_relocatable<%s >::value' % nested, 'nested pair of relocatables')
    nested = 'std::pair<std::pair<k::TC1, k::NC0>, k::TC0>'
    w.add('RELOC', 'reloc|nested-false', '!amc::is_trivially_relocatable<%s >::value' % nested, 'nested pair with a non relocatable part')
    # --- DTOR
    for kd in ['k::TC0', 'k::TC1', 'k::TD', 'k::NC0', 'k::NC1', 'k::MO1', 'int', 'void*']:
        for n in ([1, 4, 255, 256] if tier == 'thorough' else [1, 4]):
            w.add('DTOR', 'dtor|FCV|%s|%d' % (kd, n),
                  'std::is_trivially_destructible<amc::FixedCapacityVector<%s, %d> >::value == std::is_trivially_destructible<%s>::value' % (kd, n, kd),
                  'FixedCapacityVector<%s,%d> is trivially destructible exactly when %s is' % (kd, n, kd))
    # --- SIZETYPE
    ns = [1, 2, 3, 100, 254, 255, 256, 257, 1000, 65534, 65535, 65536, 65537, 100000, 4294967295, 4294967296]
    for n in ns:
        w.add('SIZETYPE', 'sizetype|%d' % n,
              'std::is_same<amc::vec::SmallestSizeType<%dULL>::type, %s>::value' % (n, smallest_unsigned(n)),
              'smallest unsigned type able to hold %d is %s' % (n, smallest_unsigned(n)))
    for n in [1, 2, 255, 256, 65535]:
        w.add('SIZETYPE', 'sizetype|FCV|%d' % n,
              'std::is_same<amc::FixedCapacityVector<char, %d>::size_type, %s>::value' % (n, smallest_unsigned(n)),
              'FixedCapacityVector<char,%d>::size_type is %s' % (n, smallest_unsigned(n)))
    # --- LAYOUT
    sizes = [1, 2, 3, 4, 5, 7, 8, 12, 16, 24]
    aligns = [1, 2, 4, 8, 16]
    stypes = ['std::uint32_t'] if tier == 'quick' else ['std::uint8_t', 'std::uint16_t', 'std::uint32_t', 'std::uint64_t']
    nmax = 12 if tier == 'quick' else 40
    for a in aligns:
        for s in sizes:
            if s % a:
                continue
            T = 'oracle::Blob<%d, %d>' % (s, a)
            for st in stypes:
                V0 = 'amc::vector<%s, amc::allocator<%s >, %s>' % (T, T, st)
                for n in range(1, nmax + 1):
                    SV = 'amc::SmallVector<%s, %d, amc::allocator<%s >, %s>' % (T, n, T, st)
                    if n * s <= 8:
                        w.add('LAYOUT', 'layout|fits|%d|%d|%s|%d' % (s, a, st, n),
                              'sizeof(void*) != 8 || sizeof(%s) <= sizeof(%s)' % (SV, V0),
                              'SmallVector<Blob<%d,%d>,%d,%s>: %d elements fit in a pointer, so it is no larger than amc::vector' % (s, a, n, st, n))
                    else:
                        w.add('LAYOUT', 'layout|adds|%d|%d|%s|%d' % (s, a, st, n),
                              'sizeof(%s) <= oracle::roundup(sizeof(%s) + %d * sizeof(%s), oracle::maxz(alignof(%s), alignof(void*))) + oracle::maxz(alignof(%s), alignof(void*))'
                              % (SV, V0, n, T, T, T),
                              'SmallVector<Blob<%d,%d>,%d,%s> adds no more than %d slots plus alignment padding to amc::vector' % (s, a, n, st, n))
                    # inline span (the N slots are really inside the object)
                    w.add('LAYOUT', 'layout|span|%d|%d|%s|%d' % (s, a, st, n),
                          'sizeof(%s) >= 2 * sizeof(%s) + %d * sizeof(%s) || (%d * sizeof(%s) <= sizeof(void*) && sizeof(%s) >= 2 * sizeof(%s) + sizeof(void*))'
                          % (SV, st, n, T, n, T, SV, st),
                          'SmallVector<Blob<%d,%d>,%d,%s> has room for its two size words and %d inline slots' % (s, a, n, st, n))
                    w.add('LAYOUT', 'layout|align|%d|%d|%s|%d' % (s, a, st, n),
                          'alignof(%s) >= alignof(%s)' % (SV, T), 'SmallVector alignment covers the element alignment')
    # --- NOEXCEPT (documented conditions, re-derived from std traits)
    for kd in ['k::TC0', 'k::NC0', 'k::NC1', 'k::NCt', 'k::MO1', 'k::NCm', 'k::NCa', 'k::NCc', 'k::NCs']:
        r = 'oracle::reloc<%s>::value' % kd
        mc = 'std::is_nothrow_move_constructible<%s>::value' % kd
        ma = 'std::is_nothrow_move_assignable<%s>::value' % kd
        sw = 'oracle::sw::nothrow<%s>::value' % kd
        for n, V in [(0, 'amc::vector<%s>' % kd), (3, 'amc::SmallVector<%s, 3>' % kd), (20, 'amc::SmallVector<%s, 20>' % kd),
                     (4, 'amc::FixedCapacityVector<%s, 4>' % kd)]:
            z = 'true' if n == 0 else 'false'
            w.add('NOEXCEPT', 'noexcept|movector|%s|%s' % (kd, V.split('<')[0] + str(n)),
                  'std::is_nothrow_move_constructible<%s >::value == (%s || %s || %s)' % (V, z, r, mc),
                  'move construction of %s is noexcept iff N==0, or T relocatable, or T nothrow move constructible' % V)
            w.add('NOEXCEPT', 'noexcept|moveassign|%s|%s' % (kd, V.split('<')[0] + str(n)),
                  'std::is_nothrow_move_assignable<%s >::value == (%s || %s || (%s && %s))' % (V, z, r, mc, ma),
                  'move assignment of %s is noexcept iff N==0, or T relocatable, or T nothrow move constructible and assignable' % V)
            w.add('NOEXCEPT', 'noexcept|swap|%s|%s' % (kd, V.split('<')[0] + str(n)),
                  'noexcept(std::declval<%s &>().swap(std::declval<%s &>())) == (%s || (%s && %s))' % (V, V, z, mc, sw),
                  'swap of %s is noexcept iff N==0, or T nothrow move constructible and nothrow swappable' % V)
    # --- TR-CONJ
    tr_conj(w, tier)
    return w


def tr_conj(w, tier):
    kinds = ['k::TC0', 'k::TC1', 'k::TCm', 'k::NC0', 'k::NC1', 'k::NCm', 'k::MO1',
             # element types that are pairs: relocatable exactly when both members are (each member position matters)
             'std::pair<int, k::NC0>', 'std::pair<k::NC0, int>', 'std::pair<k::TC1, k::NC1>', 'std::pair<const int, k::NCm>']
    for kd in kinds:
        r = 'oracle::reloc<%s >::value' % kd
        w.add('TR-CONJ', 'trconj|vector|' + kd, 'amc::is_trivially_relocatable<amc::vector<%s > >::value' % kd,
              'amc::vector<%s> is always trivially relocatable (it owns only a heap pointer)' % kd)
        for n in [1, 2, 3, 9]:
            w.add('TR-CONJ', 'trconj|SmallVector|%s|%d' % (kd, n),
                  'amc::is_trivially_relocatable<amc::SmallVector<%s, %d> >::value == %s' % (kd, n, r),
                  'SmallVector<%s,%d> claims the trait exactly when %s is relocatable' % (kd, n, kd))
            w.add('TR-CONJ', 'trconj|FCV|%s|%d' % (kd, n),
                  'amc::is_trivially_relocatable<amc::FixedCapacityVector<%s, %d> >::value == %s' % (kd, n, r),
                  'FixedCapacityVector<%s,%d> claims the trait exactly when %s is relocatable' % (kd, n, kd))
    w.prelude.append(r'''
namespace k {
struct CmpTriv { bool operator()(int, int) const; };
struct CmpNonReloc { CmpNonReloc(); CmpNonReloc(const CmpNonReloc&); ~CmpNonReloc(); bool operator()(int, int) const; void *self; };
struct CmpDeclReloc { using trivially_relocatable = std::true_type; CmpDeclReloc(); CmpDeclReloc(const CmpDeclReloc&); ~CmpDeclReloc(); bool operator()(int, int) const; };
}
''')
    for cmp_ in ['std::less<int>', 'k::CmpTriv', 'k::CmpNonReloc', 'k::CmpDeclReloc']:
        rc = 'oracle::reloc<%s >::value' % cmp_
        for vec, rv in [('amc::vector<int>', 'true'), ('amc::SmallVector<int, 4>', 'true'),
                        ('amc::FixedCapacityVector<int, 8>', 'true'), ('std::vector<int>', 'oracle::reloc<std::vector<int> >::value')]:
            alloc = 'std::allocator<int>' if vec.startswith('std::') else ('amc::vec::EmptyAlloc' if 'Fixed' in vec else 'amc::allocator<int>')
            fs = 'amc::FlatSet<int, %s, %s, %s >' % (cmp_, alloc, vec)
            w.add('TR-CONJ', 'trconj|FlatSet|%s|%s' % (cmp_, vec),
                  'amc::is_trivially_relocatable<%s >::value == (%s && %s)' % (fs, rc, rv),
                  'FlatSet over %s with comparator %s claims the trait exactly when both parts are relocatable' % (vec, cmp_))
    # element-dependent: FlatSet over SmallVector<NC0,4>
    for kd in ['k::NC0', 'k::NC1']:
        r = 'oracle::reloc<%s>::value' % kd
        w.prelude.append('namespace k { struct Less_%s { bool operator()(const %s&, const %s&) const; }; }' % (kd[3:], kd, kd))
        fs = 'amc::FlatSet<%s, k::Less_%s, amc::allocator<%s >, amc::SmallVector<%s, 4> >' % (kd, kd[3:], kd, kd)
        w.add('TR-CONJ', 'trconj|FlatSet|elem|' + kd, 'amc::is_trivially_relocatable<%s >::value == %s' % (fs, r),
              'FlatSet over SmallVector<%s,4> is relocatable exactly when the element is' % kd)
    # SmallSet (C++17 only)
    items = []
    for kd in ['int', 'k::TC1']:
        less = 'std::less<%s >' % kd
        ss_std = 'amc::SmallSet<%s, 4>' % kd
        ss_flat = 'amc::SmallSet<%s, 4, %s, amc::allocator<%s >, amc::FlatSet<%s, %s, amc::allocator<%s > > >' % (kd, less, kd, kd, less, kd)
        items.append(('trconj|SmallSet|std::set|' + kd,
                      'amc::is_trivially_relocatable<%s >::value == oracle::reloc<std::set<%s, %s, amc::allocator<%s > > >::value' % (ss_std, kd, less, kd),
                      'SmallSet backed by std::set claims the trait only if std::set is relocatable (it is not)'))
        items.append(('trconj|SmallSet|std::set-false|' + kd, '!amc::is_trivially_relocatable<%s >::value' % ss_std,
                      'SmallSet backed by std::set does not claim the trait'))
        items.append(('trconj|SmallSet|FlatSet|' + kd, 'amc::is_trivially_relocatable<%s >::value' % ss_flat,
                      'FlatSet-backed SmallSet<%s> claims the trait (both parts relocatable)' % kd))
    # FlatSet-backed SmallSet: the conjunction of its inline vector and of the FlatSet it is given, whatever makes the latter
    # non relocatable (comparator, underlying vector, element)
    for cmp_ in ['std::less<int>', 'k::CmpNonReloc', 'k::CmpDeclReloc']:
        for vec in ['amc::vector<int>', 'std::vector<int>', 'amc::SmallVector<int, 4>']:
            alloc = 'std::allocator<int>' if vec.startswith('std::') else 'amc::allocator<int>'
            fs = 'amc::FlatSet<int, %s, %s, %s >' % (cmp_, alloc, vec)
            ss = 'amc::SmallSet<int, 4, %s, %s, %s >' % (cmp_, alloc, fs)
            items.append(('trconj|SmallSet|FlatSet|%s|%s' % (cmp_, vec),
                          'amc::is_trivially_relocatable<%s >::value == (amc::is_trivially_relocatable<%s >::value && oracle::reloc<%s >::value && %s)'
                          % (ss, fs, cmp_, 'true' if not vec.startswith('std::') else 'oracle::reloc<std::vector<int> >::value'),
                          'SmallSet over FlatSet<int, %s, %s> claims the trait exactly when that FlatSet (comparator and vector) is relocatable' % (cmp_, vec)))
    for kd in ['k::NC0', 'k::NC1']:
        fs = 'amc::FlatSet<%s, k::Less_%s, amc::allocator<%s >, amc::vector<%s > >' % (kd, kd[3:], kd, kd)
        ss = 'amc::SmallSet<%s, 4, k::Less_%s, amc::allocator<%s >, %s >' % (kd, kd[3:], kd, fs)
        items.append(('trconj|SmallSet|FlatSet|elem|' + kd, 'amc::is_trivially_relocatable<%s >::value == oracle::reloc<%s>::value' % (ss, kd),
                      'FlatSet-backed SmallSet<%s> is relocatable exactly when the element (held inline) is' % kd))
    for key, cond, desc in items:
        w.add('TR-CONJ', key, cond, desc, minstd=17)


def run_witnesses(runner, w, configs, compilers, rule_decides):
    """configs: list of (std, nonstd, ndebug).  Returns list of RuleResult."""
    rules = {}
    for rule, _, _, _, _ in w.items:
        if rule not in rules:
            rules[rule] = RuleResult(rule, rule_decides.get(rule, ''))
    for comp in compilers:
        units = [w.unit(std, nonstd, ndebug) for (std, nonstd, ndebug) in configs]
        for u, r in zip(units, runner.run(units, compiler=comp)):
            w.evaluate(r, rules, comp, 'c++%d%s%s' % (u.std, '' if u.nonstd else ' pedantic', ' NDEBUG' if u.ndebug else ''), std=u.std)
    return list(rules.values())
