// amcsa - clang-14 frontend plugin that exports the *resolved, instantiated* program of a
// translation unit as compact JSON facts: every non-dependent function definition with its
// resolved callees and evaluated exception specification; for functions defined in the analysed
// roots (amc headers, the driver/fixture main file) the full structured body (statements and
// expressions); for everything else (libstdc++ bodies) the flat list of call edges, byte-copy
// calls and throw expressions; record layouts and fields; static-storage variables.
//
// Nothing here decides a property: the verdict logic lives in sa/rules/*.py and works on the
// exported facts.  The plugin never runs any code of the analysed program.
//
// Usage: clang++ -fsyntax-only -fplugin=amcsa.so -Xclang -plugin -Xclang amcsa \
//          -Xclang -plugin-arg-amcsa -Xclang out=<file.json> \
//          -Xclang -plugin-arg-amcsa -Xclang root=/repo/include/amc/ ...

#include "clang/AST/ASTConsumer.h"
#include "clang/AST/ASTContext.h"
#include "clang/AST/DeclCXX.h"
#include "clang/AST/DeclTemplate.h"
#include "clang/AST/ExprCXX.h"
#include "clang/AST/Mangle.h"
#include "clang/AST/RecordLayout.h"
#include "clang/AST/RecursiveASTVisitor.h"
#include "clang/AST/StmtCXX.h"
#include "clang/Basic/SourceManager.h"
#include "clang/Frontend/CompilerInstance.h"
#include "clang/Frontend/FrontendPluginRegistry.h"
#include "clang/Lex/Lexer.h"
#include "llvm/Support/JSON.h"
#include "llvm/Support/raw_ostream.h"

#include <map>
#include <set>
#include <string>
#include <vector>

using namespace clang;
namespace json = llvm::json;

namespace {

struct Options {
  std::string out;
  std::vector<std::string> roots;  // path substrings whose functions get a full body (the analysed library)
  std::vector<std::string> drvs;   // path substrings of driver / fixture headers (full body, flagged "main")
  bool mainIsRoot = true;
};

class Exporter {
 public:
  Exporter(ASTContext &ctx, const Options &opts)
      : Ctx(ctx), SM(ctx.getSourceManager()), Opts(opts), Policy(ctx.getLangOpts()) {
    Policy.SuppressTagKeyword = true;
    Policy.Bool = true;
    Policy.SuppressUnwrittenScope = true;
    Policy.AnonymousTagLocations = false;
    Mangler.reset(ItaniumMangleContext::create(ctx, ctx.getDiagnostics()));
  }

  // ---------------------------------------------------------------- identity
  std::string typeStr(QualType t) {
    if (t.isNull()) return "";
    return t.getCanonicalType().getAsString(Policy);
  }
  std::string sugarTypeStr(QualType t) {
    if (t.isNull()) return "";
    return t.getAsString(Policy);
  }

  std::string fileOf(SourceLocation loc) {
    if (loc.isInvalid()) return "";
    SourceLocation e = SM.getExpansionLoc(loc);
    return SM.getFilename(e).str();
  }
  std::string locStr(SourceLocation loc) {
    if (loc.isInvalid()) return "";
    SourceLocation e = SM.getExpansionLoc(loc);
    PresumedLoc p = SM.getPresumedLoc(e);
    if (p.isInvalid()) return "";
    return std::to_string(p.getLine()) + ":" + std::to_string(p.getColumn());
  }
  std::string fullLocStr(SourceLocation loc) {
    if (loc.isInvalid()) return "";
    SourceLocation e = SM.getExpansionLoc(loc);
    PresumedLoc p = SM.getPresumedLoc(e);
    if (p.isInvalid()) return "";
    return std::string(p.getFilename()) + ":" + std::to_string(p.getLine()) + ":" + std::to_string(p.getColumn());
  }
  bool inRoots(SourceLocation loc) {
    if (loc.isInvalid()) return false;
    SourceLocation e = SM.getExpansionLoc(loc);
    if (Opts.mainIsRoot && SM.isInMainFile(e)) return true;
    std::string f = SM.getFilename(e).str();
    for (auto &r : Opts.roots)
      if (f.find(r) != std::string::npos) return true;
    for (auto &r : Opts.drvs)
      if (f.find(r) != std::string::npos) return true;
    return false;
  }
  bool inAmc(SourceLocation loc) {
    if (loc.isInvalid()) return false;
    std::string f = SM.getFilename(SM.getExpansionLoc(loc)).str();
    for (auto &r : Opts.roots)
      if (f.find(r) != std::string::npos) return true;
    return false;
  }

  std::string mangled(const FunctionDecl *FD) {
    FD = FD->getCanonicalDecl();
    auto it = IdCache.find(FD);
    if (it != IdCache.end()) return it->second;
    std::string s;
    llvm::raw_string_ostream os(s);
    bool ok = false;
    if (!FD->isDependentContext() && !FD->getType()->isDependentType()) {
      if (auto *CD = dyn_cast<CXXConstructorDecl>(FD)) {
        Mangler->mangleName(GlobalDecl(CD, Ctor_Complete), os);
        ok = true;
      } else if (auto *DD = dyn_cast<CXXDestructorDecl>(FD)) {
        Mangler->mangleName(GlobalDecl(DD, Dtor_Complete), os);
        ok = true;
      } else if (Mangler->shouldMangleDeclName(FD)) {
        Mangler->mangleName(GlobalDecl(FD), os);
        ok = true;
      }
    }
    os.flush();
    if (!ok || s.empty()) {
      s = "?" + FD->getQualifiedNameAsString();
      if (!FD->getDeclName().isIdentifier() || FD->isExternC() || !FD->isDependentContext()) {
        // extern "C" and builtins: plain name is the identity
        s = FD->getQualifiedNameAsString();
      }
    }
    IdCache[FD] = s;
    return s;
  }

  // qualified name without any template arguments: amc::vec::VectorImpl::insert
  std::string plainQName(const NamedDecl *D) {
    std::vector<std::string> parts;
    std::string own = D->getDeclName().isIdentifier() ? D->getName().str() : D->getNameAsString();
    if (isa<CXXConstructorDecl>(D)) own = "(ctor)";
    else if (isa<CXXDestructorDecl>(D)) own = "(dtor)";
    else if (isa<CXXConversionDecl>(D)) own = "(conv)";
    parts.push_back(own);
    for (const DeclContext *DC = D->getDeclContext(); DC; DC = DC->getParent()) {
      if (const auto *NS = dyn_cast<NamespaceDecl>(DC)) {
        if (NS->isAnonymousNamespace()) parts.push_back("(anon)");
        else if (!NS->isInline()) parts.push_back(NS->getName().str());
      } else if (const auto *RD = dyn_cast<RecordDecl>(DC)) {
        if (const auto *CRD = dyn_cast<CXXRecordDecl>(RD); CRD && CRD->isLambda()) parts.push_back("(lambda)");
        else parts.push_back(RD->getIdentifier() ? RD->getName().str() : std::string("(anon)"));
      } else if (const auto *FD = dyn_cast<FunctionDecl>(DC)) {
        parts.push_back(FD->getDeclName().isIdentifier() ? FD->getName().str() : FD->getNameAsString());
      }
    }
    std::string r;
    for (auto it = parts.rbegin(); it != parts.rend(); ++it) {
      if (!r.empty()) r += "::";
      r += *it;
    }
    return r;
  }

  std::string prettyFn(const FunctionDecl *FD) {
    std::string s;
    llvm::raw_string_ostream os(s);
    FD->getNameForDiagnostic(os, Policy, true);
    os.flush();
    return s;
  }
  std::string prettyRecord(const CXXRecordDecl *RD) {
    if (!RD) return "";
    return typeStr(Ctx.getRecordType(RD));
  }

  static bool isNothrowFn(const FunctionDecl *FD) {
    const auto *FPT = FD->getType()->getAs<FunctionProtoType>();
    if (!FPT) return FD->hasAttr<NoThrowAttr>();
    if (isUnresolvedExceptionSpec(FPT->getExceptionSpecType())) return false;
    return FPT->isNothrow() || FD->hasAttr<NoThrowAttr>();
  }

  std::string macroName(SourceLocation loc) {
    // outermost macro name this location was expanded from (e.g. "assert", "AMC_UNLIKELY")
    if (!loc.isMacroID()) return "";
    std::string name;
    SourceLocation l = loc;
    while (l.isMacroID()) {
      name = Lexer::getImmediateMacroName(l, SM, Ctx.getLangOpts()).str();
      if (SM.isMacroArgExpansion(l))
        l = SM.getImmediateExpansionRange(l).getBegin();
      else
        l = SM.getImmediateExpansionRange(l).getBegin();
    }
    return name;
  }
  // all macro names on the expansion stack of this location (innermost first)
  json::Array macroStack(SourceLocation loc) {
    json::Array a;
    SourceLocation l = loc;
    int guard = 0;
    while (l.isMacroID() && guard++ < 16) {
      if (!SM.isMacroArgExpansion(l)) {
        a.push_back(Lexer::getImmediateMacroName(l, SM, Ctx.getLangOpts()).str());
      } else {
        // argument of a macro: the macro whose argument it is
        SourceLocation callee = SM.getImmediateExpansionRange(l).getBegin();
        (void)callee;
        a.push_back("arg:" + Lexer::getImmediateMacroName(l, SM, Ctx.getLangOpts()).str());
      }
      l = SM.getImmediateExpansionRange(l).getBegin();
    }
    return a;
  }

  // ---------------------------------------------------------------- expressions
  const Expr *strip(const Expr *E) {
    while (E) {
      if (auto *P = dyn_cast<ParenExpr>(E)) {
        E = P->getSubExpr();
      } else if (auto *I = dyn_cast<ImplicitCastExpr>(E)) {
        E = I->getSubExpr();
      } else if (auto *C = dyn_cast<ExprWithCleanups>(E)) {
        E = C->getSubExpr();
      } else if (auto *M = dyn_cast<MaterializeTemporaryExpr>(E)) {
        E = M->getSubExpr();
      } else if (auto *B = dyn_cast<CXXBindTemporaryExpr>(E)) {
        noteDtor(B->getTemporary()->getDestructor());
        E = B->getSubExpr();
      } else if (auto *K = dyn_cast<ConstantExpr>(E)) {
        E = K->getSubExpr();
      } else if (auto *S = dyn_cast<SubstNonTypeTemplateParmExpr>(E)) {
        E = S->getReplacement();
      } else if (auto *D = dyn_cast<CXXDefaultArgExpr>(E)) {
        E = D->getExpr();
      } else if (auto *DI = dyn_cast<CXXDefaultInitExpr>(E)) {
        E = DI->getExpr();
      } else {
        break;
      }
    }
    return E;
  }

  void noteDtor(const CXXDestructorDecl *DD) {
    if (!DD || !CurCalls) return;
    noteCall(DD, SourceLocation(), "dtor");
  }

  void noteCall(const FunctionDecl *callee, SourceLocation loc, const char *how) {
    if (!callee) return;
    Referenced.insert(callee->getCanonicalDecl());
    if (CurCalls) {
      std::string id = mangled(callee);
      if (CurCallSet.insert(id).second) {
        CurCalls->push_back(id);
      }
    }
    (void)loc;
    (void)how;
  }

  void addCommon(json::Object &o, const Expr *E) {
    o["t"] = typeStr(E->getType());
    o["l"] = locStr(E->getExprLoc());
    if (E->isLValue()) o["lv"] = true;
    if (E->getExprLoc().isMacroID()) {
      o["mac"] = macroStack(E->getExprLoc());
    }
  }

  json::Value calleeInfo(json::Object &o, const FunctionDecl *FD) {
    o["fn"] = mangled(FD);
    o["name"] = plainQName(FD);
    o["pname"] = prettyFn(FD);
    o["nothrow"] = isNothrowFn(FD);
    if (inAmc(FD->getLocation())) o["amc"] = true;
    if (unsigned b = FD->getBuiltinID()) o["builtin"] = (int64_t)b;
    if (auto *MD = dyn_cast<CXXMethodDecl>(FD)) {
      o["cls"] = prettyRecord(MD->getParent());
      o["clsq"] = plainQName(MD->getParent());
      if (MD->isConst()) o["constm"] = true;
      if (MD->isStatic()) o["staticm"] = true;
    }
    if (FD->isTrivial()) o["trivial"] = true;
    return nullptr;
  }

  void setConst(json::Object &o, const Expr *E) {
    if (E->isValueDependent() || E->isTypeDependent()) return;
    if (!E->getType()->isIntegralOrEnumerationType()) return;
    Expr::EvalResult R;
    if (E->EvaluateAsInt(R, Ctx, Expr::SE_NoSideEffects)) {
      llvm::APSInt v = R.Val.getInt();
      if (v.isSigned() ? v.isSignedIntN(63) : v.isIntN(63)) o["cv"] = (int64_t)v.getExtValue();
      else o["cv"] = llvm::toString(v, 10);
    }
  }

  json::Value expr(const Expr *E0) {
    if (!E0) return nullptr;
    // implicit casts that matter: record derived-to-base / integral conversions are skipped, but a
    // user-defined conversion shows up as the member call it is.
    const Expr *E = strip(E0);
    if (!E) return nullptr;
    json::Object o;
    addCommon(o, E);

    if (auto *DRE = dyn_cast<DeclRefExpr>(E)) {
      o["k"] = "ref";
      const ValueDecl *D = DRE->getDecl();
      o["name"] = D->getNameAsString();
      if (auto *PV = dyn_cast<ParmVarDecl>(D)) {
        o["dk"] = "param";
        o["idx"] = (int64_t)PV->getFunctionScopeIndex();
      } else if (auto *VD = dyn_cast<VarDecl>(D)) {
        o["dk"] = VD->hasLocalStorage() ? "local" : (VD->isStaticLocal() ? "staticlocal" : "global");
        if (!VD->hasLocalStorage()) o["qname"] = VD->getQualifiedNameAsString();
        o["did"] = (int64_t)declId(VD);
      } else if (auto *FD = dyn_cast<FunctionDecl>(D)) {
        o["dk"] = "fn";
        calleeInfo(o, FD);
        noteCall(FD, E->getExprLoc(), "ref");
      } else if (isa<EnumConstantDecl>(D)) {
        o["dk"] = "enum";
      } else if (isa<BindingDecl>(D)) {
        o["dk"] = "binding";
      } else {
        o["dk"] = "other";
      }
      setConst(o, E);
      return std::move(o);
    }
    if (auto *ME = dyn_cast<MemberExpr>(E)) {
      o["k"] = "mem";
      o["name"] = ME->getMemberDecl()->getNameAsString();
      o["arrow"] = ME->isArrow();
      o["base"] = expr(ME->getBase());
      if (auto *FD = dyn_cast<FieldDecl>(ME->getMemberDecl())) {
        o["field"] = true;
        o["cls"] = prettyRecord(dyn_cast<CXXRecordDecl>(FD->getParent()));
        o["clsq"] = plainQName(FD->getParent());
        if (FD->isMutable()) o["mutable"] = true;
      } else if (auto *MD = dyn_cast<CXXMethodDecl>(ME->getMemberDecl())) {
        calleeInfo(o, MD);
      } else if (auto *VD = dyn_cast<VarDecl>(ME->getMemberDecl())) {
        o["staticvar"] = VD->getQualifiedNameAsString();
      }
      setConst(o, E);
      return std::move(o);
    }
    if (isa<CXXThisExpr>(E)) {
      o["k"] = "this";
      return std::move(o);
    }
    if (auto *CE = dyn_cast<CallExpr>(E)) {
      o["k"] = "call";
      const FunctionDecl *FD = CE->getDirectCallee();
      if (FD) {
        calleeInfo(o, FD);
        noteCall(FD, E->getExprLoc(), "call");
      } else {
        o["callee"] = expr(CE->getCallee());
        // indirect call: nothrow from the function type
        QualType ct = CE->getCallee()->getType();
        if (const auto *PT = ct->getAs<PointerType>()) ct = PT->getPointeeType();
        if (const auto *FPT = ct->getAs<FunctionProtoType>()) o["nothrow"] = FPT->isNothrow();
      }
      json::Array args;
      unsigned first = 0;
      if (auto *MCE = dyn_cast<CXXMemberCallExpr>(CE)) {
        o["method"] = true;
        o["obj"] = expr(MCE->getImplicitObjectArgument());
        if (auto *ME = dyn_cast<MemberExpr>(strip(MCE->getCallee()))) {
          o["arrow"] = ME->isArrow();
        }
      } else if (auto *OCE = dyn_cast<CXXOperatorCallExpr>(CE)) {
        o["op"] = getOperatorSpelling(OCE->getOperator());
        if (FD && isa<CXXMethodDecl>(FD) && CE->getNumArgs() > 0) {
          o["method"] = true;
          o["obj"] = expr(CE->getArg(0));
          first = 1;
        }
      }
      for (unsigned i = first; i < CE->getNumArgs(); ++i) {
        const Expr *A = CE->getArg(i);
        json::Value v = expr(A);
        if (isa<CXXDefaultArgExpr>(A)) {
          if (auto *ob = v.getAsObject()) (*ob)["defarg"] = true;
        }
        args.push_back(std::move(v));
      }
      o["args"] = std::move(args);
      setConst(o, E);
      return std::move(o);
    }
    if (auto *CE = dyn_cast<CXXConstructExpr>(E)) {
      o["k"] = "construct";
      const CXXConstructorDecl *CD = CE->getConstructor();
      calleeInfo(o, CD);
      noteCall(CD, E->getExprLoc(), "construct");
      if (CD->isCopyConstructor()) o["ctor"] = "copy";
      else if (CD->isMoveConstructor()) o["ctor"] = "move";
      else if (CD->isDefaultConstructor()) o["ctor"] = "default";
      else o["ctor"] = "other";
      if (isa<CXXTemporaryObjectExpr>(E)) o["temp"] = true;
      if (CE->isElidable()) o["elidable"] = true;
      // destructor of the constructed class matters for temporaries
      json::Array args;
      for (unsigned i = 0; i < CE->getNumArgs(); ++i) {
        const Expr *A = CE->getArg(i);
        json::Value v = expr(A);
        if (isa<CXXDefaultArgExpr>(A)) {
          if (auto *ob = v.getAsObject()) (*ob)["defarg"] = true;
        }
        args.push_back(std::move(v));
      }
      o["args"] = std::move(args);
      return std::move(o);
    }
    if (auto *NE = dyn_cast<CXXNewExpr>(E)) {
      o["k"] = "new";
      o["of"] = typeStr(NE->getAllocatedType());
      if (NE->isArray()) o["array"] = true;
      json::Array pl;
      for (unsigned i = 0; i < NE->getNumPlacementArgs(); ++i) pl.push_back(expr(NE->getPlacementArg(i)));
      o["placement"] = std::move(pl);
      if (const FunctionDecl *ON = NE->getOperatorNew()) {
        o["opnew"] = mangled(ON);
        o["opnew_name"] = ON->getQualifiedNameAsString();
        bool reserved = ON->isReservedGlobalPlacementOperator();
        o["reserved_placement"] = reserved;
        if (!reserved) noteCall(ON, E->getExprLoc(), "new");
      }
      if (NE->hasInitializer()) o["init"] = expr(NE->getInitializer());
      // `new T` (default-initialisation) vs `new T()` / `new T{}` (value- / direct-initialisation)
      o["style"] = NE->getInitializationStyle() == CXXNewExpr::NoInit ? "none" : (NE->getInitializationStyle() == CXXNewExpr::CallInit ? "call" : "list");
      const Expr *ini = NE->getInitializer();
      bool nothrowInit = true;
      if (ini) {
        const Expr *s = strip(ini);
        if (auto *C = dyn_cast_or_null<CXXConstructExpr>(s)) nothrowInit = isNothrowFn(C->getConstructor());
      }
      o["init_nothrow"] = nothrowInit;
      return std::move(o);
    }
    if (auto *DE = dyn_cast<CXXDeleteExpr>(E)) {
      o["k"] = "delete";
      o["sub"] = expr(DE->getArgument());
      if (const FunctionDecl *OD = DE->getOperatorDelete()) {
        o["opdelete"] = mangled(OD);
        noteCall(OD, E->getExprLoc(), "delete");
      }
      return std::move(o);
    }
    if (auto *UO = dyn_cast<UnaryOperator>(E)) {
      o["k"] = "un";
      o["op"] = UnaryOperator::getOpcodeStr(UO->getOpcode()).str();
      if (UO->isPostfix()) o["post"] = true;
      o["sub"] = expr(UO->getSubExpr());
      setConst(o, E);
      return std::move(o);
    }
    if (auto *BO = dyn_cast<BinaryOperator>(E)) {
      o["k"] = "bin";
      o["op"] = BO->getOpcodeStr().str();
      o["lhs"] = expr(BO->getLHS());
      o["rhs"] = expr(BO->getRHS());
      // computation type of arithmetic: the (promoted) operand type
      o["lt"] = typeStr(BO->getLHS()->getType());
      o["rt"] = typeStr(BO->getRHS()->getType());
      setConst(o, E);
      return std::move(o);
    }
    if (auto *CO = dyn_cast<ConditionalOperator>(E)) {
      o["k"] = "cond";
      o["c"] = expr(CO->getCond());
      o["a"] = expr(CO->getTrueExpr());
      o["b"] = expr(CO->getFalseExpr());
      setConst(o, E);
      return std::move(o);
    }
    if (auto *EC = dyn_cast<ExplicitCastExpr>(E)) {
      o["k"] = "cast";
      if (isa<CXXStaticCastExpr>(EC)) o["ck"] = "static";
      else if (isa<CXXConstCastExpr>(EC)) o["ck"] = "const";
      else if (isa<CXXReinterpretCastExpr>(EC)) o["ck"] = "reinterpret";
      else if (isa<CXXDynamicCastExpr>(EC)) o["ck"] = "dynamic";
      else if (isa<CXXFunctionalCastExpr>(EC)) o["ck"] = "functional";
      else if (isa<CStyleCastExpr>(EC)) o["ck"] = "cstyle";
      else o["ck"] = "other";
      o["cast"] = EC->getCastKindName();
      {
        // the operand type *before* the implicit conversion that the explicit cast subsumes (static_cast<uint8_t>(a + b):
        // the operand is `a + b` of type unsigned int, not the already converted uint8_t)
        const Expr *inner = strip(EC->getSubExpr());
        o["from"] = typeStr(inner ? inner->getType() : EC->getSubExpr()->getType());
      }
      o["sub"] = expr(EC->getSubExpr());
      setConst(o, E);
      return std::move(o);
    }
    if (auto *IL = dyn_cast<IntegerLiteral>(E)) {
      o["k"] = "lit";
      llvm::APInt v = IL->getValue();
      if (v.isIntN(63)) o["v"] = (int64_t)v.getZExtValue();
      else o["v"] = llvm::toString(v, 10, false);
      return std::move(o);
    }
    if (auto *BL = dyn_cast<CXXBoolLiteralExpr>(E)) {
      o["k"] = "lit";
      o["v"] = BL->getValue();
      return std::move(o);
    }
    if (isa<CXXNullPtrLiteralExpr>(E) || isa<GNUNullExpr>(E)) {
      o["k"] = "lit";
      o["v"] = nullptr;
      o["null"] = true;
      return std::move(o);
    }
    if (auto *SL = dyn_cast<StringLiteral>(E)) {
      o["k"] = "lit";
      if (SL->isAscii()) o["v"] = SL->getString().str();
      return std::move(o);
    }
    if (auto *TE = dyn_cast<CXXThrowExpr>(E)) {
      o["k"] = "throw";
      if (TE->getSubExpr()) {
        o["sub"] = expr(TE->getSubExpr());
        o["of"] = typeStr(TE->getSubExpr()->getType());
      }
      if (CurThrows) CurThrows->push_back(TE->getSubExpr() ? typeStr(TE->getSubExpr()->getType()) : "rethrow");
      return std::move(o);
    }
    if (auto *LE = dyn_cast<LambdaExpr>(E)) {
      o["k"] = "lambda";
      if (const CXXMethodDecl *op = LE->getCallOperator()) {
        o["fn"] = mangled(op);
        Referenced.insert(op->getCanonicalDecl());
        Lambdas.push_back(op);
        noteCall(op, E->getExprLoc(), "lambda");
      }
      json::Array caps;
      for (const Expr *init : LE->capture_inits()) caps.push_back(expr(init));
      o["captures"] = std::move(caps);
      return std::move(o);
    }
    if (auto *SE = dyn_cast<UnaryExprOrTypeTraitExpr>(E)) {
      o["k"] = "sizeof";
      if (SE->isArgumentType()) o["of"] = typeStr(SE->getArgumentType());
      setConst(o, E);
      return std::move(o);
    }
    if (auto *AS = dyn_cast<ArraySubscriptExpr>(E)) {
      o["k"] = "idx";
      o["base"] = expr(AS->getBase());
      o["index"] = expr(AS->getIdx());
      return std::move(o);
    }
    if (auto *ILE = dyn_cast<InitListExpr>(E)) {
      o["k"] = "initlist";
      json::Array a;
      for (const Expr *x : ILE->inits()) a.push_back(expr(x));
      o["elems"] = std::move(a);
      return std::move(o);
    }
    if (auto *PD = dyn_cast<CXXPseudoDestructorExpr>(E)) {
      o["k"] = "pseudodtor";
      o["base"] = expr(PD->getBase());
      return std::move(o);
    }
    if (auto *SV = dyn_cast<CXXScalarValueInitExpr>(E)) {
      (void)SV;
      o["k"] = "valueinit";
      return std::move(o);
    }
    if (auto *ST = dyn_cast<CXXStdInitializerListExpr>(E)) {
      o["k"] = "stdinitlist";
      o["sub"] = expr(ST->getSubExpr());
      return std::move(o);
    }
    // generic: children + constant value when there is one
    o["k"] = "other";
    o["cls"] = E->getStmtClassName();
    setConst(o, E);
    json::Array ch;
    for (const Stmt *c : E->children()) {
      if (auto *ce = dyn_cast_or_null<Expr>(c)) ch.push_back(expr(ce));
    }
    o["ch"] = std::move(ch);
    return std::move(o);
  }

  // ---------------------------------------------------------------- statements
  int64_t declId(const VarDecl *VD) {
    auto it = DeclIds.find(VD);
    if (it != DeclIds.end()) return it->second;
    int64_t id = (int64_t)DeclIds.size() + 1;
    DeclIds[VD] = id;
    return id;
  }

  json::Value varDecl(const VarDecl *VD) {
    json::Object v;
    v["name"] = VD->getNameAsString();
    v["t"] = typeStr(VD->getType());
    v["st"] = sugarTypeStr(VD->getType());
    v["did"] = declId(VD);
    v["l"] = locStr(VD->getLocation());
    if (VD->isStaticLocal()) v["static"] = true;
    if (VD->getTLSKind() != VarDecl::TLS_None) v["tls"] = true;
    if (VD->hasInit()) v["init"] = expr(VD->getInit());
    if (const auto *RD = VD->getType()->getBaseElementTypeUnsafe()->getAsCXXRecordDecl()) {
      if (RD->hasDefinition() && !RD->hasTrivialDestructor()) {
        if (const CXXDestructorDecl *DD = RD->getDestructor()) {
          v["dtor"] = mangled(DD);
          v["dtor_nothrow"] = isNothrowFn(DD);
          noteCall(DD, VD->getLocation(), "dtor");
        }
      }
    }
    return std::move(v);
  }

  json::Value stmt(const Stmt *S) {
    if (!S) return nullptr;
    if (auto *E = dyn_cast<Expr>(S)) return expr(E);
    json::Object o;
    o["l"] = locStr(S->getBeginLoc());
    if (S->getBeginLoc().isMacroID()) o["mac"] = macroStack(S->getBeginLoc());
    if (auto *CS = dyn_cast<CompoundStmt>(S)) {
      o["k"] = "block";
      json::Array a;
      for (const Stmt *c : CS->body()) a.push_back(stmt(c));
      o["s"] = std::move(a);
      return std::move(o);
    }
    if (auto *IS = dyn_cast<IfStmt>(S)) {
      o["k"] = "if";
      if (IS->isConstexpr()) o["constexpr"] = true;
      if (IS->getInit()) o["init"] = stmt(IS->getInit());
      if (IS->getConditionVariable()) o["var"] = varDecl(IS->getConditionVariable());
      o["c"] = expr(IS->getCond());
      o["then"] = stmt(IS->getThen());
      o["else"] = stmt(IS->getElse());
      return std::move(o);
    }
    if (auto *FS = dyn_cast<ForStmt>(S)) {
      o["k"] = "for";
      o["init"] = stmt(FS->getInit());
      o["c"] = expr(FS->getCond());
      o["inc"] = expr(FS->getInc());
      o["body"] = stmt(FS->getBody());
      return std::move(o);
    }
    if (auto *WS = dyn_cast<WhileStmt>(S)) {
      o["k"] = "while";
      o["c"] = expr(WS->getCond());
      o["body"] = stmt(WS->getBody());
      return std::move(o);
    }
    if (auto *DS = dyn_cast<DoStmt>(S)) {
      o["k"] = "do";
      o["c"] = expr(DS->getCond());
      o["body"] = stmt(DS->getBody());
      return std::move(o);
    }
    if (auto *RF = dyn_cast<CXXForRangeStmt>(S)) {
      o["k"] = "rangefor";
      o["range"] = expr(RF->getRangeInit());
      if (RF->getLoopVariable()) o["var"] = varDecl(RF->getLoopVariable());
      // the desugared pieces carry the begin/end/++/* calls
      json::Array hidden;
      if (RF->getBeginStmt()) hidden.push_back(stmt(RF->getBeginStmt()));
      if (RF->getEndStmt()) hidden.push_back(stmt(RF->getEndStmt()));
      if (RF->getCond()) hidden.push_back(expr(RF->getCond()));
      if (RF->getInc()) hidden.push_back(expr(RF->getInc()));
      o["desugar"] = std::move(hidden);
      o["body"] = stmt(RF->getBody());
      return std::move(o);
    }
    if (auto *TS = dyn_cast<CXXTryStmt>(S)) {
      o["k"] = "try";
      o["body"] = stmt(TS->getTryBlock());
      json::Array hs;
      for (unsigned i = 0; i < TS->getNumHandlers(); ++i) {
        const CXXCatchStmt *H = TS->getHandler(i);
        json::Object h;
        h["all"] = H->getExceptionDecl() == nullptr;
        if (H->getExceptionDecl()) h["t"] = typeStr(H->getCaughtType());
        h["body"] = stmt(H->getHandlerBlock());
        hs.push_back(std::move(h));
      }
      o["handlers"] = std::move(hs);
      return std::move(o);
    }
    if (auto *RS = dyn_cast<ReturnStmt>(S)) {
      o["k"] = "ret";
      o["e"] = expr(RS->getRetValue());
      if (RS->getNRVOCandidate()) o["nrvo"] = declId(RS->getNRVOCandidate());
      return std::move(o);
    }
    if (auto *DS = dyn_cast<DeclStmt>(S)) {
      o["k"] = "decl";
      json::Array vars;
      for (const Decl *D : DS->decls()) {
        if (auto *VD = dyn_cast<VarDecl>(D)) {
          vars.push_back(varDecl(VD));
          if (VD->isStaticLocal()) noteStatic(VD);
        } else if (auto *RD = dyn_cast<CXXRecordDecl>(D)) {
          LocalRecords.push_back(RD);
        }
      }
      o["vars"] = std::move(vars);
      return std::move(o);
    }
    if (isa<BreakStmt>(S)) {
      o["k"] = "break";
      return std::move(o);
    }
    if (isa<ContinueStmt>(S)) {
      o["k"] = "continue";
      return std::move(o);
    }
    if (isa<NullStmt>(S)) {
      o["k"] = "null";
      return std::move(o);
    }
    if (auto *SS = dyn_cast<SwitchStmt>(S)) {
      o["k"] = "switch";
      o["c"] = expr(SS->getCond());
      o["body"] = stmt(SS->getBody());
      return std::move(o);
    }
    if (auto *CS = dyn_cast<CaseStmt>(S)) {
      o["k"] = "case";
      o["v"] = expr(CS->getLHS());
      o["body"] = stmt(CS->getSubStmt());
      return std::move(o);
    }
    if (auto *DF = dyn_cast<DefaultStmt>(S)) {
      o["k"] = "default";
      o["body"] = stmt(DF->getSubStmt());
      return std::move(o);
    }
    if (auto *AS = dyn_cast<AttributedStmt>(S)) {
      return stmt(AS->getSubStmt());
    }
    if (isa<GotoStmt>(S) || isa<LabelStmt>(S)) {
      o["k"] = "goto";
      return std::move(o);
    }
    o["k"] = "otherstmt";
    o["cls"] = S->getStmtClassName();
    json::Array ch;
    for (const Stmt *c : S->children()) ch.push_back(stmt(c));
    o["ch"] = std::move(ch);
    return std::move(o);
  }

  // flat walk for non-root functions: only call edges / byte copies / throws
  void flatWalk(const Stmt *S, json::Array &byteCopies, bool &hasCatchAllNoRethrow) {
    if (!S) return;
    if (auto *CE = dyn_cast<CallExpr>(S)) {
      if (const FunctionDecl *FD = CE->getDirectCallee()) {
        noteCall(FD, CE->getExprLoc(), "call");
        std::string n = FD->getNameAsString();
        if (n == "memcpy" || n == "memmove" || n == "realloc" || n == "__builtin_memcpy" ||
            n == "__builtin_memmove" || n == "__builtin_memset" || n == "memset" || n == "__builtin_realloc" || n == "memcmp" ||
            n == "__builtin_memcmp" || n == "bcmp") {
          json::Object b;
          b["name"] = n;
          b["l"] = fullLocStr(CE->getExprLoc());
          json::Array at;
          for (unsigned i = 0; i < CE->getNumArgs(); ++i) {
            const Expr *A = strip(CE->getArg(i));
            // look through explicit casts to void*
            while (A) {
              if (auto *EC = dyn_cast<ExplicitCastExpr>(A)) A = strip(EC->getSubExpr());
              else break;
            }
            at.push_back(A ? typeStr(A->getType()) : "");
          }
          b["argt"] = std::move(at);
          byteCopies.push_back(std::move(b));
        }
      }
    } else if (auto *CE = dyn_cast<CXXConstructExpr>(S)) {
      noteCall(CE->getConstructor(), CE->getExprLoc(), "construct");
    } else if (auto *NE = dyn_cast<CXXNewExpr>(S)) {
      if (const FunctionDecl *ON = NE->getOperatorNew())
        if (!ON->isReservedGlobalPlacementOperator()) noteCall(ON, NE->getExprLoc(), "new");
    } else if (auto *DE = dyn_cast<CXXDeleteExpr>(S)) {
      if (const FunctionDecl *OD = DE->getOperatorDelete()) noteCall(OD, DE->getExprLoc(), "delete");
    } else if (auto *TE = dyn_cast<CXXThrowExpr>(S)) {
      if (CurThrows) CurThrows->push_back(TE->getSubExpr() ? typeStr(TE->getSubExpr()->getType()) : "rethrow");
    } else if (auto *BT = dyn_cast<CXXBindTemporaryExpr>(S)) {
      noteDtor(BT->getTemporary()->getDestructor());
    } else if (auto *DRE = dyn_cast<DeclRefExpr>(S)) {
      if (auto *FD = dyn_cast<FunctionDecl>(DRE->getDecl())) noteCall(FD, DRE->getExprLoc(), "ref");
    } else if (auto *LE = dyn_cast<LambdaExpr>(S)) {
      if (const CXXMethodDecl *op = LE->getCallOperator()) {
        Lambdas.push_back(op);
        noteCall(op, LE->getExprLoc(), "lambda");
      }
    } else if (auto *DS = dyn_cast<DeclStmt>(S)) {
      for (const Decl *D : DS->decls()) {
        if (auto *VD = dyn_cast<VarDecl>(D)) {
          if (const auto *RD = VD->getType()->getBaseElementTypeUnsafe()->getAsCXXRecordDecl())
            if (RD->hasDefinition() && !RD->hasTrivialDestructor())
              if (const CXXDestructorDecl *DD = RD->getDestructor()) noteCall(DD, VD->getLocation(), "dtor");
        }
      }
    } else if (auto *TS = dyn_cast<CXXTryStmt>(S)) {
      for (unsigned i = 0; i < TS->getNumHandlers(); ++i) {
        const CXXCatchStmt *H = TS->getHandler(i);
        if (!H->getExceptionDecl()) {
          // catch (...) : does the handler rethrow?
          bool rethrows = false;
          struct Finder : RecursiveASTVisitor<Finder> {
            bool &r;
            explicit Finder(bool &r) : r(r) {}
            bool VisitCXXThrowExpr(CXXThrowExpr *) {
              r = true;
              return true;
            }
          } f(rethrows);
          f.TraverseStmt(const_cast<Stmt *>(static_cast<const Stmt *>(H->getHandlerBlock())));
          if (!rethrows) hasCatchAllNoRethrow = true;
        }
      }
    }
    for (const Stmt *c : S->children()) flatWalk(c, byteCopies, hasCatchAllNoRethrow);
  }

  // ---------------------------------------------------------------- functions
  void noteStatic(const VarDecl *VD) {
    if (!inAmc(VD->getLocation())) return;
    if (!StaticSeen.insert(VD->getCanonicalDecl()).second) return;
    json::Object g;
    g["name"] = VD->getQualifiedNameAsString();
    g["t"] = typeStr(VD->getType());
    g["loc"] = fullLocStr(VD->getLocation());
    g["constexpr"] = VD->isConstexpr();
    g["const"] = VD->getType().isConstQualified();
    g["staticlocal"] = VD->isStaticLocal();
    g["member"] = VD->isStaticDataMember();
    g["tls"] = VD->getTLSKind() != VarDecl::TLS_None;
    Statics.push_back(std::move(g));
  }

  void exportFunction(const FunctionDecl *FD) {
    if (!FD) return;
    const FunctionDecl *Def = nullptr;
    bool hasBody = FD->hasBody(Def);
    if (hasBody) FD = Def;
    if (FD->isDependentContext()) return;
    if (FD->getTemplatedKind() == FunctionDecl::TK_FunctionTemplate) return;
    std::string id = mangled(FD);
    if (!Exported.insert(id).second) return;
    if (hasBody && FD->isLateTemplateParsed()) hasBody = false;

    json::Object f;
    f["name"] = plainQName(FD);
    f["pname"] = prettyFn(FD);
    f["loc"] = fullLocStr(FD->getLocation());
    if (hasBody && FD->getBody()) f["bloc"] = fullLocStr(FD->getBody()->getBeginLoc());
    bool amc = inAmc(FD->getLocation());
    bool root = inRoots(FD->getLocation());
    if (amc) f["amc"] = true;
    if (root && !amc) f["main"] = true;
    f["nothrow"] = isNothrowFn(FD);
    if (const auto *FPT = FD->getType()->getAs<FunctionProtoType>()) {
      f["est"] = (int64_t)FPT->getExceptionSpecType();
    }
    f["ret"] = typeStr(FD->getReturnType());
    f["type"] = typeStr(FD->getType());
    if (FD->isDefaulted()) f["defaulted"] = true;
    if (FD->isImplicit()) f["implicit"] = true;
    if (FD->isDeleted()) f["deleted"] = true;
    if (FD->isTrivial()) f["trivial"] = true;
    if (FD->isConstexpr()) f["constexpr"] = true;
    if (unsigned b = FD->getBuiltinID()) f["builtin"] = (int64_t)b;
    if (FD->isInStdNamespace()) f["std"] = true;
    if (auto *MD = dyn_cast<CXXMethodDecl>(FD)) {
      f["cls"] = prettyRecord(MD->getParent());
      f["clsq"] = plainQName(MD->getParent());
      if (MD->isConst()) f["const"] = true;
      if (MD->isStatic()) f["static"] = true;
      f["access"] = accessStr(MD->getAccess());
      if (isa<CXXConstructorDecl>(MD)) f["kind"] = "ctor";
      else if (isa<CXXDestructorDecl>(MD)) f["kind"] = "dtor";
      else if (isa<CXXConversionDecl>(MD)) f["kind"] = "conv";
      else f["kind"] = "method";
      if (MD->getParent()->isLambda()) f["lambda"] = true;
      noteRecord(MD->getParent());
    } else {
      f["kind"] = "function";
      if (FD->getFriendObjectKind() != Decl::FOK_None) f["friend"] = true;
    }
    if (FD->isOverloadedOperator()) f["op"] = getOperatorSpelling(FD->getOverloadedOperator());
    // template arguments of the function itself
    if (const TemplateArgumentList *TAL = FD->getTemplateSpecializationArgs()) {
      json::Array ta;
      for (const TemplateArgument &A : TAL->asArray()) ta.push_back(targStr(A));
      f["targs"] = std::move(ta);
    }
    // the pattern this was instantiated from: a stable site key across instantiations
    if (const FunctionDecl *Pat = FD->getTemplateInstantiationPattern()) {
      f["pattern"] = fullLocStr(Pat->getLocation());
      json::Array pp;
      for (const ParmVarDecl *P : Pat->parameters()) pp.push_back(P->getNameAsString());
      f["pparams"] = std::move(pp);
    }
    json::Array params;
    for (const ParmVarDecl *P : FD->parameters()) {
      json::Object p;
      p["name"] = P->getNameAsString();
      p["t"] = typeStr(P->getType());
      p["st"] = sugarTypeStr(P->getType());
      p["did"] = declId(P);
      if (P->hasDefaultArg() && !P->hasUninstantiatedDefaultArg() && !P->hasUnparsedDefaultArg())
        p["hasdefault"] = true;
      params.push_back(std::move(p));
    }
    f["params"] = std::move(params);

    if (hasBody) {
      std::vector<std::string> calls, throws;
      auto *savedCalls = CurCalls;
      auto *savedThrows = CurThrows;
      auto savedSet = std::move(CurCallSet);
      CurCallSet.clear();
      CurCalls = &calls;
      CurThrows = &throws;
      if (root) {
        if (auto *CD = dyn_cast<CXXConstructorDecl>(FD)) {
          json::Array inits;
          for (const CXXCtorInitializer *I : CD->inits()) {
            json::Object io;
            if (I->isBaseInitializer()) io["base"] = typeStr(QualType(I->getBaseClass(), 0));
            else if (I->isAnyMemberInitializer()) io["member"] = I->getAnyMember()->getNameAsString();
            else if (I->isDelegatingInitializer()) io["delegating"] = true;
            io["written"] = I->isWritten();
            io["init"] = expr(I->getInit());
            inits.push_back(std::move(io));
          }
          f["inits"] = std::move(inits);
        }
        f["body"] = stmt(FD->getBody());
      } else {
        json::Array bc;
        bool swallow = false;
        if (auto *CD = dyn_cast<CXXConstructorDecl>(FD))
          for (const CXXCtorInitializer *I : CD->inits()) flatWalk(I->getInit(), bc, swallow);
        flatWalk(FD->getBody(), bc, swallow);
        if (!bc.empty()) f["bytecopies"] = std::move(bc);
        if (swallow) f["swallows"] = true;
      }
      // implicit destructor edges: members and bases of a destructor's class
      if (auto *DD = dyn_cast<CXXDestructorDecl>(FD)) {
        const CXXRecordDecl *RD = DD->getParent();
        for (const auto &B : RD->bases())
          if (const auto *BR = B.getType()->getAsCXXRecordDecl())
            if (BR->hasDefinition() && BR->getDestructor()) noteCall(BR->getDestructor(), SourceLocation(), "dtor");
        for (const FieldDecl *Fd : RD->fields())
          if (const auto *FR = Fd->getType()->getBaseElementTypeUnsafe()->getAsCXXRecordDecl())
            if (FR->hasDefinition() && FR->getDestructor()) noteCall(FR->getDestructor(), SourceLocation(), "dtor");
      }
      CurCalls = savedCalls;
      CurThrows = savedThrows;
      CurCallSet = std::move(savedSet);
      json::Array ca;
      for (auto &c : calls) ca.push_back(c);
      f["calls"] = std::move(ca);
      if (!throws.empty()) {
        json::Array ta;
        for (auto &t : throws) ta.push_back(t);
        f["throws"] = std::move(ta);
      }
      f["hasbody"] = true;
    } else {
      f["hasbody"] = false;
    }
    Functions[id] = std::move(f);
  }

  static const char *accessStr(AccessSpecifier a) {
    switch (a) {
      case AS_public: return "public";
      case AS_protected: return "protected";
      case AS_private: return "private";
      default: return "none";
    }
  }

  std::string targStr(const TemplateArgument &A) {
    std::string s;
    llvm::raw_string_ostream os(s);
    switch (A.getKind()) {
      case TemplateArgument::Type: return typeStr(A.getAsType());
      case TemplateArgument::Integral: return llvm::toString(A.getAsIntegral(), 10);
      case TemplateArgument::Pack: {
        std::string r = "<";
        bool first = true;
        for (const auto &P : A.pack_elements()) {
          if (!first) r += ", ";
          first = false;
          r += targStr(P);
        }
        return r + ">";
      }
      default:
        A.print(Policy, os, true);
        os.flush();
        return s;
    }
  }

  // ---------------------------------------------------------------- records
  void noteRecord(const CXXRecordDecl *RD) {
    if (!RD) return;
    RD = RD->getDefinition();
    if (!RD || RD->isDependentContext() || RD->isInvalidDecl() || !RD->isCompleteDefinition()) return;
    if (!RecordsSeen.insert(RD).second) return;
    bool amc = inRoots(RD->getLocation());
    // always walk bases/fields of amc records; non-amc records are recorded only when they are
    // a base or a field of one (shallow)
    json::Object r;
    r["name"] = prettyRecord(RD);
    r["qname"] = plainQName(RD);
    r["loc"] = fullLocStr(RD->getLocation());
    if (amc) r["amc"] = true;
    if (RD->isLambda()) r["lambda"] = true;
    if (const auto *CTSD = dyn_cast<ClassTemplateSpecializationDecl>(RD)) {
      json::Array ta;
      for (const TemplateArgument &A : CTSD->getTemplateArgs().asArray()) ta.push_back(targStr(A));
      r["targs"] = std::move(ta);
    }
    const ASTRecordLayout &L = Ctx.getASTRecordLayout(RD);
    r["size"] = (int64_t)L.getSize().getQuantity();
    r["align"] = (int64_t)L.getAlignment().getQuantity();
    r["datasize"] = (int64_t)L.getDataSize().getQuantity();
    r["triv_dtor"] = RD->hasTrivialDestructor();
    r["triv_copyable"] = Ctx.getRecordType(RD).isTriviallyCopyableType(Ctx);
    r["empty"] = RD->isEmpty();
    json::Array bases;
    for (const auto &B : RD->bases()) {
      json::Object b;
      b["t"] = typeStr(B.getType());
      b["access"] = accessStr(B.getAccessSpecifier());
      if (const auto *BR = B.getType()->getAsCXXRecordDecl()) {
        if (BR->getDefinition() && !B.isVirtual())
          b["offset"] = (int64_t)L.getBaseClassOffset(BR->getDefinition()).getQuantity();
        if (amc) noteRecord(BR);
      }
      bases.push_back(std::move(b));
    }
    r["bases"] = std::move(bases);
    json::Array fields;
    unsigned idx = 0;
    for (const FieldDecl *F : RD->fields()) {
      json::Object fo;
      fo["name"] = F->getNameAsString();
      fo["t"] = typeStr(F->getType());
      fo["access"] = accessStr(F->getAccess());
      fo["mutable"] = F->isMutable();
      fo["offset"] = (int64_t)(L.getFieldOffset(idx) / 8);
      if (!F->getType()->isIncompleteType() && !F->getType()->isDependentType()) {
        fo["size"] = (int64_t)Ctx.getTypeSizeInChars(F->getType()).getQuantity();
        fo["align"] = (int64_t)Ctx.getTypeAlignInChars(F->getType()).getQuantity();
      }
      fo["pointer"] = F->getType()->isPointerType() || F->getType()->isReferenceType();
      fo["l"] = fullLocStr(F->getLocation());
      fields.push_back(std::move(fo));
      if (amc)
        if (const auto *FR = F->getType()->getBaseElementTypeUnsafe()->getAsCXXRecordDecl()) noteRecord(FR);
      ++idx;
    }
    r["fields"] = std::move(fields);
    // member typedefs of interest + static data members
    json::Object tds;
    for (const Decl *D : RD->decls()) {
      if (const auto *TD = dyn_cast<TypedefNameDecl>(D)) {
        if (amc) tds[TD->getNameAsString()] = typeStr(TD->getUnderlyingType());
      } else if (const auto *VD = dyn_cast<VarDecl>(D)) {
        if (VD->isStaticDataMember()) noteStatic(VD);
      }
    }
    r["typedefs"] = std::move(tds);
    // method table: name, access, const - the API surface (declared, whether or not instantiated)
    if (amc) {
      json::Array ms;
      for (const Decl *D : RD->decls()) {
        const CXXMethodDecl *MD = dyn_cast<CXXMethodDecl>(D);
        bool tmpl = false;
        if (!MD)
          if (const auto *FTD = dyn_cast<FunctionTemplateDecl>(D)) {
            MD = dyn_cast<CXXMethodDecl>(FTD->getTemplatedDecl());
            tmpl = true;
          }
        if (!MD || MD->isImplicit()) continue;
        json::Object m;
        m["name"] = MD->getNameAsString();
        m["access"] = accessStr(D->getAccess());
        m["const"] = MD->isConst();
        m["static"] = MD->isStatic();
        m["tmpl"] = tmpl;
        m["l"] = fullLocStr(MD->getLocation());
        if (!tmpl) {
          m["type"] = typeStr(MD->getType());
          m["ret"] = typeStr(MD->getReturnType());
          const auto *FPT = MD->getType()->getAs<FunctionProtoType>();
          if (FPT && !isUnresolvedExceptionSpec(FPT->getExceptionSpecType())) m["nothrow"] = FPT->isNothrow();
          m["id"] = mangled(MD);
        } else {
          m["nparams"] = (int64_t)MD->getNumParams();
        }
        if (MD->isDeleted()) m["deleted"] = true;
        if (MD->isDefaulted()) m["defaulted"] = true;
        ms.push_back(std::move(m));
      }
      r["methods"] = std::move(ms);
    }
    Records.push_back(std::move(r));
  }

  // ---------------------------------------------------------------- driver
  struct Finder : RecursiveASTVisitor<Finder> {
    Exporter &X;
    explicit Finder(Exporter &x) : X(x) {}
    bool shouldVisitTemplateInstantiations() const { return true; }
    bool shouldVisitImplicitCode() const { return true; }
    bool VisitFunctionDecl(FunctionDecl *FD) {
      if (FD->isDependentContext()) return true;
      if (!FD->doesThisDeclarationHaveABody() && !FD->isDefaulted()) return true;
      X.Pending.push_back(FD);
      return true;
    }
    bool VisitCXXRecordDecl(CXXRecordDecl *RD) {
      if (RD->isDependentContext()) return true;
      if (RD->isThisDeclarationADefinition() && X.inRoots(RD->getLocation())) X.noteRecord(RD);
      return true;
    }
    bool VisitVarDecl(VarDecl *VD) {
      if (VD->getDeclContext()->isDependentContext() || isa<ParmVarDecl>(VD)) return true;
      if (VD->hasGlobalStorage() && !VD->getDeclContext()->isDependentContext()) X.noteStatic(VD);
      return true;
    }
    bool VisitStaticAssertDecl(StaticAssertDecl *SA) {
      if (SA->getDeclContext()->isDependentContext()) return true;
      if (!X.inRoots(SA->getLocation())) return true;
      json::Object s;
      s["loc"] = X.fullLocStr(SA->getLocation());
      s["failed"] = SA->isFailed();
      X.StaticAsserts.push_back(std::move(s));
      return true;
    }
  };

  void run(TranslationUnitDecl *TU) {
    Finder F(*this);
    F.TraverseDecl(TU);
    for (size_t i = 0; i < Pending.size(); ++i) exportFunction(Pending[i]);
    // lambdas' call operators discovered while walking bodies
    for (size_t i = 0; i < Lambdas.size(); ++i) exportFunction(Lambdas[i]);
    for (size_t i = 0; i < LocalRecords.size(); ++i) noteRecord(LocalRecords[i]);
    // callees that have no definition in this TU (memcpy, malloc, operator new, ...)
    std::vector<const FunctionDecl *> refs(Referenced.begin(), Referenced.end());
    for (const FunctionDecl *FD : refs) exportFunction(FD);
    for (size_t i = 0; i < Lambdas.size(); ++i) exportFunction(Lambdas[i]);

    json::Object top;
    top["main"] = SM.getFileEntryForID(SM.getMainFileID()) ? SM.getFileEntryForID(SM.getMainFileID())->getName().str()
                                                           : std::string();
    top["std"] = (int64_t)(Ctx.getLangOpts().CPlusPlus20   ? 20
                           : Ctx.getLangOpts().CPlusPlus17 ? 17
                           : Ctx.getLangOpts().CPlusPlus14 ? 14
                                                           : 11);
    top["errors"] = (int64_t)Ctx.getDiagnostics().getClient()->getNumErrors();
    json::Object fns;
    for (auto &kv : Functions) fns[kv.first] = std::move(kv.second);
    top["functions"] = std::move(fns);
    top["records"] = std::move(Records);
    top["statics"] = std::move(Statics);
    top["static_asserts"] = std::move(StaticAsserts);
    std::error_code EC;
    llvm::raw_fd_ostream os(Opts.out, EC);
    if (EC) {
      llvm::errs() << "amcsa: cannot write " << Opts.out << ": " << EC.message() << "\n";
      return;
    }
    os << json::Value(std::move(top));
    os << "\n";
  }

 private:
  ASTContext &Ctx;
  SourceManager &SM;
  const Options &Opts;
  PrintingPolicy Policy;
  std::unique_ptr<ItaniumMangleContext> Mangler;
  std::map<const FunctionDecl *, std::string> IdCache;
  std::map<const VarDecl *, int64_t> DeclIds;
  std::set<std::string> Exported;
  std::map<std::string, json::Object> Functions;
  std::set<const FunctionDecl *> Referenced;
  std::vector<const FunctionDecl *> Pending;
  std::vector<const CXXMethodDecl *> Lambdas;
  std::vector<const CXXRecordDecl *> LocalRecords;
  std::set<const CXXRecordDecl *> RecordsSeen;
  std::set<const VarDecl *> StaticSeen;
  json::Array Records, Statics, StaticAsserts;
  std::vector<std::string> *CurCalls = nullptr;
  std::vector<std::string> *CurThrows = nullptr;
  std::set<std::string> CurCallSet;
};

class Consumer : public ASTConsumer {
 public:
  Consumer(CompilerInstance &CI, Options o) : CI(CI), Opts(std::move(o)) {}
  void HandleTranslationUnit(ASTContext &Ctx) override {
    Exporter X(Ctx, Opts);
    X.run(Ctx.getTranslationUnitDecl());
  }

 private:
  CompilerInstance &CI;
  Options Opts;
};

class Action : public PluginASTAction {
 protected:
  std::unique_ptr<ASTConsumer> CreateASTConsumer(CompilerInstance &CI, llvm::StringRef) override {
    return std::make_unique<Consumer>(CI, Opts);
  }
  bool ParseArgs(const CompilerInstance &, const std::vector<std::string> &args) override {
    for (const std::string &a : args) {
      if (a.rfind("out=", 0) == 0) Opts.out = a.substr(4);
      else if (a.rfind("root=", 0) == 0) Opts.roots.push_back(a.substr(5));
      else if (a.rfind("drv=", 0) == 0) Opts.drvs.push_back(a.substr(4));
      else if (a == "nomain") Opts.mainIsRoot = false;
    }
    if (Opts.out.empty()) Opts.out = "amcsa.json";
    if (Opts.roots.empty()) Opts.roots.push_back("/include/amc/");
    return true;
  }
  PluginASTAction::ActionType getActionType() override { return AddAfterMainAction; }

 private:
  Options Opts;
};

}  // namespace

static FrontendPluginRegistry::Add<Action> X("amcsa", "export resolved program facts for the amc static checks");
