#!/usr/bin/env python3
"""Both-ways self-test of the checkers (DESIGN.md section 8).

sa/mutants/*.json : one-hunk edits of the amc headers.  kind=mutant  -> the listed checks must exit 1 and
                    name the expected rule; kind=neutral -> the listed checks must stay silent (exit 0).
Each edit is applied to a scratch copy of /repo/include (outside /repo and /verif, removed afterwards);
the checks are pointed at it through AMC_REPO and write their evidence to the scratch directory."""
import glob
import json
import os
import shutil
import subprocess
import sys
import tempfile
import concurrent.futures

HERE = os.path.dirname(os.path.dirname(os.path.abspath(__file__)))
REPO = '/repo'


def apply_edit(root, m):
    edits = m.get('edits') or [m]
    for e in edits:
        p = os.path.join(root, e['file'])
        s = open(p).read()
        if s.count(e['old']) < 1:
            raise SystemExit('mutant %s: anchor text not found in %s' % (m['name'], e['file']))
        s = s.replace(e['old'], e['new'], e.get('count', 1))
        open(p, 'w').write(s)


def run_one(m, tier='quick'):
    d = tempfile.mkdtemp(prefix='amcmut-')
    try:
        shutil.copytree(os.path.join(REPO, 'include'), os.path.join(d, 'include'))
        for extra in ('test', 'benchmark'):
            if os.path.isdir(os.path.join(REPO, extra)):
                shutil.copytree(os.path.join(REPO, extra), os.path.join(d, extra))
        apply_edit(d, m)
        out = []
        ok = True
        for prop in m['props']:
            env = dict(os.environ, AMC_REPO=d, VERIF_EVIDENCE_DIR=os.path.join(d, 'evidence'), VERIF_REPLAY_DIR=os.path.join(d, 'replays'))
            p = subprocess.run([os.path.join(HERE, 'check'), prop, '--tier', m.get('tier', tier)], env=env, stdout=subprocess.PIPE,
                               stderr=subprocess.STDOUT, universal_newlines=True)
            if m['kind'] == 'mutant':
                good = p.returncode == 1 and (not m.get('rule') or ('[%s]' % m['rule']) in p.stdout)
            else:
                good = p.returncode == 0
            ok = ok and good
            out.append((prop, p.returncode, good, p.stdout))
        return m, ok, out
    finally:
        shutil.rmtree(d, ignore_errors=True)


def main():
    args = sys.argv[1:]
    verbose = '-v' in args
    args = [a for a in args if a not in ('-v', '--table')]
    ms = []
    for f in sorted(glob.glob(os.path.join(HERE, 'sa', 'mutants', '*.json'))):
        for m in json.load(open(f)):
            if not args or any(a in m['name'] or a in m['props'] for a in args):
                ms.append(m)
    if '--table' in sys.argv:
        print('| kind | edit | checks | rule |\n|---|---|---|---|')
        for m in ms:
            print('| %s | %s | %s | %s |' % (m['kind'], m['name'], ', '.join(m['props']), m.get('rule') or '(any)'))
        return 0
    bad = 0
    with concurrent.futures.ThreadPoolExecutor(max_workers=int(os.environ.get("VERIF_JOBS", "4"))) as ex:
        for m, ok, out in ex.map(run_one, ms):
            print('%-8s %-44s %s  %s' % (m['kind'], m['name'], 'ok  ' if ok else 'FAIL', ' '.join('%s:%d' % (p, rc) for p, rc, g, o in out)))
            if not ok or verbose:
                for p, rc, g, o in out:
                    if not g or verbose:
                        print('    ' + '\n    '.join(o.strip().splitlines()[-12:]))
            bad += 0 if ok else 1
    print('%d edits, %d failed expectations' % (len(ms), bad))
    return 1 if bad else 0


if __name__ == '__main__':
    sys.exit(main())
