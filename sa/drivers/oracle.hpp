// Independent constexpr oracle for the type-level witnesses.  Nothing here uses amc's own
// helpers: the expected values are re-derived from the property statements.
#pragma once

#include <cstddef>
#include <cstdint>
#include <type_traits>
#include <utility>

namespace oracle {

template <class...>
struct voider {
  using type = void;
};

// "declares trivially_relocatable": 1 = std::true_type, -1 = something else, 0 = no declaration
template <class T, class = void>
struct decl : std::integral_constant<int, 0> {};
template <class T>
struct decl<T, typename voider<typename T::trivially_relocatable>::type>
    : std::integral_constant<int, std::is_same<typename T::trivially_relocatable, std::true_type>::value ? 1 : -1> {};

// C17: true exactly for types declaring true_type, for trivially copyable types that make no
// declaration, and for pairs of relocatable types.
template <class T>
struct reloc : std::integral_constant<bool, decl<T>::value == 1 ||
                                                (decl<T>::value == 0 && std::is_trivially_copyable<T>::value)> {};
template <class A, class B>
struct reloc<std::pair<A, B>> : std::integral_constant<bool, reloc<A>::value && reloc<B>::value> {};

constexpr std::size_t roundup(std::size_t x, std::size_t a) { return (x + a - 1) / a * a; }
constexpr std::size_t maxz(std::size_t a, std::size_t b) { return a < b ? b : a; }

template <std::size_t S, std::size_t A>
struct alignas(A) Blob {
  unsigned char b[S];
};

// nothrow swappable, re-derived (std::is_nothrow_swappable is C++17 only)
namespace sw {
using std::swap;
template <class T>
struct nothrow : std::integral_constant<bool, noexcept(swap(std::declval<T &>(), std::declval<T &>()))> {};
}  // namespace sw

// detection idiom
template <class, template <class...> class Op, class... Args>
struct detector : std::false_type {};
template <template <class...> class Op, class... Args>
struct detector<typename voider<Op<Args...>>::type, Op, Args...> : std::true_type {};
template <template <class...> class Op, class... Args>
using is_detected = detector<void, Op, Args...>;

}  // namespace oracle
