// Instantiation driver for the amc:: memory algorithms (parsed only).
#pragma once

#include <amc/allocator.hpp>
#include <amc/memory.hpp>

#include <iterator>

#include "elem_types.hpp"

namespace drv {
template <class T>
void sink(T &&);

template <class E>
void use_memory(E *a, E *b, const E *c, int n) {
  sink(amc::construct_at(a));
  sink(amc::construct_at(a, 3));
  sink(amc::construct_at(a, std::move(*b)));
  amc::destroy_at(a);
  amc::destroy(a, b);
  sink(amc::destroy_n(a, n));
  amc::uninitialized_default_construct(a, b);
  sink(amc::uninitialized_default_construct_n(a, n));
  amc::uninitialized_value_construct(a, b);
  sink(amc::uninitialized_value_construct_n(a, n));
  sink(amc::uninitialized_move(a, b, a));
  sink(amc::uninitialized_move_n(a, n, b));
  sink(amc::uninitialized_relocate(a, b, a));
  sink(amc::uninitialized_relocate_n(a, n, b));
  sink(amc::relocate_at(a, b));
  (void)c;
}

// amc::allocator used directly (reallocate is part of its public interface)
template <class E>
void use_allocator(amc::allocator<E> &a, int n) {
  E *p = a.allocate(n);
  p = a.reallocate(p, n, 2 * n, n);
  a.deallocate(p, 2 * n);
}

template <class E>
void use_memory_copy(E *a, const E *c, const E *d, int n) {
  sink(amc::construct_at(a, *c));
  sink(amc::uninitialized_copy(c, d, a));
  sink(amc::uninitialized_copy_n(c, n, a));
}

// value category forwarding of construct_at: one instantiation per category
inline void use_construct_forwarding(arch::ThreeWay *p, arch::ThreeWay &l, const arch::ThreeWay &c, arch::Greedy *g, arch::Greedy &gl) {
  sink(amc::construct_at(p, l));
  sink(amc::construct_at(p, c));
  sink(amc::construct_at(p, static_cast<arch::ThreeWay &&>(l)));
  sink(amc::construct_at(g, gl));
}

// source and destination of different value types: the copy must convert, never reinterpret
template <class From, class To>
void use_memory_convert(const From *c, const From *d, To *a, int n) {
  sink(amc::uninitialized_copy(c, d, a));
  sink(amc::uninitialized_copy_n(c, n, a));
}

// source iterator archetypes (copy/move read through *it)
template <class E, class It>
void use_memory_src(It first, It last, E *dest, int n) {
  sink(amc::uninitialized_copy(first, last, dest));
  sink(amc::uninitialized_copy_n(first, n, dest));
}

// random access, not contiguous, on both sides
template <class E>
void use_memory_rr(std::reverse_iterator<const E *> first, std::reverse_iterator<const E *> last, std::reverse_iterator<E *> dest, int n) {
  sink(amc::uninitialized_copy(first, last, dest));
  sink(amc::uninitialized_copy_n(first, n, dest));
  std::reverse_iterator<E *> mf(const_cast<E *>(first.base())), ml(const_cast<E *>(last.base()));
  sink(amc::uninitialized_move(mf, ml, dest));
  sink(amc::uninitialized_move_n(mf, n, dest));
  sink(amc::uninitialized_relocate(mf, ml, dest));
  sink(amc::uninitialized_relocate_n(mf, n, dest));
}

// mutable source/destination iterator archetypes
template <class E, class It>
void use_memory_dst(E *a, E *b, It it, int n) {
  sink(amc::uninitialized_move(a, b, it));
  sink(amc::uninitialized_move_n(a, n, it));
  sink(amc::uninitialized_relocate(a, b, it));
  sink(amc::uninitialized_relocate_n(a, n, it));
  sink(amc::uninitialized_move(it, it, a));
  sink(amc::uninitialized_move_n(it, n, a));
  sink(amc::uninitialized_relocate(it, it, a));
  sink(amc::uninitialized_relocate_n(it, n, a));
  amc::destroy(it, it);
  sink(amc::destroy_n(it, n));
  amc::uninitialized_default_construct(it, it);
  sink(amc::uninitialized_default_construct_n(it, n));
  amc::uninitialized_value_construct(it, it);
  sink(amc::uninitialized_value_construct_n(it, n));
}
}  // namespace drv
