// Instantiation driver for FlatSet and SmallSet (parsed only, never linked or run).
#pragma once

#include <amc/fixedcapacityvector.hpp>
#include <amc/flatset.hpp>
#include <amc/smallvector.hpp>
#include <amc/vector.hpp>
#if __cplusplus >= 201703L
#include <amc/smallset.hpp>
#endif

#include <initializer_list>
#include <set>
#include <vector>

#include "elem_types.hpp"

namespace drv {
template <class T>
void sink(T &&);

template <class F>
void use_flatset(F &s, F &o, const F &c) {
  using E = typename F::value_type;
  using C = typename F::key_compare;
  using A = typename F::allocator_type;
  const E e(3);
  F d;
  F withCmp{C()};
  F withAlloc{A()};
  F cp(c);
  F cpa(c, c.get_allocator());
  F mv(std::move(o));
  F mva(std::move(o), c.get_allocator());
  F il{E(1), E(2)};
  F ila({E(1), E(2)}, c.get_allocator());
  F rng(c.begin(), c.end());
  F rnga(c.begin(), c.end(), c.get_allocator());
  s = c;
  s = std::move(mv);
  s = {E(1), E(2)};
  sink(c.key_comp());
  sink(c.value_comp());
  sink(c.get_allocator());
  sink(c.begin());
  sink(c.end());
  sink(c.cbegin());
  sink(c.cend());
  sink(c.rbegin());
  sink(c.rend());
  sink(c.crbegin());
  sink(c.crend());
  sink(c.front());
  sink(c.back());
  sink(c.empty());
  sink(c.size());
  sink(c.max_size());
  s.clear();
  sink(s.insert(e));
  sink(s.insert(E(4)));
  sink(s.insert(s.begin(), e));
  sink(s.insert(s.begin(), E(5)));
  s.insert(c.begin(), c.end());
  s.insert({E(1), E(2)});
  sink(s.emplace(6));
  sink(s.emplace_hint(s.begin(), 7));
  sink(c.find(e));
  sink(c.contains(e));
  sink(c.count(e));
  sink(c.lower_bound(e));
  sink(c.upper_bound(e));
  sink(c.equal_range(e));
  sink(s.erase(e));
  sink(s.erase(s.begin()));
  sink(s.erase(s.begin(), s.end()));
  sink(c == s);
  sink(c != s);
  sink(c < s);
  sink(c <= s);
  sink(c > s);
  sink(c >= s);
  s.swap(o);
  swap(s, o);
  s.merge(o);
#if __cplusplus >= 201703L
  typename F::node_type nh = s.extract(E(9));
  typename F::node_type nk = s.extract(e);
  sink(nh.empty());
  sink(static_cast<bool>(nh));
  sink(nh.value());
  sink(nh.get_allocator());
  nh.swap(nk);
  sink(s.insert(std::move(nh)));
  sink(s.insert(s.begin(), std::move(nk)));
#endif
#if __cplusplus >= 202002L
  sink(c <=> s);
  sink(erase_if(s, [](const E &) { return true; }));
#endif
}

#if __cplusplus >= 201703L
// extract(const_iterator) does not compile for every underlying vector (std::vector): separate
template <class F>
void use_flatset_extract_pos(F &s) {
  typename F::node_type nh = s.extract(s.begin());
  sink(nh.empty());
}
#endif

template <class F, class F2>
void use_flatset_merge(F &s, F2 &o) {
  s.merge(o);
}

template <class F, class It>
void use_flatset_ranges(F &s, It first, It last) {
  F rng(first, last);
  s.insert(first, last);
}

#if __cplusplus >= 201402L
template <class F>
void use_flatset_transparent(const F &c) {
  sink(c.find(3));
  sink(c.contains(3));
  sink(c.count(3));
  sink(c.lower_bound(3));
  sink(c.upper_bound(3));
}
#endif

#ifdef AMC_NONSTD_FEATURES
template <class F>
void use_flatset_nonstd(F &s) {
  using Vec = typename F::vector_type;
  Vec v;
  F fromVec(std::move(v));
  s = std::move(v);
  sink(s.data());
  sink(s[0]);
  sink(s.at(0));
  sink(s.capacity());
  s.reserve(4);
  s.shrink_to_fit();
  Vec st = s.steal_vector();
  sink(st);
}
template <class F>
void use_flatset_nonstd_min(F &s) {
  using Vec = typename F::vector_type;
  Vec v;
  F fromVec(std::move(v));
  s = std::move(v);
  sink(s.data());
  sink(s[0]);
  sink(s.at(0));
  sink(s.capacity());
  s.reserve(4);
  s.shrink_to_fit();
  Vec st = s.steal_vector();
  sink(st);
}
#endif

#if __cplusplus >= 201703L
// it.operator->() for class-type iterators, the pointer itself for raw pointers
template <class It>
auto arrow_of(It it, int) -> decltype(it.operator->()) {
  return it.operator->();
}
template <class It>
It arrow_of(It it, long) {
  return it;
}

template <class S>
void use_smallset(S &s, S &o, const S &c) {
  using E = typename S::value_type;
  using C = typename S::key_compare;
  using A = typename S::allocator_type;
  const E e(3);
  S d;
  S withCmp{C()};
  S withAlloc{A()};
  S cp(c);
  S cpa(c, c.get_allocator());
  S mv(std::move(o));
  S mva(std::move(o), c.get_allocator());
  S il{E(1), E(2)};
  S ila({E(1), E(2)}, c.get_allocator());
  S rng(c.begin(), c.end());
  S rnga(c.begin(), c.end(), c.get_allocator());
  s = c;
  s = std::move(mv);
  s = {E(1), E(2)};
  sink(c.key_comp());
  sink(c.value_comp());
  sink(c.get_allocator());
  auto b = c.begin();
  auto en = c.end();
  sink(c.cbegin());
  sink(c.cend());
  auto rb = c.rbegin();
  auto re = c.rend();
  sink(c.crbegin());
  sink(c.crend());
  sink(b == en);
  sink(b != en);
  sink(arrow_of(b, 0));    // member access through the iterators (class-type elements use it->member)
  sink(arrow_of(rb, 0));
  ++b;
  --b;
  b++;
  b--;
  sink(*b);
  sink(rb == re);
  ++rb;
  --rb;
  rb++;
  rb--;
  sink(*rb);
  sink(c.empty());
  sink(c.size());
  sink(c.max_size());
  s.clear();
  sink(s.insert(e));
  sink(s.insert(E(4)));
  sink(s.insert(s.begin(), e));
  sink(s.insert(s.begin(), E(5)));
  s.insert(c.begin(), c.end());
  s.insert({E(1), E(2)});
  sink(s.emplace(6));
  sink(s.emplace_hint(s.begin(), 7));
  sink(c.find(e));
  sink(c.contains(e));
  sink(c.count(e));
  sink(s.erase(e));
  sink(s.erase(s.begin()));
  sink(s.erase(s.begin(), s.end()));
  sink(c == s);
  sink(c != s);
  sink(c < s);
  sink(c <= s);
  sink(c > s);
  sink(c >= s);
  s.swap(o);
  swap(s, o);
  typename S::node_type nh = s.extract(E(9));
  typename S::node_type nk = s.extract(e);
  sink(nh.empty());
  sink(static_cast<bool>(nh));
  sink(nh.value());
  sink(nh.get_allocator());
  nh.swap(nk);
  sink(s.insert(std::move(nh)));
  sink(s.insert(s.begin(), std::move(nk)));
#if __cplusplus >= 202002L
  sink(c <=> s);
  sink(erase_if(s, [](const E &) { return true; }));
#endif
}

// extract(const_iterator) does not compile when the iterator is a raw pointer (FlatSet backing)
template <class S>
void use_smallset_extract_pos(S &s) {
  typename S::node_type nh = s.extract(s.begin());
  sink(nh.empty());
}

template <class S, class S2>
void use_smallset_merge(S &s, S2 &o) {
  s.merge(o);
}

template <class S, class It>
void use_smallset_ranges(S &s, It first, It last) {
  S rng(first, last);
  s.insert(first, last);
}

template <class S>
void use_smallset_transparent(const S &c) {
  sink(c.find(3));
  sink(c.contains(3));
  sink(c.count(3));
}
#endif

}  // namespace drv
