// Instantiation driver for the vector flavours.  Compiled with -fsyntax-only, never linked or
// run.  Every public operation is *called* once so that overload resolution - not a table -
// selects the callee, and so that every member template is instantiated for the archetype.
#pragma once

#include <amc/fixedcapacityvector.hpp>
#include <amc/smallvector.hpp>
#include <amc/vector.hpp>

#include <initializer_list>
#include <iterator>
#include <list>

#include "elem_types.hpp"

namespace drv {

template <class T>
void sink(T &&);

// operations available for every element type (movable)
template <class V>
void use_vector_movable(V &v, V &w, const V &c) {
  using E = typename V::value_type;
  using S = typename V::size_type;
  V d;
  V m(std::move(w));
  V cnt(S(3));
  v = std::move(m);
  v.swap(w);
  swap(v, w);
  sink(c.get_allocator());
  sink(c.begin());
  sink(c.end());
  sink(c.cbegin());
  sink(c.cend());
  sink(c.rbegin());
  sink(c.rend());
  sink(c.crbegin());
  sink(c.crend());
  sink(v.begin());
  sink(v.end());
  sink(v.rbegin());
  sink(v.rend());
  sink(c.size());
  sink(c.capacity());
  sink(c.max_size());
  sink(c.empty());
  sink(c.data());
  sink(v.data());
  sink(c[S(0)]);
  sink(v[S(0)]);
  sink(c.at(S(0)));
  sink(v.at(S(0)));
  sink(c.front());
  sink(v.front());
  sink(c.back());
  sink(v.back());
  sink(c == v);
  sink(c != v);
  sink(c < v);
  sink(c <= v);
  sink(c > v);
  sink(c >= v);
  v.reserve(S(5));
  v.shrink_to_fit();
  v.clear();
  v.pop_back();
  v.push_back(E(1));
  sink(v.emplace_back(2));
  sink(v.emplace_back());
  sink(v.emplace(v.begin(), 3));
  sink(v.insert(v.begin(), E(4)));
  sink(v.erase(v.begin()));
  sink(v.erase(v.begin(), v.end()));
  v.resize(S(2));
  sink(v.insert(v.begin(), std::make_move_iterator(w.begin()), std::make_move_iterator(w.end())));
  v.assign(std::make_move_iterator(w.begin()), std::make_move_iterator(w.end()));
#ifdef AMC_NONSTD_FEATURES
  sink(v.pop_back_val());
  v.append(S(2));
  v.append(std::make_move_iterator(w.begin()), std::make_move_iterator(w.end()));
  v.swap2(w);
#endif
}

// operations that need a copyable element
template <class V>
void use_vector_copyable(V &v, V &w, const V &c) {
  using E = typename V::value_type;
  using S = typename V::size_type;
  const E e(7);
  V cp(c);
  V cpa(c, c.get_allocator());
  V fill(S(3), e);
  V il{E(1), E(2)};
  V rng(c.begin(), c.end());
  v = c;
  v = {E(1), E(2)};
  v.push_back(e);
  sink(v.emplace_back(e));
  sink(v.emplace(v.begin(), e));
  sink(v.insert(v.begin(), e));
  sink(v.insert(v.begin(), S(2), e));
  sink(v.insert(v.begin(), c.begin(), c.end()));
  sink(v.insert(v.begin(), {E(1), E(2)}));
  v.assign(S(2), e);
  v.assign(c.begin(), c.end());
  v.assign({E(1), E(2)});
  v.resize(S(4), e);
#ifdef AMC_NONSTD_FEATURES
  v.append(S(2), e);
  v.append(c.begin(), c.end());
  v.append({E(1), E(2)});
#endif
  (void)w;
}

// range members with a given iterator archetype
template <class V, class It>
void use_vector_ranges(V &v, It first, It last) {
  V rng(first, last);
  v.assign(first, last);
  sink(v.insert(v.begin(), first, last));
#ifdef AMC_NONSTD_FEATURES
  v.append(first, last);
#endif
}

#ifdef AMC_NONSTD_FEATURES
// swap2 between two flavours
template <class V, class W>
void use_swap2(V &v, W &w) {
  v.swap2(w);
}
// swap found by argument dependent lookup between two vectors with the same VectorImpl base (different inline capacity)
template <class V, class W>
void use_adl_swap(V &v, W &w) {
  using std::swap;
  swap(v, w);
}
// the SmallVector-from-vector stealing constructor
template <class SV, class PlainV>
void use_steal(PlainV &pv) {
  SV sv(std::move(pv));
  sink(sv);
}
#endif

#if __cplusplus >= 202002L
template <class V>
void use_vector_cxx20(V &v, const V &c) {
  using E = typename V::value_type;
  sink(c <=> v);
  sink(erase(v, E(1)));
  sink(erase_if(v, [](const E &) { return true; }));
}
#endif

}  // namespace drv
