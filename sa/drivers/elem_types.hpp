// Archetypes the analysis instantiates amc with.  They are *types*, not test inputs: nothing
// here is ever executed; members are declared and (mostly) left undefined on purpose so that the
// only bodies the analyser sees are amc's and the standard library's.
#pragma once

#include <cstddef>
#include <cstdint>
#include <functional>
#include <iterator>
#include <memory>
#include <type_traits>
#include <utility>

namespace arch {

// trivially copyable
struct TC {
  int v;
  TC() = default;
  TC(int x) noexcept : v(x) {}
  bool operator==(const TC &o) const noexcept { return v == o.v; }
  bool operator<(const TC &o) const noexcept { return v < o.v; }
  bool operator>(const TC &o) const noexcept { return v > o.v; }
#if __cplusplus >= 202002L
  auto operator<=>(const TC &o) const noexcept = default;
#endif
};

// declares itself trivially relocatable, is not trivially copyable; copy may throw, moves noexcept
struct TRnc {
  using trivially_relocatable = std::true_type;
  TRnc();
  TRnc(int);
  TRnc(const TRnc &);
  TRnc(TRnc &&) noexcept;
  TRnc &operator=(const TRnc &);
  TRnc &operator=(TRnc &&) noexcept;
  ~TRnc();
  bool operator==(const TRnc &) const noexcept;
  bool operator<(const TRnc &) const noexcept;
  bool operator>(const TRnc &) const noexcept;
#if __cplusplus >= 202002L
  std::strong_ordering operator<=>(const TRnc &) const noexcept;
#endif
  int *p;
};

// not relocatable; copy may throw, moves noexcept
struct NTR {
  NTR();
  NTR(int);
  NTR(const NTR &);
  NTR(NTR &&) noexcept;
  NTR &operator=(const NTR &);
  NTR &operator=(NTR &&) noexcept;
  ~NTR();
  bool operator==(const NTR &) const noexcept;
  bool operator<(const NTR &) const noexcept;
  bool operator>(const NTR &) const noexcept;
#if __cplusplus >= 202002L
  std::strong_ordering operator<=>(const NTR &) const noexcept;
#endif
  NTR *self;
};

// not relocatable; moves may throw as well
struct NTRtm {
  NTRtm();
  NTRtm(int);
  NTRtm(const NTRtm &);
  NTRtm(NTRtm &&);
  NTRtm &operator=(const NTRtm &);
  NTRtm &operator=(NTRtm &&);
  ~NTRtm();
  bool operator==(const NTRtm &) const noexcept;
  bool operator<(const NTRtm &) const noexcept;
  bool operator>(const NTRtm &) const noexcept;
#if __cplusplus >= 202002L
  std::strong_ordering operator<=>(const NTRtm &) const noexcept;
#endif
  NTRtm *self;
};

// trivially copyable but opts out of relocation
struct OptOut {
  using trivially_relocatable = std::false_type;
  int v;
  OptOut() = default;
  OptOut(int x) noexcept : v(x) {}
  bool operator==(const OptOut &o) const noexcept { return v == o.v; }
  bool operator<(const OptOut &o) const noexcept { return v < o.v; }
  bool operator>(const OptOut &o) const noexcept { return v > o.v; }
#if __cplusplus >= 202002L
  auto operator<=>(const OptOut &o) const noexcept = default;
#endif
};

// distinguishes construction from a non-const lvalue, a const lvalue and an rvalue (std::construct_at forwards the value category)
struct ThreeWay {
  ThreeWay();
  ThreeWay(ThreeWay &);
  ThreeWay(const ThreeWay &);
  ThreeWay(ThreeWay &&) noexcept;
  ~ThreeWay();
  int v;
};
// trivially copyable, with a perfect-forwarding constructor that must win for non-const lvalues
struct Greedy {
  Greedy() = default;
  template <class U>
  Greedy(U &&);
  int v;
};

// move only, relocatable by declaration
struct MoveOnly {
  using trivially_relocatable = std::true_type;
  MoveOnly();
  MoveOnly(int);
  MoveOnly(const MoveOnly &) = delete;
  MoveOnly(MoveOnly &&) noexcept;
  MoveOnly &operator=(const MoveOnly &) = delete;
  MoveOnly &operator=(MoveOnly &&) noexcept;
  ~MoveOnly();
  bool operator==(const MoveOnly &) const noexcept;
  bool operator<(const MoveOnly &) const noexcept;
  bool operator>(const MoveOnly &) const noexcept;
#if __cplusplus >= 202002L
  std::strong_ordering operator<=>(const MoveOnly &) const noexcept;
#endif
  int *p;
};

// ---------------------------------------------------------------- allocators
// std-like allocator offering the optional reallocate
template <class T>
struct ReallocAlloc {
  using value_type = T;
  using pointer = T *;
  using const_pointer = const T *;
  using size_type = std::size_t;
  using difference_type = std::ptrdiff_t;
  ReallocAlloc() noexcept;
  template <class U>
  ReallocAlloc(const ReallocAlloc<U> &) noexcept;
  T *allocate(size_type n);
  T *reallocate(pointer p, size_type oldCapacity, size_type newCapacity, size_type nConstructedElems);
  void deallocate(T *p, size_type n) noexcept;
  template <class U>
  struct rebind {
    using other = ReallocAlloc<U>;
  };
  bool operator==(const ReallocAlloc &) const noexcept;
  bool operator!=(const ReallocAlloc &) const noexcept;
};

// stateful allocator, compares by identity of its arena
template <class T>
struct ArenaAlloc {
  using value_type = T;
  using pointer = T *;
  using const_pointer = const T *;
  using size_type = std::size_t;
  using difference_type = std::ptrdiff_t;
  ArenaAlloc() noexcept;
  explicit ArenaAlloc(void *arena) noexcept;
  template <class U>
  ArenaAlloc(const ArenaAlloc<U> &) noexcept;
  T *allocate(size_type n);
  void deallocate(T *p, size_type n) noexcept;
  template <class U>
  struct rebind {
    using other = ArenaAlloc<U>;
  };
  bool operator==(const ArenaAlloc &o) const noexcept;
  bool operator!=(const ArenaAlloc &o) const noexcept;
  void *arena;
};

// ---------------------------------------------------------------- iterators
template <class E>
struct InputIt {  // single pass
  using iterator_category = std::input_iterator_tag;
  using value_type = E;
  using difference_type = std::ptrdiff_t;
  using pointer = const E *;
  using reference = const E &;
  reference operator*() const noexcept;
  pointer operator->() const noexcept;
  InputIt &operator++() noexcept;
  InputIt operator++(int) noexcept;
  bool operator==(const InputIt &) const noexcept;
  bool operator!=(const InputIt &) const noexcept;
};

template <class E>
struct FwdIt {
  using iterator_category = std::forward_iterator_tag;
  using value_type = E;
  using difference_type = std::ptrdiff_t;
  using pointer = const E *;
  using reference = const E &;
  reference operator*() const noexcept;
  pointer operator->() const noexcept;
  FwdIt &operator++() noexcept;
  FwdIt operator++(int) noexcept;
  bool operator==(const FwdIt &) const noexcept;
  bool operator!=(const FwdIt &) const noexcept;
};

template <class E>
struct BidirIt {
  using iterator_category = std::bidirectional_iterator_tag;
  using value_type = E;
  using difference_type = std::ptrdiff_t;
  using pointer = const E *;
  using reference = const E &;
  reference operator*() const noexcept;
  pointer operator->() const noexcept;
  BidirIt &operator++() noexcept;
  BidirIt operator++(int) noexcept;
  BidirIt &operator--() noexcept;
  BidirIt operator--(int) noexcept;
  bool operator==(const BidirIt &) const noexcept;
  bool operator!=(const BidirIt &) const noexcept;
};

// mutable forward iterator (for the memory algorithms' destination side)
template <class E>
struct MutFwdIt {
  using iterator_category = std::forward_iterator_tag;
  using value_type = E;
  using difference_type = std::ptrdiff_t;
  using pointer = E *;
  using reference = E &;
  reference operator*() const noexcept;
  pointer operator->() const noexcept;
  MutFwdIt &operator++() noexcept;
  MutFwdIt operator++(int) noexcept;
  bool operator==(const MutFwdIt &) const noexcept;
  bool operator!=(const MutFwdIt &) const noexcept;
};

// ---------------------------------------------------------------- comparators
template <class E>
struct Stateful {  // holds a direction flag; two instances may order differently
  Stateful() noexcept;
  explicit Stateful(bool desc) noexcept;
  bool operator()(const E &a, const E &b) const;
  bool desc;
};
template <class E>
struct Coarse {  // equivalence classes coarser than equality
  bool operator()(const E &a, const E &b) const;
};
template <class E>
struct Transparent {
  using is_transparent = void;
  bool operator()(const E &a, const E &b) const;
  bool operator()(const E &a, int b) const;
  bool operator()(int a, const E &b) const;
};

}  // namespace arch
