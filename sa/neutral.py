#!/usr/bin/env python3
"""Runs every registered check against the behaviour-preserving refactorings kept under /verif/neutral/<id>/ (patch.diff = a change to
AmadeusITGroup/amc produced independently by a sub-agent asked for a realistic clean-up that changes nothing observable; README.txt =
what was rewritten and why it cannot change behaviour).  Every check must stay silent (exit 0) on every one of them: an alarm here is a
false alarm of the machinery.  The patch is applied to a scratch copy of /repo (outside /repo and /verif, removed afterwards).
usage: sa/neutral.py [id-substring ...] [--thorough] [--props C01,C09]"""
import glob
import os
import shutil
import subprocess
import sys
import tempfile
import concurrent.futures

HERE = os.path.dirname(os.path.dirname(os.path.abspath(__file__)))
REPO = '/repo'
ALL = ['C%02d' % i for i in range(1, 21)]


def run_one(args):
    sdir, props, tier = args
    d = tempfile.mkdtemp(prefix='amcneutral-')
    try:
        for sub in ('include', 'test', 'benchmark'):
            shutil.copytree(os.path.join(REPO, sub), os.path.join(d, sub))
        p = subprocess.run(['patch', '-p1', '-s', '-d', d, '-i', os.path.join(sdir, 'patch.diff')], stdout=subprocess.PIPE, stderr=subprocess.STDOUT, universal_newlines=True)
        if p.returncode != 0:
            return sdir, None, 'patch does not apply: ' + p.stdout
        res = {}
        for prop in props:
            env = dict(os.environ, AMC_REPO=d, VERIF_EVIDENCE_DIR=os.path.join(d, 'evidence'), VERIF_REPLAY_DIR=os.path.join(d, 'replays'))
            q = subprocess.run([os.path.join(HERE, 'check'), prop, '--tier', tier], env=env, stdout=subprocess.PIPE, stderr=subprocess.STDOUT, universal_newlines=True)
            if q.returncode != 0:
                lines = [l.strip()[:330] for l in q.stdout.splitlines() if ': [' in l or l.startswith('ANALYSIS-BROKEN')]
                res[prop] = (q.returncode, lines[:3])
        return sdir, res, ''
    finally:
        shutil.rmtree(d, ignore_errors=True)


def main():
    args = sys.argv[1:]
    tier = 'thorough' if '--thorough' in args else 'quick'
    props = ALL
    if '--props' in args:
        props = args[args.index('--props') + 1].split(',')
        del args[args.index('--props'):args.index('--props') + 2]
    args = [a for a in args if not a.startswith('--')]
    jobs = []
    for sdir in sorted(glob.glob(os.path.join(HERE, 'neutral', '*'))):
        if os.path.isdir(sdir) and (not args or any(a in sdir for a in args)):
            jobs.append((sdir, props, tier))
    bad = 0
    broken = 0
    with concurrent.futures.ThreadPoolExecutor(max_workers=int(os.environ.get("VERIF_JOBS", "4"))) as ex:
        for sdir, res, err in ex.map(run_one, jobs):
            name = os.path.basename(sdir)
            if res is None:
                print('%-8s ERROR %s' % (name, err))
                bad += 1
            elif res:
                alarm = any(rc == 1 for rc, _ in res.values())
                bad += 1 if alarm else 0
                broken += 0 if alarm else 1
                print('%-8s %s  %s' % (name, 'ALARM ' if alarm else 'BROKEN', ' '.join('%s:%d' % (p, rc) for p, (rc, _) in sorted(res.items()))))
                for p, (rc, lines) in sorted(res.items()):
                    for l in lines:
                        print('      %s: %s' % (p, l))
            else:
                print('%-8s silent (%d checks)' % (name, len(props)))
    print('%d refactorings, %d raised an alarm, %d could not be analysed (exit 2: an anchor the rules are filled from was renamed or removed)' % (len(jobs), bad, broken))
    return 1 if bad else 0


if __name__ == '__main__':
    sys.exit(main())
