#!/usr/bin/env python3
"""Runs the registered checks against the seeded changes kept under /verif/seeded/<id>/ (patch.diff = a change to
AmadeusITGroup/amc produced independently, that breaks meta.json:property while the test suite still passes).
The patch is applied to a scratch copy of /repo's headers (outside /repo and /verif, removed afterwards).
usage: sa/seeded.py [id-substring ...] [--all-checks] [--tier quick|thorough]"""
import glob
import json
import os
import shutil
import subprocess
import sys
import tempfile
import concurrent.futures

HERE = os.path.dirname(os.path.dirname(os.path.abspath(__file__)))
REPO = '/repo'
ALL = ['C01', 'C02', 'C03', 'C04', 'C05', 'C06', 'C07', 'C08', 'C09', 'C10', 'C11', 'C12', 'C13', 'C14', 'C15', 'C16', 'C17', 'C18', 'C19', 'C20']


def run_one(args):
    sdir, props, tier = args
    d = tempfile.mkdtemp(prefix='amcseed-')
    try:
        for sub in ('include', 'test', 'benchmark'):
            shutil.copytree(os.path.join(REPO, sub), os.path.join(d, sub))
        p = subprocess.run(['patch', '-p1', '-s', '-d', d, '-i', os.path.join(sdir, 'patch.diff')], stdout=subprocess.PIPE, stderr=subprocess.STDOUT, universal_newlines=True)
        if p.returncode != 0:
            return sdir, None, 'patch does not apply: ' + p.stdout
        res = {}
        for prop in props:
            env = dict(os.environ, AMC_REPO=d, VERIF_EVIDENCE_DIR=os.path.join(d, 'evidence'), VERIF_REPLAY_DIR=os.path.join(d, 'replays'))
            q = subprocess.run([os.path.join(HERE, 'check'), prop, '--tier', tier], env=env, stdout=subprocess.PIPE, stderr=subprocess.STDOUT, universal_newlines=True)
            rules = sorted({l.split('[')[1].split(']')[0] for l in q.stdout.splitlines() if ': [' in l and ']' in l})
            res[prop] = {'exit': q.returncode, 'rules': rules,
                         'first': next((l.strip()[:300] for l in q.stdout.splitlines() if ': [' in l), '')}
        return sdir, res, ''
    finally:
        shutil.rmtree(d, ignore_errors=True)


def main():
    args = sys.argv[1:]
    allc = '--all-checks' in args
    tier = 'thorough' if '--thorough' in args else 'quick'
    args = [a for a in args if not a.startswith('--')]
    jobs = []
    for sdir in sorted(glob.glob(os.path.join(HERE, 'seeded', '*'))):
        if not os.path.isdir(sdir) or (args and not any(a in sdir for a in args)):
            continue
        meta = json.load(open(os.path.join(sdir, 'meta.json')))
        props = ALL if allc else meta.get('checks_expected') or [meta['property']]
        jobs.append((sdir, props, tier))
    bad = 0
    with concurrent.futures.ThreadPoolExecutor(max_workers=int(os.environ.get("VERIF_JOBS", "3"))) as ex:
        for sdir, res, err in ex.map(run_one, jobs):
            name = os.path.basename(sdir)
            if res is None:
                print('%-10s ERROR %s' % (name, err))
                bad += 1
                continue
            caught = {p: r for p, r in res.items() if r['exit'] == 1}
            broken = {p: r for p, r in res.items() if r['exit'] not in (0, 1)}
            print('%-10s %s  caught by: %s%s' % (name, 'CAUGHT' if caught else 'MISSED',
                                                 ', '.join('%s[%s]' % (p, '/'.join(r['rules'])) for p, r in caught.items()) or '-',
                                                 ('  analysis-broken: ' + ','.join(broken)) if broken else ''))
            for p, r in caught.items():
                print('      %s: %s' % (p, r['first']))
            if not caught:
                bad += 1
    return 1 if bad else 0


if __name__ == '__main__':
    sys.exit(main())
