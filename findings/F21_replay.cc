// F21 replay: amc::allocator<T>::reallocate for a type whose move constructor throws: the new block must be given back.
#include <amc/allocator.hpp>
#include <amc/memory.hpp>
#include <cstdio>
#include <stdexcept>
static int budget = -1;
struct M { int v; explicit M(int x = 0) : v(x) {} M(M &&o) : v(o.v) { if (budget == 0) { budget = -1; throw std::runtime_error("move"); } if (budget > 0) --budget; } ~M() {} };
int main() {
  amc::allocator<M> a;
  M *p = a.allocate(4);
  for (int i = 0; i < 4; ++i) amc::construct_at(p + i, i);
  budget = 2;
  bool threw = false;
  try { p = a.reallocate(p, 4, 8, 4); } catch (const std::runtime_error &) { threw = true; }
  amc::destroy_n(p, 4);
  a.deallocate(p, 4);
  std::printf("threw=%d\n", threw);
  return threw ? 0 : 1;   // the leak itself is reported by LeakSanitizer (exit code 23)
}
