// F9 replay: a copy throws while insert(pos,count,v) / insert(pos,first,last) fills the hole opened by shift_right.
#include <amc/vector.hpp>
#include <amc/smallvector.hpp>
#include <cstdio>
#include <stdexcept>
#include <string>
#include <vector>
static int live = 0, budget = -1;
struct L {              // non trivially relocatable, nothrow moves, throwing copies
  int v; std::string pad;
  L(int x = 0) : v(x), pad("xxxxxxxxxxxxxxxxxxxxxxxxxxxxxxxxxxxxxxxx") { ++live; }
  L(const L &o) : v(o.v), pad(o.pad) { if (budget == 0) throw std::runtime_error("copy"); if (budget > 0) --budget; ++live; }
  L(L &&o) noexcept : v(o.v), pad(std::move(o.pad)) { o.v = -1; ++live; }
  L &operator=(const L &o) { if (budget == 0) throw std::runtime_error("assign"); if (budget > 0) --budget; v = o.v; pad = o.pad; return *this; }
  L &operator=(L &&o) noexcept { v = o.v; pad = std::move(o.pad); o.v = -1; return *this; }
  ~L() { --live; }
};
struct R {              // declared trivially relocatable, throwing copies
  using trivially_relocatable = std::true_type;
  int v; int *p;
  R(int x = 0) : v(x), p(new int(x)) { ++live; }
  R(const R &o) : v(o.v), p(nullptr) { if (budget == 0) throw std::runtime_error("copy"); if (budget > 0) --budget; p = new int(v); ++live; }
  R(R &&o) noexcept : v(o.v), p(o.p) { o.p = nullptr; o.v = -1; ++live; }
  R &operator=(const R &o) { if (budget == 0) throw std::runtime_error("assign"); if (budget > 0) --budget; v = o.v; *p = o.v; return *this; }
  R &operator=(R &&o) noexcept { delete p; v = o.v; p = o.p; o.p = nullptr; o.v = -1; return *this; }
  ~R() { delete p; --live; }
};
template <class V> static int run(const char *name) {
  int bad = 0;
  for (int size = 1; size <= 6; ++size)
    for (int pos = 0; pos < size; ++pos)
      for (int count = 1; count <= 5; ++count)
        for (int form = 0; form < 2; ++form)
          for (int b = 1; b <= count; ++b) {
            {
              V v; v.reserve(16);
              for (int i = 0; i < size; ++i) v.emplace_back(i);
              typename V::value_type x(99);
              std::vector<typename V::value_type> src; for (int i = 0; i < count; ++i) src.emplace_back(100 + i);
              budget = b + (form == 0 ? 0 : -1);  // form 0 takes one copy (valueCopy) before shifting
              if (budget < 0) budget = 0;
              bool threw = false;
              try { if (form == 0) v.insert(v.begin() + pos, count, x); else v.insert(v.begin() + pos, src.begin(), src.end()); }
              catch (const std::runtime_error &) { threw = true; }
              budget = -1;
              if (threw) {
                bool same = (int)v.size() == size;
                for (int i = 0; same && i < size; ++i) same = v[i].v == i;
                if (!same) { if (!bad) std::printf("%s: size=%d pos=%d count=%d form=%d throw#%d: contents not restored\n", name, size, pos, count, form, b); ++bad; }
              }
            }
            if (live != 0) { if (bad < 3) std::printf("%s: size=%d pos=%d count=%d form=%d throw#%d: %d objects leaked\n", name, size, pos, count, form, b, live); ++bad; live = 0; }
          }
  return bad;
}
int main() { setvbuf(stdout, nullptr, _IONBF, 0);
  int bad = run<amc::vector<L>>("vector<L>") + run<amc::SmallVector<L, 20>>("SmallVector<L,20>") + run<amc::vector<R>>("vector<R>");
  std::printf("%d failing scenarios\n", bad);
  return bad != 0;
}
