// F20 replay: element type whose move constructor / move assignment may throw; emplace / emplace_back at full capacity
// and insert in the middle.  No object may be leaked (live count back to 0 once the vector is destroyed).
#include <amc/vector.hpp>
#include <amc/smallvector.hpp>
#include <cstdio>
#include <stdexcept>
static int live = 0, budget = -1;
static void tick() { if (budget == 0) { budget = -1; throw std::runtime_error("move"); } if (budget > 0) --budget; }  // throws exactly once
struct M {              // not trivially relocatable, moves may throw
  int v; int *p;
  explicit M(int x = 0) : v(x), p(new int(x)) { ++live; }
  M(const M &o) : v(o.v), p(new int(o.v)) { ++live; }
  M(M &&o) : v(o.v), p(nullptr) { tick(); p = o.p; o.p = nullptr; o.v = -1; ++live; }
  M &operator=(const M &o) { v = o.v; if (p) *p = o.v; else p = new int(o.v); return *this; }
  M &operator=(M &&o) { tick(); delete p; v = o.v; p = o.p; o.p = nullptr; o.v = -1; return *this; }
  ~M() { delete p; --live; }
};
template <class V> static int run(const char *name) {
  int bad = 0;
  for (int size = 1; size <= 5; ++size)
    for (int pos = 0; pos <= size; ++pos)
      for (int op = 0; op < 3; ++op)          // 0 emplace at full capacity, 1 emplace_back at full capacity, 2 insert(pos,2,v) with room
        for (int b = 0; b < 2 * size + 4; ++b) {
          {
            V v;
            v.reserve(op == 2 ? size + 4 : size);
            for (int i = 0; i < size; ++i) v.emplace_back(i);
            if (op != 2 && v.size() != v.capacity()) continue;
            M x(99);
            budget = b;
            try {
              if (op == 0) v.emplace(v.begin() + pos, 7);
              else if (op == 1) v.emplace_back(7);
              else v.insert(v.begin() + pos, 2, x);
            } catch (const std::runtime_error &) {}
            budget = -1;
          }
          if (live != 0) { if (bad < 6) std::printf("%s: size=%d pos=%d op=%d throw#%d: %d objects leaked\n", name, size, pos, op, b, live); ++bad; live = 0; }
        }
  return bad;
}
int main() {
  setvbuf(stdout, nullptr, _IONBF, 0);
  int bad = run<amc::vector<M>>("vector<M>") + run<amc::SmallVector<M, 2>>("SmallVector<M,2>");
  std::printf("%d failing scenarios\n", bad);
  return bad != 0;
}
