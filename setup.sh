#!/bin/sh
# Builds the analysis plugin from files on disk only (system clang/llvm 14).
set -e
cd "$(dirname "$0")"
mkdir -p sa/build evidence
if [ ! -f sa/build/amcsa.so ] || [ sa/plugin/amcsa.cc -nt sa/build/amcsa.so ]; then
  clang++ $(llvm-config-14 --cxxflags) -std=c++17 -fno-rtti -fPIC -shared -O1 sa/plugin/amcsa.cc -o sa/build/amcsa.so.tmp
  mv sa/build/amcsa.so.tmp sa/build/amcsa.so
fi
echo "amcsa.so ready"
